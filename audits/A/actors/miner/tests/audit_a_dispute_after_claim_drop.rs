// Audit A, finding 2, second variant: the power of a sector can also go DOWN between the deadline's
// snapshot and a dispute (ExtendSectorExpiration2 dropping a verified claim in the last 30 days of
// the sector's life; extensions are not restricted to mutable deadlines at all). DisputeWindowedPoSt
// then tries to move the sector's OLD (larger) power from active to faulty in the sector's
// expiration-queue entry. If the miner extended the sector to an expiration epoch of its own (its
// own queue entry), the entry underflows, the dispute aborts with USR_ILLEGAL_STATE and the invalid
// Window PoSt of the whole partition can no longer be disputed by anybody.
use fil_actor_market::ActivatedDeal;
use fil_actor_miner::ext::verifreg::Claim as FILPlusClaim;
use fil_actor_miner::{
    Actor, BASE_REWARD_FOR_DISPUTED_WINDOW_POST, DisputeWindowedPoStParams, ExpirationExtension2,
    ExtendSectorExpiration2Params, Method, SectorClaim, SectorOnChainInfo, State,
    new_deadline_info, pledge_penalty_for_invalid_windowpost, power_for_sector,
};
use fil_actors_runtime::runtime::{DomainSeparationTag, Runtime, RuntimePolicy};
use fil_actors_runtime::test_utils::{
    ACCOUNT_ACTOR_CODE_ID, MockRuntime, expect_abort_contains_message, make_piece_cid,
};
use fvm_ipld_bitfield::BitField;
use fvm_ipld_encoding::RawBytes;
use fvm_ipld_encoding::ipld_block::IpldBlock;
use fvm_shared::ActorID;
use fvm_shared::address::Address;
use fvm_shared::clock::ChainEpoch;
use fvm_shared::deal::DealID;
use fvm_shared::error::ExitCode;
use fvm_shared::randomness::Randomness;
use fvm_shared::sector::{RegisteredSealProof, SectorInfo, WindowPoStVerifyInfo};
use std::collections::HashMap;

mod util;
use util::*;

const DEFAULT_SECTOR_EXPIRATION: ChainEpoch = 220;

fn setup() -> (ActorHarness, MockRuntime) {
    let mut h = ActorHarness::new(100);
    h.set_proof_type(RegisteredSealProof::StackedDRG512MiBV1);
    let rt = h.new_runtime();
    rt.balance.replace(BIG_BALANCE.clone());
    rt.set_epoch(1);
    (h, rt)
}

fn commit_sector_verified_deals(
    verified_deals: &[ActivatedDeal],
    h: &mut ActorHarness,
    rt: &MockRuntime,
) -> SectorOnChainInfo {
    h.construct_and_verify(rt);
    let mut pcc = ProveCommitConfig::empty();
    pcc.add_activated_deals(h.next_sector_no, verified_deals.to_owned());
    let deal_ids: Vec<DealID> = (0..verified_deals.len() as u64).collect();
    h.commit_and_prove_sectors_with_cfgs(
        rt,
        1,
        DEFAULT_SECTOR_EXPIRATION as u64,
        vec![deal_ids],
        true,
        pcc,
    )[0]
    .clone()
}

fn make_claim(
    claim_id: u64,
    sector: &SectorOnChainInfo,
    client: ActorID,
    provider: ActorID,
    term_end: ChainEpoch,
    deal: &ActivatedDeal,
    term_min: ChainEpoch,
) -> FILPlusClaim {
    FILPlusClaim {
        provider,
        client,
        data: make_piece_cid(format!("piece for claim {}", claim_id).as_bytes()),
        size: deal.size,
        term_min,
        term_max: term_end - sector.activation,
        term_start: sector.activation,
        sector: sector.sector_number,
    }
}

#[test]
fn dropping_a_claim_in_the_dispute_window_makes_the_post_undisputable() {
    let (mut h, rt) = setup();
    let verified_deals = vec![
        test_activated_deal(h.sector_size as u64 / 2, 1),
        test_activated_deal(h.sector_size as u64 / 2, 2),
    ];
    let sector = commit_sector_verified_deals(&verified_deals, &mut h, &rt);
    let sno = sector.sector_number;
    let old_pwr = power_for_sector(h.sector_size, &sector);

    // Prove the sector once per proving period (optimistically accepted PoSts) until it is in the
    // final 30 days of its life, where claims may be dropped.
    let drop_from = sector.expiration - rt.policy().end_of_life_claim_drop_period;
    let mut periods = 0;
    while *rt.epoch.borrow() < drop_from {
        h.advance_and_submit_posts(&rt, std::slice::from_ref(&sector));
        periods += 1;
    }
    let now = *rt.epoch.borrow();
    println!("proved {} proving periods; now {} sector expires {}", periods, now, sector.expiration);
    assert!(now < sector.expiration);
    h.check_state(&rt);

    let st: State = h.get_state(&rt);
    let (dlidx, pidx) = st.find_sector(rt.store(), sno).unwrap();
    // Deadline info of the challenge window that just closed; its PoSt is in the snapshot.
    let cur = h.current_deadline(&rt);
    let mut pp_start = cur.period_start;
    if cur.index < dlidx {
        pp_start -= rt.policy.wpost_proving_period;
    }
    let target_dlinfo = new_deadline_info(&rt.policy, pp_start, dlidx, now);
    assert!(target_dlinfo.has_elapsed());

    let saved_state: State = h.get_state(&rt);

    // Control: right now the PoSt can be disputed.
    {
        let expected_fee = pledge_penalty_for_invalid_windowpost(
            &h.epoch_reward_smooth,
            &h.epoch_qa_power_smooth,
            &old_pwr.qa,
        );
        let expected = PoStDisputeResult {
            expected_power_delta: Some(-old_pwr.clone()),
            expected_penalty: Some(expected_fee),
            expected_reward: Some(BASE_REWARD_FOR_DISPUTED_WINDOW_POST.clone()),
            expected_pledge_delta: None,
        };
        h.dispute_window_post(&rt, &target_dlinfo, 0, &[sector.clone()], Some(expected));
        println!("control: dispute without a preceding extension succeeds");
        rt.replace_state(&saved_state);
        rt.reset();
    }

    // The miner extends the sector, dropping claim 500, to an expiration epoch shared with no other
    // sector of the partition.
    let new_expiration = sector.expiration + 42 * rt.policy().wpost_proving_period;
    let client = Address::new_id(3000).id().unwrap();
    let provider = h.receiver.id().unwrap();
    let term_min = rt.policy.minimum_verified_allocation_term;
    let claim0 =
        make_claim(400, &sector, client, provider, new_expiration, &verified_deals[0], term_min);
    let claim1 =
        make_claim(500, &sector, client, provider, sector.expiration, &verified_deals[1], term_min);
    let mut claims = HashMap::new();
    claims.insert(400, Ok(claim0));
    claims.insert(500, Ok(claim1));
    let params = ExtendSectorExpiration2Params {
        extensions: vec![ExpirationExtension2 {
            deadline: dlidx,
            partition: pidx,
            sectors: BitField::new(),
            new_expiration,
            sectors_with_claims: vec![SectorClaim {
                sector_number: sno,
                maintain_claims: vec![400],
                drop_claims: vec![500],
            }],
        }],
    };
    h.extend_sectors2(&rt, params, claims).unwrap();
    let new_sector = h.get_sector(&rt, sno);
    let new_pwr = power_for_sector(h.sector_size, &new_sector);
    println!("sector power {:?} -> {:?}", old_pwr, new_pwr);
    assert!(new_pwr.qa < old_pwr.qa);
    h.check_state(&rt);

    // Now nobody can dispute the (invalid) PoSt any more.
    rt.set_caller(*ACCOUNT_ACTOR_CODE_ID, h.worker);
    rt.expect_validate_caller_any();
    h.expect_query_network_info(&rt);
    let challenge_rand = TEST_RANDOMNESS_ARRAY_FROM_ONE;
    rt.expect_get_randomness_from_beacon(
        DomainSeparationTag::WindowedPoStChallengeSeed,
        target_dlinfo.challenge,
        RawBytes::serialize(h.receiver).unwrap().to_vec(),
        challenge_rand,
    );
    // The proof is checked against the snapshot sector infos and is INVALID.
    rt.expect_verify_post(
        WindowPoStVerifyInfo {
            randomness: Randomness(challenge_rand.into()),
            proofs: make_post_proofs(h.window_post_proof_type),
            challenged_sectors: vec![SectorInfo {
                proof: sector.seal_proof,
                sector_number: sno,
                sealed_cid: sector.sealed_cid,
            }],
            prover: h.receiver.id().unwrap(),
        },
        ExitCode::USR_ILLEGAL_ARGUMENT,
    );
    let res = rt.call::<Actor>(
        Method::DisputeWindowedPoSt as u64,
        IpldBlock::serialize_cbor(&DisputeWindowedPoStParams { deadline: dlidx, post_index: 0 })
            .unwrap(),
    );
    println!("dispute after the extension: {:?}", res.as_ref().err().map(|e| e.msg().to_string()));
    expect_abort_contains_message(ExitCode::USR_ILLEGAL_STATE, "negative", res);
    rt.reset();
}
