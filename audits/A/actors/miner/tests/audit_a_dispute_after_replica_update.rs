// Audit A, finding 2: DisputeWindowedPoSt records the faults of the disputed partitions with the
// sector infos of the deadline's *sectors snapshot* (taken when the challenge window closed), not
// with the current sector infos. A sector whose power changed after the snapshot (here:
// ProveReplicaUpdates3 adding verified data inside the dispute window; the deadline is mutable
// again as soon as its challenge window has closed) is marked faulty with its OLD power: only the
// old power is removed from the power actor's claim, and the partition / deadline / expiration
// queue power memos stop matching the sectors.
use fil_actor_miner::{
    BASE_REWARD_FOR_DISPUTED_WINDOW_POST, PowerPair, SectorOnChainInfo, State, new_deadline_info,
    pledge_penalty_for_invalid_windowpost, power_for_sector,
};
use fil_actors_runtime::EPOCHS_IN_DAY;
use fil_actors_runtime::runtime::{Runtime, RuntimePolicy};
use fil_actors_runtime::test_utils::MockRuntime;
use fvm_shared::bigint::BigInt;
use fvm_shared::clock::ChainEpoch;
use fvm_shared::error::ExitCode;
use fvm_shared::sector::SectorNumber;
use fvm_shared::ActorID;

mod util;
use util::*;

const CLIENT_ID: ActorID = 1000;
const DEFAULT_SECTOR_EXPIRATION_DAYS: ChainEpoch = 220;
const FIRST_SECTOR_NUMBER: SectorNumber = 100;

fn setup_empty_sectors(count: usize) -> (ActorHarness, MockRuntime, Vec<SectorOnChainInfo>) {
    let h = ActorHarness::new_with_options(HarnessOptions::default());
    let rt = h.new_runtime();
    rt.set_balance(BIG_BALANCE.clone());
    h.construct_and_verify(&rt);
    let sector_expiry = *rt.epoch.borrow() + DEFAULT_SECTOR_EXPIRATION_DAYS * EPOCHS_IN_DAY;
    // Pre-commit, prove, submit the first (optimistically accepted) Window PoSt and run the cron of
    // that deadline: on return we are in the first epoch after the sectors' challenge window.
    let sectors = onboard_empty_sectors(&rt, &h, sector_expiry, FIRST_SECTOR_NUMBER, count);
    (h, rt, sectors)
}

#[test]
fn dispute_after_replica_update_leaves_power_of_faulty_sector_credited() {
    let (h, rt, sectors) = setup_empty_sectors(1);
    let old_sector = sectors[0].clone();
    let sno = old_sector.sector_number;
    let old_pwr = power_for_sector(h.sector_size, &old_sector);

    let st: State = h.get_state(&rt);
    let (dlidx, pidx) = st.find_sector(rt.store(), sno).unwrap();

    // The deadline info of the challenge window that just closed (same derivation as the actor).
    let cur = h.current_deadline(&rt);
    let mut pp_start = cur.period_start;
    if cur.index < dlidx {
        pp_start -= rt.policy.wpost_proving_period;
    }
    let target_dlinfo = new_deadline_info(&rt.policy, pp_start, dlidx, *rt.epoch.borrow());
    assert!(target_dlinfo.has_elapsed());
    // The optimistic PoSt is in the snapshot and can be disputed now.
    let dl = h.get_deadline(&rt, dlidx);
    assert_ne!(dl.optimistic_post_submissions_snapshot, dl.optimistic_post_submissions);

    // 1. Inside the dispute window, snap verified data into the sector: QA power x10.
    let piece_size = h.sector_size as u64;
    let updates = vec![make_update_manifest(&st, rt.store(), sno, &[(piece_size, CLIENT_ID, 1000, 0)])];
    let (result, _, _) = h
        .prove_replica_updates3_batch(&rt, &updates, true, true, ProveReplicaUpdatesConfig::default())
        .unwrap();
    assert_eq!(vec![ExitCode::OK], result.activation_results.codes());
    let new_sector = h.get_sector(&rt, sno);
    let new_pwr = power_for_sector(h.sector_size, &new_sector);
    assert_eq!(old_pwr.raw, new_pwr.raw);
    assert_eq!(&old_pwr.qa * 10, new_pwr.qa);
    h.check_state(&rt);

    // 2. The PoSt of the closed window is successfully disputed. The harness verifies that the
    //    ONLY power update sent to the power actor is -old_pwr.
    let expected_fee = pledge_penalty_for_invalid_windowpost(
        &h.epoch_reward_smooth,
        &h.epoch_qa_power_smooth,
        &old_pwr.qa,
    );
    let expected_result = PoStDisputeResult {
        expected_power_delta: Some(-old_pwr.clone()),
        expected_penalty: Some(expected_fee),
        expected_reward: Some(BASE_REWARD_FOR_DISPUTED_WINDOW_POST.clone()),
        expected_pledge_delta: None,
    };
    h.dispute_window_post(&rt, &target_dlinfo, 0, &[old_sector.clone()], Some(expected_result));

    // 3. The sector is faulty now, but 9/10 of its QA power is still credited.
    let (deadline, partition) = h.get_deadline_and_partition(&rt, dlidx, pidx);
    assert!(partition.faults.get(sno), "sector must be faulty after the dispute");
    assert_eq!(1, partition.live_sectors().len());
    assert!(partition.active_sectors().is_empty());

    // Net power the miner has been credited by the power actor over its whole life:
    //   +old_pwr (first PoSt) + (new_pwr - old_pwr) (replica update) - old_pwr (dispute)
    let credited = PowerPair::new(&new_pwr.raw - &old_pwr.raw, &new_pwr.qa - &old_pwr.qa);
    println!("sector power before update {:?}", old_pwr);
    println!("sector power after update  {:?}", new_pwr);
    println!("power still credited to the miner although its only sector is faulty: {:?}", credited);
    println!(
        "partition: live {:?} faulty {:?} => 'active' {:?} with no active sector",
        partition.live_power,
        partition.faulty_power,
        partition.active_power()
    );
    println!("deadline: live {:?} faulty {:?}", deadline.live_power, deadline.faulty_power);
    assert_eq!(BigInt::from(0), credited.raw);
    assert_eq!(&old_pwr.qa * 9, credited.qa);
    // Partition and deadline memos recorded the OLD power as faulty power.
    assert_eq!(new_pwr, partition.live_power);
    assert_eq!(old_pwr, partition.faulty_power);
    assert_eq!(old_pwr, deadline.faulty_power);
    assert_eq!(&old_pwr.qa * 9, partition.active_power().qa);

    // The actor's own state invariants are broken.
    let (_, acc) = fil_actor_miner::testing::check_state_invariants(
        rt.policy(),
        &rt.get_state::<State>(),
        rt.store(),
        &rt.get_balance(),
    );
    println!("state invariant violations after the dispute:\n  {}", acc.messages().join("\n  "));
    assert!(!acc.is_empty(), "expected broken state invariants");

}
