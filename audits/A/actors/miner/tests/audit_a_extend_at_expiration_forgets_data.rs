// Audit A, finding 4 (outside the listed properties): extending a sector at exactly its expiration
// epoch scales the unverified deal weight by (expiration - curr_epoch) == 0. A sector holding only
// unverified data then looks empty to validate_replica_updates and can be snapped a second time.
use fil_actor_miner::{
    ExpirationExtension2, ExtendSectorExpiration2Params, SectorOnChainInfo, State,
};
use fil_actors_runtime::runtime::{Runtime, RuntimePolicy};
use fil_actors_runtime::test_utils::MockRuntime;
use fvm_shared::bigint::BigInt;
use fvm_shared::error::ExitCode;
use fvm_shared::sector::RegisteredSealProof;
use num_traits::Zero;
use std::collections::HashMap;

mod util;
use util::*;

fn setup() -> (ActorHarness, MockRuntime) {
    let mut h = ActorHarness::new(100);
    h.set_proof_type(RegisteredSealProof::StackedDRG512MiBV1);
    let rt = h.new_runtime();
    rt.balance.replace(BIG_BALANCE.clone());
    rt.set_epoch(1);
    (h, rt)
}

#[test]
fn extension_at_expiration_epoch_zeroes_deal_weight_and_allows_second_snap() {
    let (mut h, rt) = setup();
    h.construct_and_verify(&rt);

    // A sector full of UNVERIFIED deal data (allocation id 0 == no allocation).
    let deal = test_activated_deal(h.sector_size as u64, 0);
    let mut pcc = ProveCommitConfig::empty();
    pcc.add_activated_deals(h.next_sector_no, vec![deal]);
    let sector: SectorOnChainInfo =
        h.commit_and_prove_sectors_with_cfgs(&rt, 1, 220, vec![vec![0]], true, pcc)[0].clone();
    assert!(sector.deal_weight > BigInt::zero());
    h.advance_and_submit_posts(&rt, std::slice::from_ref(&sector));

    let st: State = h.get_state(&rt);
    let (dlidx, pidx) = st.find_sector(rt.store(), sector.sector_number).unwrap();

    // Extend at exactly the expiration epoch.
    rt.set_epoch(sector.expiration);
    let new_expiration = sector.expiration + 42 * rt.policy().wpost_proving_period;
    let params = ExtendSectorExpiration2Params {
        extensions: vec![ExpirationExtension2 {
            deadline: dlidx,
            partition: pidx,
            sectors: bitfield_from_slice(&[sector.sector_number]),
            sectors_with_claims: vec![],
            new_expiration,
        }],
    };
    h.extend_sectors2(&rt, params, HashMap::new()).unwrap();
    let extended = h.get_sector(&rt, sector.sector_number);
    println!(
        "deal weight before {} after {}, expiration {} -> {}",
        sector.deal_weight, extended.deal_weight, sector.expiration, extended.expiration
    );
    assert_eq!(new_expiration, extended.expiration);
    assert!(extended.deal_weight.is_zero(), "the sector's data has been forgotten");

    // The sector, which still holds the first deal's data, is accepted for another replica update.
    let st: State = h.get_state(&rt);
    let updates = vec![make_update_manifest(
        &st,
        rt.store(),
        sector.sector_number,
        &[(h.sector_size as u64, 0, 0, 0)],
    )];
    let res = h.prove_replica_updates3_batch(
        &rt,
        &updates,
        true,
        true,
        ProveReplicaUpdatesConfig::default(),
    );
    match res {
        Ok((ret, _, _)) => {
            println!("second replica update: {:?}", ret.activation_results.codes());
            assert_eq!(vec![ExitCode::OK], ret.activation_results.codes());
        }
        Err(e) => panic!("replica update rejected (deadline immutable at this epoch?): {}", e.msg()),
    }
}
