// Audit A, finding 1: ExtendSectorExpiration2 accepts the same sector twice inside the
// `sectors_with_claims` list of ONE declaration. Each entry lists the same (long-term) claim, the
// claim sizes add up to the sector's verified space, and the second (short-term) claim of the
// sector is never looked at. The sector is extended past that claim's maximum term while keeping
// its verified weight / QA power.
use fil_actor_market::ActivatedDeal;
use fil_actor_miner::ext::verifreg::Claim as FILPlusClaim;
use fil_actor_miner::{
    ExpirationExtension2, ExtendSectorExpiration2Params, SectorClaim, SectorOnChainInfo, State,
    qa_power_for_sector,
};
use fil_actors_runtime::runtime::{Runtime, RuntimePolicy};
use fil_actors_runtime::test_utils::{MockRuntime, expect_abort_contains_message, make_piece_cid};
use fvm_ipld_bitfield::BitField;
use fvm_shared::ActorID;
use fvm_shared::address::Address;
use fvm_shared::clock::ChainEpoch;
use fvm_shared::deal::DealID;
use fvm_shared::error::ExitCode;
use fvm_shared::sector::RegisteredSealProof;
use std::collections::HashMap;

mod util;
use util::*;

const DEFAULT_SECTOR_EXPIRATION: ChainEpoch = 220;

fn setup() -> (ActorHarness, MockRuntime) {
    let mut h = ActorHarness::new(100);
    h.set_proof_type(RegisteredSealProof::StackedDRG512MiBV1);
    let rt = h.new_runtime();
    rt.balance.replace(BIG_BALANCE.clone());
    rt.set_epoch(1);
    (h, rt)
}

fn commit_sector_verified_deals(
    verified_deals: &[ActivatedDeal],
    h: &mut ActorHarness,
    rt: &MockRuntime,
) -> SectorOnChainInfo {
    h.construct_and_verify(rt);
    let mut pcc = ProveCommitConfig::empty();
    pcc.add_activated_deals(h.next_sector_no, verified_deals.to_owned());
    let deal_ids: Vec<DealID> = (0..verified_deals.len() as u64).collect();
    h.commit_and_prove_sectors_with_cfgs(
        rt,
        1,
        DEFAULT_SECTOR_EXPIRATION as u64,
        vec![deal_ids],
        true,
        pcc,
    )[0]
    .clone()
}

fn make_claim(
    claim_id: u64,
    sector: &SectorOnChainInfo,
    client: ActorID,
    provider: ActorID,
    term_end: ChainEpoch,
    deal: &ActivatedDeal,
    term_min: ChainEpoch,
) -> FILPlusClaim {
    FILPlusClaim {
        provider,
        client,
        data: make_piece_cid(format!("piece for claim {}", claim_id).as_bytes()),
        size: deal.size,
        term_min,
        term_max: term_end - sector.activation,
        term_start: sector.activation,
        sector: sector.sector_number,
    }
}

#[test]
fn same_sector_twice_in_one_declaration_escapes_claim_term_max() {
    let (mut h, rt) = setup();
    let verified_deals = vec![
        test_activated_deal(h.sector_size as u64 / 2, 1),
        test_activated_deal(h.sector_size as u64 / 2, 2),
    ];
    let old_sector = commit_sector_verified_deals(&verified_deals, &mut h, &rt);
    h.advance_and_submit_posts(&rt, std::slice::from_ref(&old_sector));

    let state: State = rt.get_state();
    let (deadline_index, partition_index) =
        state.find_sector(rt.store(), old_sector.sector_number).unwrap();

    let extension = 42 * rt.policy().wpost_proving_period;
    let new_expiration = old_sector.expiration + extension;

    let client = Address::new_id(3000).id().unwrap();
    let provider = h.receiver.id().unwrap();
    // Claim 400 may live until the new expiration.
    let long_claim = make_claim(
        400,
        &old_sector,
        client,
        provider,
        new_expiration,
        &verified_deals[0],
        rt.policy.minimum_verified_allocation_term,
    );
    // Claim 500 ends with the sector's current expiration: the sector must NOT be extended while
    // keeping this claim.
    let short_claim = make_claim(
        500,
        &old_sector,
        client,
        provider,
        old_sector.expiration,
        &verified_deals[1],
        rt.policy.minimum_verified_allocation_term,
    );
    let short_claim_end = short_claim.term_start + short_claim.term_max;
    assert!(new_expiration > short_claim_end);

    // Control: the honest declaration is rejected, and dropping claim 500 is not allowed this far
    // from the end of the sector's life.
    {
        let mut claims = HashMap::new();
        claims.insert(400, Ok(long_claim.clone()));
        claims.insert(500, Ok(short_claim.clone()));
        let params = ExtendSectorExpiration2Params {
            extensions: vec![ExpirationExtension2 {
                deadline: deadline_index,
                partition: partition_index,
                sectors: BitField::new(),
                new_expiration,
                sectors_with_claims: vec![SectorClaim {
                    sector_number: old_sector.sector_number,
                    maintain_claims: vec![400, 500],
                    drop_claims: vec![],
                }],
            }],
        };
        let res = h.extend_sectors2(&rt, params, claims);
        expect_abort_contains_message(ExitCode::USR_FORBIDDEN, "claim only allows extension", res);
        rt.replace_state(&state);
        rt.reset();
    }

    // Attack: one declaration, the same sector twice, claim 400 listed once per entry.
    let mut claims = HashMap::new();
    claims.insert(400, Ok(long_claim));
    let params = ExtendSectorExpiration2Params {
        extensions: vec![ExpirationExtension2 {
            deadline: deadline_index,
            partition: partition_index,
            sectors: BitField::new(),
            new_expiration,
            sectors_with_claims: vec![
                SectorClaim {
                    sector_number: old_sector.sector_number,
                    maintain_claims: vec![400],
                    drop_claims: vec![],
                },
                SectorClaim {
                    sector_number: old_sector.sector_number,
                    maintain_claims: vec![400],
                    drop_claims: vec![],
                },
            ],
        }],
    };
    let res = h.extend_sectors2(&rt, params, claims);
    println!("extend result: {:?}", res.as_ref().map(|_| ()));
    res.expect("BUG REPRODUCED IF THIS SUCCEEDS; a fixed actor rejects the message");

    let new_sector = h.get_sector(&rt, old_sector.sector_number);
    let space = |s: &SectorOnChainInfo| &s.verified_deal_weight / (s.expiration - s.power_base_epoch);
    println!(
        "sector {}: expiration {} -> {}, claim 500 ends at {}, verified space {} -> {}, qa power {} -> {}",
        new_sector.sector_number,
        old_sector.expiration,
        new_sector.expiration,
        short_claim_end,
        space(&old_sector),
        space(&new_sector),
        qa_power_for_sector(h.sector_size, &old_sector),
        qa_power_for_sector(h.sector_size, &new_sector),
    );
    // The sector now outlives claim 500 ...
    assert_eq!(new_expiration, new_sector.expiration);
    assert!(new_sector.expiration > short_claim_end);
    // ... and still carries the full verified space (both claims) and the full QA power.
    assert_eq!(space(&old_sector), space(&new_sector));
    assert_eq!(
        qa_power_for_sector(h.sector_size, &old_sector),
        qa_power_for_sector(h.sector_size, &new_sector)
    );
    h.check_state(&rt);
}
