// Audit A, finding 3 (abort only): a sector may be "extended" at the very epoch it expires
// (validate_extended_expiration only rejects `sector.expiration < curr_epoch`) to a new expiration
// equal to the old one. The new power base epoch is the current epoch, the new duration is zero and
// quality_for_weight divides by sector_space_time == 0: the actor panics instead of returning an
// error. (The same zero duration is reached by ProveReplicaUpdates3 at curr_epoch ==
// sector.expiration, which has no expiration check at all.)
use fil_actor_miner::{Actor, ExpirationExtension2, ExtendSectorExpiration2Params, Method, State};
use fil_actors_runtime::runtime::Runtime;
use fil_actors_runtime::test_utils::{ACCOUNT_ACTOR_CODE_ID, MockRuntime};
use fvm_ipld_encoding::ipld_block::IpldBlock;
use fvm_shared::sector::RegisteredSealProof;

mod util;
use util::*;

fn setup() -> (ActorHarness, MockRuntime) {
    let mut h = ActorHarness::new(100);
    h.set_proof_type(RegisteredSealProof::StackedDRG512MiBV1);
    let rt = h.new_runtime();
    rt.balance.replace(BIG_BALANCE.clone());
    rt.set_epoch(1);
    (h, rt)
}

#[test]
#[should_panic(expected = "divide by zero")]
fn extension_at_expiration_epoch_to_same_expiration_panics() {
    let (mut h, rt) = setup();
    h.construct_and_verify(&rt);
    let sector = h.commit_and_prove_sectors(&rt, 1, 220, Vec::new(), true)[0].clone();
    h.advance_and_submit_posts(&rt, std::slice::from_ref(&sector));

    let st: State = h.get_state(&rt);
    let (dlidx, pidx) = st.find_sector(rt.store(), sector.sector_number).unwrap();

    // The sector's declared expiration epoch; its deadline only removes it at the following
    // deadline end.
    rt.set_epoch(sector.expiration);
    let params = ExtendSectorExpiration2Params {
        extensions: vec![ExpirationExtension2 {
            deadline: dlidx,
            partition: pidx,
            sectors: bitfield_from_slice(&[sector.sector_number]),
            sectors_with_claims: vec![],
            new_expiration: sector.expiration,
        }],
    };
    rt.set_caller(*ACCOUNT_ACTOR_CODE_ID, h.worker);
    rt.expect_validate_caller_addr(h.caller_addrs());
    let res = rt.call::<Actor>(
        Method::ExtendSectorExpiration2 as u64,
        IpldBlock::serialize_cbor(&params).unwrap(),
    );
    // Not reached: the call above panics in num-bigint ("attempt to divide by zero").
    println!("unexpected result {:?}", res);
}
