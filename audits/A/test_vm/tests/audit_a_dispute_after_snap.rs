// Audit A, finding 2 (end-to-end, real power / verifreg / market actors in the TestVM).
//
// DisputeWindowedPoSt marks the disputed sectors faulty using the sector infos of the deadline's
// sectors snapshot. A sector that was snapped (ProveReplicaUpdates3 with a verified piece, QA power
// x10) between the end of its challenge window and the dispute is declared faulty with its OLD
// power: the power actor keeps 9/10 of the sector's QA power credited to the miner although the
// sector is faulty, the miner's own power memos no longer match its sectors, and the sector can
// be neither recovered nor terminated any more.
use fil_actor_market::Method as MarketMethod;
use fil_actor_miner::{
    DeclareFaultsRecoveredParams, DisputeWindowedPoStParams, Method as MinerMethod, PoStPartition,
    PowerPair, ProveCommitSectors3Params, ProveReplicaUpdates3Params, SectorActivationManifest, ProveReplicaUpdates3Return, RecoveryDeclaration,
    SectorUpdateManifest, SubmitWindowedPoStParams, TerminateSectorsParams,
    TerminationDeclaration, power_for_sector,
};
use fil_actors_integration_tests::tests::create_sector;
use fil_actors_integration_tests::util::{
    advance_by_deadline_to_epoch, cron_tick,
    declare_recovery, miner_balance, precommit_sectors_v2, sector_deadline, submit_windowed_post,
    advance_by_deadline_to_index, advance_to_proving_deadline, assert_invariants,
    check_invariants, check_sector_faulty, create_accounts, create_miner, deadline_state,
    make_bitfield, make_piece_manifests_from_deal_ids, market_publish_deal, miner_power,
    sector_info, submit_invalid_post, verifreg_add_client, verifreg_add_verifier,
};
use fil_actors_runtime::STORAGE_MARKET_ACTOR_ADDR;
use fil_actors_runtime::runtime::Policy;
use fil_actors_runtime::test_blockstores::MemoryBlockstore;
use fil_actors_runtime::test_utils::make_sealed_cid;
use fvm_ipld_encoding::RawBytes;
use fvm_shared::econ::TokenAmount;
use fvm_shared::piece::PaddedPieceSize;
use fvm_shared::randomness::Randomness;
use fvm_shared::sector::{PoStProof, RegisteredPoStProof, RegisteredSealProof, StoragePower};
use num_traits::Zero;
use test_vm::{TEST_VM_RAND_ARRAY, TestVM};
use vm_api::VM;
use vm_api::util::{DynBlockstore, apply_ok};

fn violations(v: &dyn VM, policy: &Policy) -> Vec<String> {
    check_invariants(v, policy, None)
        .unwrap()
        .messages()
        .into_iter()
        .filter(|m| !m.contains("term start"))
        .collect()
}

#[test]
fn dispute_after_snap_leaves_power_of_faulty_sector_credited() {
    let store = MemoryBlockstore::new();
    let vm = TestVM::new_with_singletons(store);
    let v: &dyn VM = &vm;
    let policy = Policy::default();

    let addrs = create_accounts(v, 3, &TokenAmount::from_whole(100_000));
    let (worker, owner, client, verifier) = (addrs[0], addrs[0], addrs[1], addrs[2]);
    let seal_proof = RegisteredSealProof::StackedDRG32GiBV1P1;
    let sector_size = seal_proof.sector_size().unwrap();
    let (maddr, robust) = create_miner(
        v,
        &owner,
        &worker,
        seal_proof.registered_window_post_proof().unwrap(),
        &TokenAmount::from_whole(10_000),
    );

    let datacap = StoragePower::from(32_u128 << 30);
    verifreg_add_verifier(v, &verifier, datacap.clone());
    verifreg_add_client(v, &verifier, &client, datacap);

    v.set_epoch(200);

    // One committed-capacity sector, proven and active.
    let sector_number = 100;
    let (d_idx, p_idx) = create_sector(v, worker, maddr, sector_number, seal_proof);
    let old_sector = sector_info(v, &maddr, sector_number);
    let old_pwr = power_for_sector(sector_size, &old_sector);
    assert_eq!(old_pwr, miner_power(v, &maddr));

    // The miner submits an INVALID Window PoSt for the sector's next challenge window; it is
    // accepted optimistically. Move two deadlines on: the window is closed, the dispute window
    // is open, and the deadline is mutable again.
    let (deadline_info, _) = advance_to_proving_deadline(v, &maddr, sector_number);
    submit_invalid_post(v, &worker, &maddr, deadline_info, p_idx);
    advance_by_deadline_to_index(v, &maddr, d_idx + 2 % policy.wpost_period_deadlines);
    assert_invariants(v, &policy, None);

    // Publish a verified deal filling the sector and snap it into the sector.
    let collateral = TokenAmount::from_whole(3);
    apply_ok(v, &client, &STORAGE_MARKET_ACTOR_ADDR, &collateral, MarketMethod::AddBalance as u64, Some(client));
    apply_ok(v, &worker, &STORAGE_MARKET_ACTOR_ADDR, &collateral, MarketMethod::AddBalance as u64, Some(maddr));
    let deal_start = v.epoch() + policy.pre_commit_challenge_delay + 1;
    let deal_lifetime =
        old_sector.expiration - v.epoch() - policy.market_default_allocation_term_buffer;
    let deals = market_publish_deal(
        v,
        &worker,
        &client,
        &maddr,
        "audit-a".to_string(),
        PaddedPieceSize(32 << 30),
        true,
        deal_start,
        deal_lifetime,
    );
    let deal_ids = deals.ids.clone();
    let manifests = vec![SectorUpdateManifest {
        sector: sector_number,
        deadline: d_idx,
        partition: p_idx,
        new_sealed_cid: make_sealed_cid(b"replica1"),
        pieces: make_piece_manifests_from_deal_ids(v, deal_ids),
    }];
    let params = ProveReplicaUpdates3Params {
        sector_updates: manifests,
        sector_proofs: vec![RawBytes::new(vec![1, 2, 3, 4])],
        aggregate_proof: RawBytes::default(),
        update_proofs_type: seal_proof.registered_update_proof().unwrap(),
        aggregate_proof_type: None,
        require_activation_success: true,
        require_notification_success: true,
    };
    let ret: ProveReplicaUpdates3Return = apply_ok(
        v,
        &worker,
        &robust,
        &TokenAmount::zero(),
        MinerMethod::ProveReplicaUpdates3 as u64,
        Some(params),
    )
    .deserialize()
    .unwrap();
    assert!(ret.activation_results.all_ok());

    let new_sector = sector_info(v, &maddr, sector_number);
    let new_pwr = power_for_sector(sector_size, &new_sector);
    assert_eq!(&old_pwr.qa * 10, new_pwr.qa);
    assert_eq!(new_pwr, miner_power(v, &maddr));
    // All state invariants hold (ignoring the checker's "claim term start after now" artefact: it
    // treats epoch-1 as now and the claim was created in this very epoch).
    assert_eq!(Vec::<String>::new(), violations(v, &policy));
    println!("power claim after snap:    {:?}", miner_power(v, &maddr));

    // Anyone disputes the invalid PoSt: succeeds, all sectors of the partition become faulty.
    apply_ok(
        v,
        &client,
        &maddr,
        &TokenAmount::zero(),
        MinerMethod::DisputeWindowedPoSt as u64,
        Some(DisputeWindowedPoStParams { deadline: d_idx, post_index: 0 }),
    );
    assert!(check_sector_faulty(v, &maddr, d_idx, p_idx, sector_number));

    // C02: the miner's only sector is faulty, yet the power actor still credits QA power.
    let claim = miner_power(v, &maddr);
    println!("power claim after dispute: {:?}   (the miner's only sector is faulty)", claim);
    assert_eq!(PowerPair::new(StoragePower::zero(), &old_pwr.qa * 9), claim);

    // C04: the miner's memos do not match its sectors.
    let dl = deadline_state(v, &maddr, d_idx);
    let part = dl.load_partition(&DynBlockstore::wrap(v.blockstore()), p_idx).unwrap();
    println!("partition live {:?} faulty {:?}", part.live_power, part.faulty_power);
    assert_eq!(new_pwr, part.live_power);
    assert_eq!(old_pwr, part.faulty_power);
    let broken = violations(v, &policy);
    println!("state invariant violations:\n  {}", broken.join("\n  "));
    assert!(!broken.is_empty());

    // The sector cannot be terminated ...
    let res = v
        .execute_message(
            &worker,
            &maddr,
            &TokenAmount::zero(),
            MinerMethod::TerminateSectors as u64,
            Some(
                fvm_ipld_encoding::ipld_block::IpldBlock::serialize_cbor(&TerminateSectorsParams {
                    terminations: vec![TerminationDeclaration {
                        deadline: d_idx,
                        partition: p_idx,
                        sectors: make_bitfield(&[sector_number]),
                    }],
                })
                .unwrap()
                .unwrap(),
            ),
        )
        .unwrap();
    println!("TerminateSectors on the disputed sector: exit {} {}", res.code, res.message);
    assert!(!res.code.is_success());

    // ... and cannot be recovered: the declaration is accepted, the proving PoSt aborts.
    apply_ok(
        v,
        &worker,
        &maddr,
        &TokenAmount::zero(),
        MinerMethod::DeclareFaultsRecovered as u64,
        Some(DeclareFaultsRecoveredParams {
            recoveries: vec![RecoveryDeclaration {
                deadline: d_idx,
                partition: p_idx,
                sectors: make_bitfield(&[sector_number]),
            }],
        }),
    );
    let (dline_info, _) = advance_to_proving_deadline(v, &maddr, sector_number);
    let res = v
        .execute_message(
            &worker,
            &maddr,
            &TokenAmount::zero(),
            MinerMethod::SubmitWindowedPoSt as u64,
            Some(
                fvm_ipld_encoding::ipld_block::IpldBlock::serialize_cbor(&SubmitWindowedPoStParams {
                    deadline: dline_info.index,
                    partitions: vec![PoStPartition { index: p_idx, skipped: make_bitfield(&[]) }],
                    proofs: vec![PoStProof {
                        post_proof: RegisteredPoStProof::StackedDRGWindow32GiBV1P1,
                        proof_bytes: vec![],
                    }],
                    chain_commit_epoch: dline_info.challenge,
                    chain_commit_rand: Randomness(TEST_VM_RAND_ARRAY.into()),
                })
                .unwrap()
                .unwrap(),
            ),
        )
        .unwrap();
    println!("SubmitWindowedPoSt recovering the sector: exit {} {}", res.code, res.message);
    assert!(!res.code.is_success());
}

// Same defect, long-term consequence: if the partition holds another healthy sector that the miner
// keeps proving, the residual QA power of the snapped sector is never removed. It is still
// credited after the disputed sector has been terminated for staying faulty for 42 days and its
// pledge has been released.
#[test]
fn phantom_power_survives_termination_of_the_disputed_sector() {
    let store = MemoryBlockstore::new();
    let vm = TestVM::new_with_singletons(store);
    let v: &dyn VM = &vm;
    let policy = Policy::default();

    let addrs = create_accounts(v, 3, &TokenAmount::from_whole(100_000));
    let (worker, owner, client, verifier) = (addrs[0], addrs[0], addrs[1], addrs[2]);
    let seal_proof = RegisteredSealProof::StackedDRG32GiBV1P1;
    let sector_size = seal_proof.sector_size().unwrap();
    let (maddr, robust) = create_miner(
        v,
        &owner,
        &worker,
        seal_proof.registered_window_post_proof().unwrap(),
        &TokenAmount::from_whole(10_000),
    );
    let datacap = StoragePower::from(32_u128 << 30);
    verifreg_add_verifier(v, &verifier, datacap.clone());
    verifreg_add_client(v, &verifier, &client, datacap);
    v.set_epoch(200);

    // Two committed-capacity sectors (100: will be snapped, 101: stays plain), same partition.
    let (snapped, plain) = (100u64, 101u64);
    let exp = v.epoch() + policy.max_sector_expiration_extension;
    precommit_sectors_v2(v, 2, vec![], &worker, &maddr, seal_proof, snapped, true, Some(exp));
    let prove_time = v.epoch() + policy.pre_commit_challenge_delay + 1;
    advance_by_deadline_to_epoch(v, &maddr, prove_time);
    apply_ok(
        v,
        &worker,
        &maddr,
        &TokenAmount::zero(),
        MinerMethod::ProveCommitSectors3 as u64,
        Some(ProveCommitSectors3Params {
            sector_activations: vec![
                SectorActivationManifest { sector_number: snapped, pieces: vec![] },
                SectorActivationManifest { sector_number: plain, pieces: vec![] },
            ],
            sector_proofs: vec![vec![].into(), vec![].into()],
            aggregate_proof: RawBytes::default(),
            aggregate_proof_type: None,
            require_activation_success: true,
            require_notification_success: true,
        }),
    );
    cron_tick(v);
    let (dline_info, p_idx) = advance_to_proving_deadline(v, &maddr, snapped);
    let d_idx = dline_info.index;
    assert_eq!((d_idx, p_idx), sector_deadline(v, &maddr, plain));
    submit_windowed_post(v, &worker, &maddr, dline_info, p_idx, None);
    advance_by_deadline_to_index(v, &maddr, d_idx + 1 % policy.wpost_period_deadlines);

    let old_sector = sector_info(v, &maddr, snapped);
    let old_pwr = power_for_sector(sector_size, &old_sector);
    let plain_pwr = power_for_sector(sector_size, &sector_info(v, &maddr, plain));
    assert_eq!(&old_pwr + &plain_pwr, miner_power(v, &maddr));

    // Invalid (optimistically accepted) PoSt in the next proving period, then snap + dispute.
    let (deadline_info, _) = advance_to_proving_deadline(v, &maddr, snapped);
    submit_invalid_post(v, &worker, &maddr, deadline_info, p_idx);
    advance_by_deadline_to_index(v, &maddr, d_idx + 2 % policy.wpost_period_deadlines);

    let collateral = TokenAmount::from_whole(3);
    apply_ok(v, &client, &STORAGE_MARKET_ACTOR_ADDR, &collateral, MarketMethod::AddBalance as u64, Some(client));
    apply_ok(v, &worker, &STORAGE_MARKET_ACTOR_ADDR, &collateral, MarketMethod::AddBalance as u64, Some(maddr));
    let deal_start = v.epoch() + policy.pre_commit_challenge_delay + 1;
    let deal_lifetime =
        old_sector.expiration - v.epoch() - policy.market_default_allocation_term_buffer;
    let deals = market_publish_deal(
        v,
        &worker,
        &client,
        &maddr,
        "audit-a".to_string(),
        PaddedPieceSize(32 << 30),
        true,
        deal_start,
        deal_lifetime,
    );
    let params = ProveReplicaUpdates3Params {
        sector_updates: vec![SectorUpdateManifest {
            sector: snapped,
            deadline: d_idx,
            partition: p_idx,
            new_sealed_cid: make_sealed_cid(b"replica1"),
            pieces: make_piece_manifests_from_deal_ids(v, deals.ids.clone()),
        }],
        sector_proofs: vec![RawBytes::new(vec![1, 2, 3, 4])],
        aggregate_proof: RawBytes::default(),
        update_proofs_type: seal_proof.registered_update_proof().unwrap(),
        aggregate_proof_type: None,
        require_activation_success: true,
        require_notification_success: true,
    };
    let ret: ProveReplicaUpdates3Return = apply_ok(
        v,
        &worker,
        &robust,
        &TokenAmount::zero(),
        MinerMethod::ProveReplicaUpdates3 as u64,
        Some(params),
    )
    .deserialize()
    .unwrap();
    assert!(ret.activation_results.all_ok());
    let new_pwr = power_for_sector(sector_size, &sector_info(v, &maddr, snapped));
    assert_eq!(&new_pwr + &plain_pwr, miner_power(v, &maddr));
    let pledge_with_both = miner_balance(v, &maddr).initial_pledge;

    apply_ok(
        v,
        &client,
        &maddr,
        &TokenAmount::zero(),
        MinerMethod::DisputeWindowedPoSt as u64,
        Some(DisputeWindowedPoStParams { deadline: d_idx, post_index: 0 }),
    );
    let phantom = PowerPair::new(StoragePower::zero(), &old_pwr.qa * 9);
    assert_eq!(phantom, miner_power(v, &maddr));
    println!("claim after dispute (both sectors faulty):            {:?}", miner_power(v, &maddr));

    // Recover only the plain sector and keep proving it for 45 days. The snapped sector stays
    // faulty, exceeds the 42-day fault limit and is terminated by cron.
    declare_recovery(v, &worker, &maddr, d_idx, p_idx, plain);
    let until = v.epoch() + 45 * fil_actors_runtime::EPOCHS_IN_DAY;
    loop {
        let dl = advance_by_deadline_to_index(v, &maddr, d_idx);
        if dl.close > until {
            break;
        }
        submit_windowed_post(v, &worker, &maddr, dl, p_idx, None);
        advance_by_deadline_to_index(v, &maddr, d_idx + 1);
    }

    let dl = deadline_state(v, &maddr, d_idx);
    let part = dl.load_partition(&DynBlockstore::wrap(v.blockstore()), p_idx).unwrap();
    assert!(part.terminated.get(snapped), "snapped sector must have been terminated");
    assert!(part.faults.is_empty());
    assert_eq!(1, part.live_sectors().len());
    assert!(miner_balance(v, &maddr).initial_pledge < pledge_with_both);

    let claim = miner_power(v, &maddr);
    println!("claim 45 days later (snapped sector terminated, 1 live): {:?}", claim);
    println!("power of the only live sector:                          {:?}", plain_pwr);
    println!("partition live {:?} faulty {:?}", part.live_power, part.faulty_power);
    assert_eq!(&plain_pwr + &phantom, claim);
}
