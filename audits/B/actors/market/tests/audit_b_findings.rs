// Audit B: confirmed findings in the storage market actor.
// Each test exercises the real, unmodified actor code through the MockRuntime harness and
// asserts the *defective* behaviour (so the tests pass while the defect is present).

use fvm_ipld_encoding::RawBytes;
use fvm_ipld_encoding::ipld_block::IpldBlock;
use fvm_shared::METHOD_SEND;
use fvm_shared::clock::{ChainEpoch, EPOCH_UNDEFINED};
use fvm_shared::crypto::signature::Signature;
use fvm_shared::econ::TokenAmount;
use fvm_shared::error::ExitCode;
use fvm_shared::sys::SendFlags;
use num_traits::Zero;

use fil_actor_market::ext::account::{AUTHENTICATE_MESSAGE_METHOD, AuthenticateMessageParams};
use fil_actor_market::{
    Actor as MarketActor, ClientDealProposal, DealProposal, EX_DEAL_EXPIRED, Method,
    NO_ALLOCATION_ID, PublishStorageDealsParams, SectorDeals, State,
};
use fil_actors_runtime::BURNT_FUNDS_ACTOR_ADDR;
use fil_actors_runtime::network::EPOCHS_IN_DAY;
use fil_actors_runtime::runtime::Policy;
use fil_actors_runtime::test_utils::*;
use fvm_shared::sector::RegisteredSealProof;

use harness::*;

mod harness;

const START_EPOCH: ChainEpoch = 100;
const END_EPOCH: ChainEpoch = START_EPOCH + 200 * EPOCHS_IN_DAY;
const SECTOR_EXPIRY: ChainEpoch = END_EPOCH + 10;

fn pending_has(rt: &MockRuntime, proposal: &DealProposal) -> bool {
    let st: State = rt.get_state();
    let cid = fil_actor_market::deal_cid(rt, proposal).unwrap();
    st.has_pending_deal(&rt.store, &cid).unwrap()
}

// Attempts to publish `proposal` as the provider's worker and expects the whole message to be
// rejected because the only proposal in it is invalid (here: a duplicate of a pending proposal).
fn publish_single_expect_all_invalid(
    rt: &MockRuntime,
    addrs: &MinerAddresses,
    proposal: &DealProposal,
) {
    rt.set_caller(*ACCOUNT_ACTOR_CODE_ID, addrs.worker);
    rt.expect_validate_caller_any();
    expect_provider_is_control_address(rt, addrs.provider, addrs.worker, true);
    expect_query_network_info(rt);
    let buf = RawBytes::serialize(proposal.clone()).unwrap();
    rt.expect_send(
        proposal.client,
        AUTHENTICATE_MESSAGE_METHOD,
        IpldBlock::serialize_cbor(&AuthenticateMessageParams {
            signature: "does not matter".as_bytes().to_vec(),
            message: buf.to_vec(),
        })
        .unwrap(),
        TokenAmount::zero(),
        None,
        SendFlags::READ_ONLY,
        AUTHENTICATE_MESSAGE_RESPONSE.clone(),
        ExitCode::OK,
        None,
    );
    let params = PublishStorageDealsParams {
        deals: vec![ClientDealProposal {
            proposal: proposal.clone(),
            client_signature: Signature::new_bls("does not matter".as_bytes().to_vec()),
        }],
    };
    expect_abort(
        ExitCode::USR_ILLEGAL_ARGUMENT,
        rt.call::<MarketActor>(
            Method::PublishStorageDeals as u64,
            IpldBlock::serialize_cbor(&params).unwrap(),
        ),
    );
    rt.verify();
}

/// FINDING 1 (C08 unique publication / C06 / C07).
///
/// SettleDealPayments (callable by anyone) on a deal that is activated but has not yet reached
/// its start epoch removes the proposal CID from `pending_proposals`, although the proposal is
/// still before its start epoch (publication of a proposal is permitted while
/// curr_epoch <= start_epoch). The duplicate-proposal check in PublishStorageDeals consults only
/// `pending_proposals`, so the provider can then publish the *identical* client-signed proposal
/// again. One client signature ends up authorising two (or N) concurrent deals: the client's
/// escrow is locked N times and the provider is paid N * price * duration.
#[test]
fn early_settlement_allows_identical_signed_proposal_to_be_published_twice() {
    let rt = setup();
    let addrs = MinerAddresses::default();

    // Publish a deal at epoch 1.
    rt.set_epoch(1);
    let (deal_a, proposal) =
        generate_and_publish_deal(&rt, CLIENT_ADDR, &addrs, START_EPOCH, END_EPOCH);
    assert!(pending_has(&rt, &proposal));

    // The client holds additional *unlocked* escrow (e.g. intended for other deals), and the
    // provider has collateral for another deal.
    add_provider_funds(&rt, proposal.provider_collateral.clone(), &addrs);
    add_participant_funds(&rt, CLIENT_ADDR, proposal.client_balance_requirement());
    let client_before = get_balance(&rt, &CLIENT_ADDR);
    assert_eq!(proposal.client_balance_requirement(), client_before.locked);

    // Activate it at epoch 2, well before the start epoch.
    activate_deals(&rt, SECTOR_EXPIRY, addrs.provider, 2, 7, &[deal_a]);

    // Control: the identical signed proposal is (correctly) rejected as a duplicate.
    rt.set_epoch(3);
    publish_single_expect_all_invalid(&rt, &addrs, &proposal);

    // Anyone settles the deal before its start epoch. This "no-op" settles nothing ...
    rt.set_epoch(4);
    let ret = settle_deal_payments(&rt, addrs.worker, &[deal_a], &[], &[]);
    assert!(ret.results.all_ok());
    assert!(ret.settlements[0].payment.is_zero());
    assert!(!ret.settlements[0].completed);
    // ... but it silently dropped the proposal from the pending set before its start epoch,
    // and marked the deal as "updated" at an epoch before it started.
    assert!(!pending_has(&rt, &proposal), "pending proposal was expected to be (wrongly) removed");
    assert_eq!(4, get_deal_state(&rt, deal_a).last_updated_epoch);

    // The provider now re-publishes the very same client-signed proposal (same bytes, same
    // signature). It is accepted and gets a fresh deal ID.
    rt.set_epoch(5);
    rt.set_caller(*ACCOUNT_ACTOR_CODE_ID, addrs.worker);
    let ids = publish_deals(
        &rt,
        &addrs,
        std::slice::from_ref(&proposal),
        TokenAmount::zero(),
        NO_ALLOCATION_ID,
    );
    let deal_b = ids[0];
    assert_ne!(deal_a, deal_b);
    assert_eq!(get_deal_proposal(&rt, deal_a), get_deal_proposal(&rt, deal_b));

    // The client's funds are now locked twice for one signed proposal.
    let client_after = get_balance(&rt, &CLIENT_ADDR);
    assert_eq!(&proposal.client_balance_requirement() * 2, client_after.locked);

    // The second copy can be activated as well (in another sector) ...
    activate_deals(&rt, SECTOR_EXPIRY, addrs.provider, 6, 8, &[deal_b]);

    // ... and at the end of the term the provider collects the storage fee twice.
    let provider_before = get_balance(&rt, &addrs.provider);
    rt.set_epoch(END_EPOCH);
    let ret = settle_deal_payments(&rt, addrs.worker, &[deal_a, deal_b], &[deal_a, deal_b], &[]);
    assert!(ret.results.all_ok());
    let fee = proposal.total_storage_fee();
    assert_eq!(fee, ret.settlements[0].payment);
    assert_eq!(fee, ret.settlements[1].payment);
    let provider_after = get_balance(&rt, &addrs.provider);
    assert_eq!(&provider_before.balance + &fee * 2, provider_after.balance);
    let client_final = get_balance(&rt, &CLIENT_ADDR);
    assert_eq!(&client_before.balance - &fee * 2, client_final.balance);
}

/// Same root cause as finding 1, at the boundary: settling exactly at the start epoch (when
/// publication and activation of that proposal are both still permitted) also frees the CID.
#[test]
fn settlement_at_start_epoch_allows_republication_in_same_epoch() {
    let rt = setup();
    let addrs = MinerAddresses::default();
    rt.set_epoch(1);
    let (deal_a, proposal) =
        generate_and_publish_deal(&rt, CLIENT_ADDR, &addrs, START_EPOCH, END_EPOCH);
    add_provider_funds(&rt, proposal.provider_collateral.clone(), &addrs);
    add_participant_funds(&rt, CLIENT_ADDR, proposal.client_balance_requirement());
    activate_deals(&rt, SECTOR_EXPIRY, addrs.provider, 2, 7, &[deal_a]);

    rt.set_epoch(START_EPOCH);
    publish_single_expect_all_invalid(&rt, &addrs, &proposal);
    settle_deal_payments(&rt, addrs.worker, &[deal_a], &[], &[]);
    assert!(!pending_has(&rt, &proposal));

    rt.set_caller(*ACCOUNT_ACTOR_CODE_ID, addrs.worker);
    let ids = publish_deals(
        &rt,
        &addrs,
        std::slice::from_ref(&proposal),
        TokenAmount::zero(),
        NO_ALLOCATION_ID,
    );
    assert_ne!(deal_a, ids[0]);
    // and it can still be activated in this epoch
    activate_deals(&rt, SECTOR_EXPIRY, addrs.provider, START_EPOCH, 8, &ids);
}

/// After an early settlement the deal (a "new style" deal that is supposed to be settled only
/// explicitly) is picked up by cron as if it were a legacy deal: cron pays it and re-schedules it
/// every `deal_updates_interval`, for the whole life of the deal.
#[test]
fn early_settlement_turns_deal_into_cron_processed_legacy_deal() {
    let rt = setup();
    let addrs = MinerAddresses::default();
    rt.set_epoch(1);
    let (deal_a, proposal) =
        generate_and_publish_deal(&rt, CLIENT_ADDR, &addrs, START_EPOCH, END_EPOCH);
    activate_deals(&rt, SECTOR_EXPIRY, addrs.provider, 2, 7, &[deal_a]);
    rt.set_epoch(3);
    settle_deal_payments(&rt, addrs.worker, &[deal_a], &[], &[]);

    // Control deal, never settled early.
    let (deal_c, _) =
        publish_and_activate_deal(&rt, CLIENT_ADDR, &addrs, 9, START_EPOCH + 1, END_EPOCH, 3, SECTOR_EXPIRY);

    let interval = Policy::default().deal_updates_interval;
    let first = process_epoch(START_EPOCH, deal_a).max(process_epoch(START_EPOCH + 1, deal_c));
    rt.set_epoch(first);
    let provider_before = get_balance(&rt, &addrs.provider);
    cron_tick(&rt);
    let provider_after = get_balance(&rt, &addrs.provider);
    // cron paid the early-settled deal only (the control deal is not paid by cron)
    assert_eq!(
        &provider_before.balance + &proposal.storage_price_per_epoch * (first - START_EPOCH),
        provider_after.balance
    );
    assert_eq!(first, get_deal_state(&rt, deal_a).last_updated_epoch);
    assert_eq!(EPOCH_UNDEFINED, get_deal_state(&rt, deal_c).last_updated_epoch);
    // and rescheduled it
    let st: State = rt.get_state();
    let next = st.get_deals_for_epoch(&rt.store, process_epoch(first + 1, deal_a)).unwrap();
    assert!(next.contains(&deal_a));
    assert!(process_epoch(first + 1, deal_a) <= first + interval);
}

/// FINDING 2 (C08 timely activation, boundary epoch).
///
/// Activation is permitted while curr_epoch <= start_epoch, but an un-activated proposal is
/// treated as timed out as soon as curr_epoch >= start_epoch. At curr_epoch == start_epoch both
/// are true, and SettleDealPayments can be sent by anyone: a third party can get the provider's
/// whole collateral burnt in the very epoch in which the provider is still entitled to activate.
#[test]
fn unactivated_deal_is_slashed_at_start_epoch_although_activation_is_still_allowed() {
    // Control: activation at exactly start_epoch is accepted.
    {
        let rt = setup();
        let addrs = MinerAddresses::default();
        rt.set_epoch(1);
        let (deal, _) = generate_and_publish_deal(&rt, CLIENT_ADDR, &addrs, START_EPOCH, END_EPOCH);
        let ret = activate_deals(&rt, SECTOR_EXPIRY, addrs.provider, START_EPOCH, 7, &[deal]);
        assert!(ret.activation_results.all_ok());
    }

    let rt = setup();
    let addrs = MinerAddresses::default();
    rt.set_epoch(1);
    let (deal, proposal) =
        generate_and_publish_deal(&rt, CLIENT_ADDR, &addrs, START_EPOCH, END_EPOCH);

    // At start_epoch an arbitrary third party "settles" the not-yet-activated deal.
    rt.set_epoch(START_EPOCH);
    rt.expect_send_simple(
        BURNT_FUNDS_ACTOR_ADDR,
        METHOD_SEND,
        None,
        proposal.provider_collateral.clone(),
        None,
        ExitCode::OK,
    );
    let some_third_party = fvm_shared::address::Address::new_id(999);
    let ret = settle_deal_payments(&rt, some_third_party, &[deal], &[], &[]);
    assert_eq!(ret.results.codes(), &[EX_DEAL_EXPIRED]);
    assert!(find_deal_proposal(&rt, deal).is_none());
    assert_account_zero(&rt, addrs.provider); // whole provider collateral burnt

    // The provider's activation message in the same epoch now fails.
    let res = batch_activate_deals_raw(
        &rt,
        addrs.provider,
        vec![SectorDeals {
            sector_number: 7,
            deal_ids: vec![deal],
            sector_expiry: SECTOR_EXPIRY,
            sector_type: RegisteredSealProof::StackedDRG8MiBV1,
        }],
        false,
        &[],
    )
    .unwrap()
    .unwrap()
    .deserialize::<fil_actor_market::BatchActivateDealsResult>()
    .unwrap();
    assert_eq!(res.activation_results.codes(), &[EX_DEAL_EXPIRED]);
}

/// Finding 1, verified-deal variant (C09 impact): the replayed proposal makes the market actor
/// (which holds an unlimited operator allowance on every verified client) pull the client's
/// DataCap a second time and create a second allocation, again without a new client signature.
#[test]
fn early_settlement_allows_verified_proposal_replay_spending_datacap_twice() {
    let rt = setup();
    let addrs = MinerAddresses::default();
    rt.set_epoch(1);

    let mut proposal =
        generate_deal_and_add_funds(&rt, CLIENT_ADDR, &addrs, START_EPOCH, END_EPOCH);
    proposal.verified_deal = true;
    // funds for a second copy
    add_provider_funds(&rt, proposal.provider_collateral.clone(), &addrs);
    add_participant_funds(&rt, CLIENT_ADDR, proposal.client_balance_requirement());
    // The client holds DataCap for two pieces of this size.
    let datacap = TokenAmount::from_whole(2 * proposal.piece_size.0);

    rt.set_caller(*ACCOUNT_ACTOR_CODE_ID, addrs.worker);
    let first_alloc = 1;
    let ids = publish_deals(&rt, &addrs, std::slice::from_ref(&proposal), datacap.clone(), first_alloc);
    let deal_a = ids[0];
    assert_eq!(first_alloc, get_pending_deal_allocation(&rt, deal_a));

    activate_deals(&rt, SECTOR_EXPIRY, addrs.provider, 2, 7, &[deal_a]);
    rt.set_epoch(3);
    settle_deal_payments(&rt, addrs.worker, &[deal_a], &[], &[]);

    // Replay: a second TransferFrom of the client's DataCap and a second allocation (id 2).
    rt.set_epoch(4);
    rt.set_caller(*ACCOUNT_ACTOR_CODE_ID, addrs.worker);
    let second_alloc = 2;
    let ids = publish_deals(&rt, &addrs, std::slice::from_ref(&proposal), datacap, second_alloc);
    let deal_b = ids[0];
    assert_ne!(deal_a, deal_b);
    assert_eq!(second_alloc, get_pending_deal_allocation(&rt, deal_b));
    check_state(&rt);
}
