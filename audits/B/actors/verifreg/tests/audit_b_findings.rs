// Audit B: findings in the verified registry actor (abort-only: panics reachable from params).

use fvm_ipld_encoding::ipld_block::IpldBlock;
use fvm_shared::{ActorID, MethodNum};

use fil_actor_verifreg::{
    Actor as VerifregActor, Method, RemoveExpiredAllocationsParams, RemoveExpiredClaimsParams,
};
use fil_actors_runtime::runtime::policy_constants::MINIMUM_VERIFIED_ALLOCATION_SIZE;
use harness::*;

mod harness;

const CLIENT1: ActorID = 101;
const PROVIDER1: ActorID = 301;
const ALLOC_SIZE: u64 = MINIMUM_VERIFIED_ALLOCATION_SIZE as u64;

/// FINDING 3a (abort only). RemoveExpiredAllocations with the same (expired) allocation id listed
/// twice: `check_expired` approves both entries against the unmodified table, the removal loop then
/// removes the id once and `unwrap()`s a `None` for the second entry -> panic instead of a
/// per-entry failure code (the method is documented as batch / partial-success).
#[test]
#[should_panic(expected = "called `Option::unwrap()` on a `None` value")]
fn remove_expired_allocations_duplicate_id_panics() {
    let (h, rt) = new_harness();
    let mut alloc1 = make_alloc("1", CLIENT1, PROVIDER1, ALLOC_SIZE);
    alloc1.expiration = 100;
    let id1 = h.create_alloc(&rt, &alloc1).unwrap();
    rt.set_epoch(100);

    rt.expect_validate_caller_any();
    // The first entry is removed normally (event emitted) ...
    expect_allocation_emitted(
        &rt,
        "allocation-removed",
        id1,
        alloc1.client,
        alloc1.provider,
        &alloc1.data,
        alloc1.size.0,
        alloc1.term_min,
        alloc1.term_max,
        alloc1.expiration,
    );
    let params = RemoveExpiredAllocationsParams { client: CLIENT1, allocation_ids: vec![id1, id1] };
    // Panics inside the actor's state transaction.
    let _ = rt.call::<VerifregActor>(
        Method::RemoveExpiredAllocations as MethodNum,
        IpldBlock::serialize_cbor(&params).unwrap(),
    );
}

/// FINDING 3b (abort only). Same for RemoveExpiredClaims.
#[test]
#[should_panic(expected = "called `Option::unwrap()` on a `None` value")]
fn remove_expired_claims_duplicate_id_panics() {
    let (h, rt) = new_harness();
    let mut claim = make_claim("1", CLIENT1, PROVIDER1, ALLOC_SIZE, 100, 200, 0, 0);
    claim.term_start = 0;
    let id = h.create_claim(&rt, &claim).unwrap();
    rt.set_epoch(claim.term_start + claim.term_max);

    rt.expect_validate_caller_any();
    expect_claim_emitted(
        &rt,
        "claim-removed",
        id,
        claim.client,
        claim.provider,
        &claim.data,
        claim.size.0,
        claim.sector,
        claim.term_min,
        claim.term_max,
        claim.term_start,
    );
    let params = RemoveExpiredClaimsParams { provider: PROVIDER1, claim_ids: vec![id, id] };
    let _ = rt.call::<VerifregActor>(
        Method::RemoveExpiredClaims as MethodNum,
        IpldBlock::serialize_cbor(&params).unwrap(),
    );
}
