// Audit B, finding 1, end-to-end on the TestVM with the real miner, market, account, power and
// reward actors: a deal activated (ProveCommitSectors3 -> SectorContentChanged) before its start
// epoch is "settled" by an unrelated account, after which the provider publishes the identical
// client-signed proposal a second time.

use fil_actor_market::{GetBalanceReturn, Method as MarketMethod, State as MarketState};
use fil_actor_miner::Method as MinerMethod;
use fil_actor_miner::{
    DataActivationNotification, PieceActivationManifest, ProveCommitSectors3Params,
    SectorActivationManifest, max_prove_commit_duration,
};
use fil_actors_integration_tests::deals::{DealBatcher, DealOptions};
use fil_actors_integration_tests::util::{
    bf_all, expect_invariants, invariant_failure_patterns, create_accounts, create_miner, market_add_balance,
    precommit_meta_data_from_deals, precommit_sectors_v2, provider_settle_deal_payments,
};
use fil_actors_runtime::STORAGE_MARKET_ACTOR_ADDR;
use fil_actors_runtime::cbor::serialize;
use fil_actors_runtime::runtime::Policy;
use fil_actors_runtime::runtime::policy::policy_constants::PRE_COMMIT_CHALLENGE_DELAY;
use fil_actors_runtime::test_blockstores::MemoryBlockstore;
use fvm_ipld_encoding::RawBytes;
use fvm_shared::address::Address;
use fvm_shared::clock::ChainEpoch;
use fvm_shared::econ::TokenAmount;
use fvm_shared::piece::PaddedPieceSize;
use fvm_shared::sector::RegisteredSealProof;
use num_traits::Zero;
use test_vm::TestVM;
use vm_api::VM;
use vm_api::util::{DynBlockstore, apply_ok, get_state};

const SEAL_PROOF: RegisteredSealProof = RegisteredSealProof::StackedDRG32GiBV1P1;

fn market_balance(v: &dyn VM, who: &Address) -> GetBalanceReturn {
    apply_ok(
        v,
        who,
        &STORAGE_MARKET_ACTOR_ADDR,
        &TokenAmount::zero(),
        MarketMethod::GetBalanceExported as u64,
        Some(*who),
    )
    .deserialize()
    .unwrap()
}

#[test]
fn early_settlement_allows_republishing_identical_signed_proposal_e2e() {
    let store = MemoryBlockstore::new();
    let vm = TestVM::new_with_singletons(store);
    let v: &dyn VM = &vm;

    let deal_duration: ChainEpoch = Policy::default().min_sector_expiration;
    let sector_duration: ChainEpoch =
        deal_duration + Policy::default().market_default_allocation_term_buffer;

    let addrs = create_accounts(v, 3, &TokenAmount::from_whole(10_000));
    let (owner, client, bystander) = (addrs[0], addrs[1], addrs[2]);
    let worker = owner;
    let (miner, _) = create_miner(
        v,
        &owner,
        &worker,
        SEAL_PROOF.registered_window_post_proof().unwrap(),
        &TokenAmount::from_whole(1000),
    );
    market_add_balance(v, &owner, &miner, &TokenAmount::from_whole(1000));
    market_add_balance(v, &client, &client, &TokenAmount::from_whole(1000));

    // Publish one deal.
    let deal_start = v.epoch() + max_prove_commit_duration(&Policy::default(), SEAL_PROOF).unwrap();
    let deal_opts = DealOptions {
        piece_size: PaddedPieceSize(32 * (1 << 30)),
        verified: false,
        deal_start,
        deal_lifetime: deal_duration,
        ..DealOptions::default()
    };
    let mut batcher = DealBatcher::new(v, deal_opts.clone());
    batcher.stage(client, miner); // label "deal-0"
    let ret = batcher.publish_ok(worker);
    assert_eq!(vec![0], bf_all(ret.valid_deals));
    let deal_a = ret.ids[0];
    let proposal = batcher.proposals()[0].clone();
    let locked_one = market_balance(v, &client).locked;
    assert_eq!(proposal.client_balance_requirement(), locked_one);

    // Pre-commit and prove-commit a sector holding the deal, well before the deal's start epoch.
    let precommits = precommit_sectors_v2(
        v,
        1,
        vec![precommit_meta_data_from_deals(v, &[deal_a], SEAL_PROOF, false)],
        &worker,
        &miner,
        SEAL_PROOF,
        0,
        true,
        Some(sector_duration),
    );
    v.set_epoch(v.epoch() + PRE_COMMIT_CHALLENGE_DELAY + 1);
    let params = ProveCommitSectors3Params {
        sector_activations: vec![SectorActivationManifest {
            sector_number: precommits[0].info.sector_number,
            pieces: vec![PieceActivationManifest {
                cid: proposal.piece_cid,
                size: proposal.piece_size,
                verified_allocation_key: None,
                notify: vec![DataActivationNotification {
                    address: STORAGE_MARKET_ACTOR_ADDR,
                    payload: serialize(&deal_a, "deal id").unwrap(),
                }],
            }],
        }],
        sector_proofs: vec![RawBytes::new(vec![0; 192])],
        aggregate_proof: RawBytes::default(),
        aggregate_proof_type: None,
        require_activation_success: true,
        require_notification_success: true,
    };
    apply_ok(
        v,
        &worker,
        &miner,
        &TokenAmount::zero(),
        MinerMethod::ProveCommitSectors3 as u64,
        Some(params),
    );
    assert!(v.epoch() < deal_start);
    let st: MarketState = get_state(v, &STORAGE_MARKET_ACTOR_ADDR).unwrap();
    let ds = st.find_deal_state(&DynBlockstore::wrap(v.blockstore()), deal_a).unwrap().unwrap();
    assert_eq!(v.epoch(), ds.sector_start_epoch); // deal is activated

    // Control: re-publishing the identical proposal is rejected as a duplicate.
    let mut dup = DealBatcher::new(v, deal_opts.clone());
    dup.stage_with_label(client, miner, "deal-0".to_string());
    assert_eq!(&proposal, &dup.proposals()[0]);
    dup.publish_fail(worker); // USR_ILLEGAL_ARGUMENT: all deals invalid

    // An unrelated account "settles" the not-yet-started deal.
    v.set_epoch(v.epoch() + 1);
    let ret = provider_settle_deal_payments(v, &bystander, &[deal_a]);
    assert!(ret.results.all_ok());
    assert!(ret.settlements[0].payment.is_zero());

    // Now the same signed proposal is accepted again.
    let mut dup = DealBatcher::new(v, deal_opts);
    dup.stage_with_label(client, miner, "deal-0".to_string());
    assert_eq!(&proposal, &dup.proposals()[0]);
    let ret = dup.publish_ok(worker);
    assert_eq!(vec![0], bf_all(ret.valid_deals));
    let deal_b = ret.ids[0];
    assert_ne!(deal_a, deal_b);

    let st: MarketState = get_state(v, &STORAGE_MARKET_ACTOR_ADDR).unwrap();
    let bs = DynBlockstore::wrap(v.blockstore());
    assert_eq!(st.get_proposal(&bs, deal_a).unwrap(), st.get_proposal(&bs, deal_b).unwrap());
    // Client funds are locked twice on the strength of one signature.
    assert_eq!(&locked_one * 2, market_balance(v, &client).locked);

    // The stock state invariants do not notice anything wrong (the only message is the usual
    // reward-epoch artefact of tests that move the epoch without running cron).
    expect_invariants(
        v,
        &Policy::default(),
        &[invariant_failure_patterns::REWARD_STATE_EPOCH_MISMATCH.to_owned()],
        None,
    );
}
