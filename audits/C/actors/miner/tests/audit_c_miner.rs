// Audit C: miner funds findings (new, untracked test file).
//
// Run with:
//   CARGO_NET_OFFLINE=true CARGO_TARGET_DIR=/tmp/wt-auditC/target \
//     cargo test --offline -j 4 -p fil_actor_miner --test audit_c_miner -- --nocapture

use fil_actor_account::Method as AccountMethod;
use fil_actor_miner::{
    Actor, Method, MinerConstructorParams, State, WithdrawBalanceParams, WithdrawBalanceReturn, ext,
};
use fil_actor_power::CurrentTotalPowerReturn;
use fil_actor_reward::{Method as RewardMethod, ThisEpochRewardReturn};
use fil_actors_runtime::test_utils::*;
use fil_actors_runtime::{
    EPOCHS_IN_DAY, INIT_ACTOR_ADDR, REWARD_ACTOR_ADDR, STORAGE_POWER_ACTOR_ADDR,
};
use fvm_ipld_encoding::ipld_block::IpldBlock;
use fvm_shared::METHOD_SEND;
use fvm_shared::bigint::Zero;
use fvm_shared::econ::TokenAmount;
use fvm_shared::error::ExitCode;
use std::ops::Neg;

mod util;
use util::*;

/// Same as ActorHarness::construct_and_verify but WITHOUT the harness' trick of wiping the
/// creation deposit out of the state right after construction
/// (`check_create_miner_deposit_and_reset_state`).
fn construct_keep_deposit(h: &ActorHarness, rt: &MockRuntime) -> TokenAmount {
    let current_reward = ThisEpochRewardReturn {
        this_epoch_baseline_power: h.baseline_power.clone(),
        this_epoch_reward_smoothed: h.epoch_reward_smooth.clone(),
    };
    let current_total_power = CurrentTotalPowerReturn::default();
    let params = MinerConstructorParams {
        owner: h.owner,
        worker: h.worker,
        control_addresses: h.control_addrs.clone(),
        window_post_proof_type: h.window_post_proof_type,
        peer_id: vec![0],
        multi_addresses: vec![],
    };
    rt.set_circulating_supply(TokenAmount::from_whole(500_000));
    let deposit = create_miner_deposit_for_test(rt, &h.baseline_power, &h.epoch_reward_smooth);
    rt.add_balance(deposit.clone());
    rt.set_caller(*INIT_ACTOR_CODE_ID, INIT_ACTOR_ADDR);
    rt.expect_validate_caller_addr(vec![INIT_ACTOR_ADDR]);
    rt.expect_send_simple(
        REWARD_ACTOR_ADDR,
        RewardMethod::ThisEpochReward as u64,
        None,
        TokenAmount::zero(),
        IpldBlock::serialize_cbor(&current_reward).unwrap(),
        ExitCode::OK,
    );
    rt.expect_send_simple(
        STORAGE_POWER_ACTOR_ADDR,
        ext::power::CURRENT_TOTAL_POWER_METHOD,
        Default::default(),
        TokenAmount::zero(),
        IpldBlock::serialize_cbor(&current_total_power).unwrap(),
        ExitCode::OK,
    );
    rt.expect_send_simple(
        h.worker,
        AccountMethod::PubkeyAddress as u64,
        None,
        TokenAmount::zero(),
        IpldBlock::serialize_cbor(&h.worker_key).unwrap(),
        ExitCode::OK,
    );
    // NOTE: these three are the ONLY sends of the constructor. In particular there is no
    // UpdatePledgeTotal(+deposit) -- MockRuntime would fail on an unexpected send.
    let result = rt
        .call::<Actor>(Method::Constructor as u64, IpldBlock::serialize_cbor(&params).unwrap())
        .unwrap();
    expect_empty(result);
    rt.verify();
    deposit
}

/// NOTE C14-a: the creation deposit is put into `locked_funds` by the constructor without telling
/// the power actor (no UpdatePledgeTotal(+deposit)), but when it vests the miner reports
/// UpdatePledgeTotal(-vested). Over the 180 days the network's total pledge is therefore debited
/// by the full deposit that was never credited; power.update_pledge_total aborts with
/// "negative total pledge collateral" whenever the network total is smaller than the vested part,
/// which makes WithdrawBalance (and the deadline cron) of that miner abort.
#[test]
fn creation_deposit_is_debited_from_network_pledge_but_never_credited() {
    let h = ActorHarness::new(0);
    let rt = h.new_runtime();
    let deposit = construct_keep_deposit(&h, &rt);
    assert!(deposit.is_positive());

    let st: State = rt.get_state();
    assert_eq!(deposit, st.locked_funds);
    assert!(!st.deadline_cron_active, "no cron is enrolled either, nothing vests automatically");
    println!("creation deposit = {} locked, constructor sent no UpdatePledgeTotal", deposit);

    // 181 days later everything has vested; the owner withdraws it.
    let now = *rt.epoch.borrow();
    rt.set_epoch(now + 181 * EPOCHS_IN_DAY);
    rt.set_caller(*ACCOUNT_ACTOR_CODE_ID, h.owner);
    rt.expect_validate_caller_addr(vec![h.owner, h.beneficiary]);
    rt.expect_send_simple(h.beneficiary, METHOD_SEND, None, deposit.clone(), None, ExitCode::OK);
    // <-- the miner debits the network pledge total by the whole deposit
    rt.expect_send_simple(
        STORAGE_POWER_ACTOR_ADDR,
        ext::power::UPDATE_PLEDGE_TOTAL_METHOD,
        IpldBlock::serialize_cbor(&deposit.clone().neg()).unwrap(),
        TokenAmount::zero(),
        None,
        ExitCode::OK,
    );
    let ret: WithdrawBalanceReturn = rt
        .call::<Actor>(
            Method::WithdrawBalance as u64,
            IpldBlock::serialize_cbor(&WithdrawBalanceParams { amount_requested: deposit.clone() })
                .unwrap(),
        )
        .unwrap()
        .unwrap()
        .deserialize()
        .unwrap();
    rt.verify();
    assert_eq!(deposit, ret.amount_withdrawn);
    println!(
        "withdraw after 181 days: paid {} and sent UpdatePledgeTotal({}) to the power actor",
        ret.amount_withdrawn,
        deposit.neg()
    );
}
