// Audit C: multisig findings (new, untracked test file).
//
// Run with:
//   CARGO_NET_OFFLINE=true CARGO_TARGET_DIR=/tmp/wt-auditC/target \
//     cargo test --offline -j 4 -p fil_actor_multisig --test audit_c_multisig -- --nocapture

use std::cell::RefCell;
use std::collections::HashMap;
use std::panic::{AssertUnwindSafe, catch_unwind};

use fil_actor_multisig::{Actor as MultisigActor, Method, ProposeParams, State};
use fil_actors_runtime::SYSTEM_ACTOR_ADDR;
use fil_actors_runtime::test_utils::*;
use fvm_ipld_encoding::RawBytes;
use fvm_ipld_encoding::ipld_block::IpldBlock;
use fvm_shared::METHOD_SEND;
use fvm_shared::address::Address;
use fvm_shared::econ::TokenAmount;

mod util;

const MSIG: Address = Address::new_id(100);
const ANNE: Address = Address::new_id(101);
const BOB: Address = Address::new_id(102);

fn construct_runtime() -> MockRuntime {
    let mut actor_code_cids = HashMap::default();
    actor_code_cids.insert(ANNE, *ACCOUNT_ACTOR_CODE_ID);
    actor_code_cids.insert(BOB, *ACCOUNT_ACTOR_CODE_ID);
    MockRuntime {
        receiver: MSIG,
        caller: RefCell::new(SYSTEM_ACTOR_ADDR),
        caller_type: RefCell::new(*SYSTEM_ACTOR_CODE_ID),
        actor_code_cids: RefCell::new(actor_code_cids),
        ..Default::default()
    }
}

/// FINDING C12-1 (abort only): `State::check_available` computes `curr_epoch - self.start_epoch`
/// on plain i64. `start_epoch` comes unchecked from ConstructorParams / LockBalanceParams, so a
/// wallet created (or locked) with a very negative start epoch panics on integer overflow in every
/// later non-zero-value spend (the wasm profile is built with overflow-checks = true). Because the
/// lock can be set only once, the balance is frozen for good although the vesting schedule
/// (start far in the past, finite duration) says that everything has long been unlocked.
#[test]
fn start_epoch_overflow_freezes_wallet() {
    let rt = construct_runtime();
    let h = util::ActorHarness::new();

    // 1-of-2 wallet funded with 1000, vesting "started" at i64::MIN over 100 epochs
    // => by any sane reading the whole balance is unlocked at epoch 10.
    rt.set_balance(TokenAmount::from_atto(1000));
    rt.set_received(TokenAmount::from_atto(1000));
    h.construct_and_verify(&rt, 1, 100, i64::MIN, vec![ANNE, BOB]);
    let st: State = rt.get_state();
    assert_eq!(i64::MIN, st.start_epoch);
    assert_eq!(100, st.unlock_duration);

    rt.set_epoch(10);
    rt.set_caller(*ACCOUNT_ACTOR_CODE_ID, ANNE);
    rt.expect_validate_caller_any();
    let params =
        ProposeParams { to: BOB, value: TokenAmount::from_atto(1), method: METHOD_SEND, params: RawBytes::default() };
    let res = catch_unwind(AssertUnwindSafe(|| {
        rt.call::<MultisigActor>(Method::Propose as u64, IpldBlock::serialize_cbor(&params).unwrap())
    }));
    match &res {
        Ok(r) => println!("propose returned {:?}", r.as_ref().map(|_| ()).map_err(|e| e.msg().to_string())),
        Err(p) => println!(
            "propose PANICKED: {}",
            p.downcast_ref::<&str>().map(|s| s.to_string()).or_else(|| p.downcast_ref::<String>().cloned()).unwrap_or_default()
        ),
    }
    assert!(res.is_err(), "expected an arithmetic-overflow panic in check_available");
}

/// Control: same wallet with start_epoch = -1000 (also far in the past) spends fine.
#[test]
fn start_epoch_in_past_is_fine() {
    let rt = construct_runtime();
    let h = util::ActorHarness::new();
    rt.set_balance(TokenAmount::from_atto(1000));
    rt.set_received(TokenAmount::from_atto(1000));
    h.construct_and_verify(&rt, 1, 100, -1000, vec![ANNE, BOB]);
    rt.set_epoch(10);
    rt.set_caller(*ACCOUNT_ACTOR_CODE_ID, ANNE);
    rt.expect_send_simple(
        BOB,
        METHOD_SEND,
        None,
        TokenAmount::from_atto(1),
        None,
        fvm_shared::error::ExitCode::OK,
    );
    h.propose_ok(&rt, BOB, TokenAmount::from_atto(1), METHOD_SEND, RawBytes::default());
}
