// Audit C: payment channel findings (new, untracked test file).
//
// Run with:
//   CARGO_NET_OFFLINE=true CARGO_TARGET_DIR=/tmp/wt-auditC/target \
//     cargo test --offline -j 4 -p fil_actor_paych --test audit_c_paych -- --nocapture

use std::cell::RefCell;
use std::collections::HashMap;

use fil_actor_paych::ext::account::{AUTHENTICATE_MESSAGE_METHOD, AuthenticateMessageParams};
use fil_actor_paych::{
    Actor as PaychActor, ConstructorParams, LaneState, Merge, Method, SignedVoucher,
    State as PState, UpdateChannelStateParams,
};
use fil_actors_runtime::INIT_ACTOR_ADDR;
use fil_actors_runtime::runtime::builtins::Type;
use fil_actors_runtime::test_utils::*;
use fvm_ipld_amt::Amt;
use fvm_ipld_encoding::ipld_block::IpldBlock;
use fvm_shared::METHOD_CONSTRUCTOR;
use fvm_shared::address::Address;
use fvm_shared::crypto::signature::Signature;
use fvm_shared::econ::TokenAmount;
use fvm_shared::error::ExitCode;
use fvm_shared::sys::SendFlags;

const PAYCH_ID: u64 = 100;
const PAYER_ID: u64 = 102;
const PAYEE_ID: u64 = 103;

fn new_channel() -> MockRuntime {
    let payer = Address::new_id(PAYER_ID);
    let payee = Address::new_id(PAYEE_ID);
    let mut actor_code_cids = HashMap::default();
    actor_code_cids.insert(payee, *ACCOUNT_ACTOR_CODE_ID);
    actor_code_cids.insert(payer, *ACCOUNT_ACTOR_CODE_ID);
    let rt = MockRuntime {
        receiver: Address::new_id(PAYCH_ID),
        caller: RefCell::new(INIT_ACTOR_ADDR),
        caller_type: RefCell::new(*INIT_ACTOR_CODE_ID),
        actor_code_cids: RefCell::new(actor_code_cids),
        balance: RefCell::new(TokenAmount::from_atto(100_000)),
        epoch: RefCell::new(2),
        ..Default::default()
    };
    rt.set_caller(*INIT_ACTOR_CODE_ID, INIT_ACTOR_ADDR);
    rt.expect_validate_caller_type(vec![Type::Init]);
    rt.call::<PaychActor>(
        METHOD_CONSTRUCTOR,
        IpldBlock::serialize_cbor(&ConstructorParams { from: payer, to: payee }).unwrap(),
    )
    .unwrap();
    rt.verify();
    rt
}

fn voucher(lane: u64, nonce: u64, amount: u64, merges: Vec<Merge>) -> SignedVoucher {
    SignedVoucher {
        channel_addr: Address::new_id(PAYCH_ID),
        time_lock_min: 0,
        time_lock_max: 0,
        secret_pre_image: vec![],
        extra: None,
        lane,
        nonce,
        amount: TokenAmount::from_atto(amount),
        min_settle_height: 0,
        merges,
        signature: Some(Signature::new_bls(vec![1, 2, 3, 4])),
    }
}

/// The payee (`to`) redeems a voucher signed by the payer (`from`).
fn redeem_as_payee(rt: &MockRuntime, sv: &SignedVoucher) -> Result<Option<IpldBlock>, ExitCode> {
    let payer = Address::new_id(PAYER_ID);
    let payee = Address::new_id(PAYEE_ID);
    rt.set_caller(*ACCOUNT_ACTOR_CODE_ID, payee);
    rt.expect_validate_caller_addr(vec![payer, payee]);
    rt.expect_send(
        payer,
        AUTHENTICATE_MESSAGE_METHOD,
        IpldBlock::serialize_cbor(&AuthenticateMessageParams {
            signature: sv.signature.clone().unwrap().bytes,
            message: sv.signing_bytes().unwrap(),
        })
        .unwrap(),
        TokenAmount::from_atto(0),
        None,
        SendFlags::READ_ONLY,
        IpldBlock::serialize_cbor(&true).unwrap(),
        ExitCode::OK,
        None,
    );
    let r = rt
        .call::<PaychActor>(
            Method::UpdateChannelState as u64,
            IpldBlock::serialize_cbor(&UpdateChannelStateParams::from(sv.clone())).unwrap(),
        )
        .map_err(|e| e.exit_code());
    rt.verify();
    r
}

fn lane(rt: &MockRuntime, id: u64) -> LaneState {
    let st: PState = rt.get_state();
    let arr: Amt<LaneState, _> = Amt::load(&st.lane_states, &rt.store).unwrap();
    arr.get(id).unwrap().unwrap().clone()
}

/// FINDING C16-1: a voucher that names the same lane twice in `merges` is accepted and the
/// lane's already-redeemed amount is subtracted twice from the payout.
///
/// Property clause: "each accepted voucher changes the amount owed by exactly its amount minus
/// what was already redeemed on its lane and on the lanes it merges".
#[test]
fn duplicate_merge_lane_is_subtracted_twice() {
    let rt = new_channel();

    // lane 0: redeemed 100 (nonce 1); lane 1: redeemed 300 (nonce 1)
    redeem_as_payee(&rt, &voucher(0, 1, 100, vec![])).unwrap();
    redeem_as_payee(&rt, &voucher(1, 1, 300, vec![])).unwrap();
    let st: PState = rt.get_state();
    assert_eq!(TokenAmount::from_atto(400), st.to_send);

    // Voucher on lane 0 worth 1000 that merges lane 1 -- but lane 1 is listed TWICE
    // (with increasing merge nonces so that each entry passes the per-entry nonce check
    // against the lane state written by the previous entry).
    let sv = voucher(0, 2, 1000, vec![Merge { lane: 1, nonce: 2 }, Merge { lane: 1, nonce: 3 }]);
    let res = redeem_as_payee(&rt, &sv);
    println!("update_channel_state with duplicate merge lane -> {:?}", res.as_ref().map(|_| ()));
    assert!(res.is_ok(), "voucher with a duplicated merge lane was (unexpectedly) rejected");

    let st: PState = rt.get_state();
    // What the property demands: 400 + (1000 - 100 - 300) = 1000
    let expected = TokenAmount::from_atto(1000);
    // What the code does: 400 + (1000 - 100 - 300 - 300) = 700
    println!(
        "to_send after voucher: actual = {}, expected (amount - redeemed(lane0) - redeemed(lane1)) = {}",
        st.to_send.atto(),
        expected.atto()
    );
    println!("lane0 = {:?}, lane1 = {:?}", lane(&rt, 0), lane(&rt, 1));
    assert_eq!(TokenAmount::from_atto(700), st.to_send, "lane 1's redeemed amount was counted twice");
    assert_ne!(expected, st.to_send);

    // The lane states now claim 1000 + 300 redeemed while only 700 is owed: the payee has been
    // short-changed by exactly redeemed(lane 1) = 300.
    assert_eq!(TokenAmount::from_atto(1000), lane(&rt, 0).redeemed);
    assert_eq!(TokenAmount::from_atto(300), lane(&rt, 1).redeemed);
    assert_eq!(3, lane(&rt, 1).nonce);
}

/// Control: the same voucher with the merge lane listed once gives the exact payout.
#[test]
fn single_merge_lane_is_exact() {
    let rt = new_channel();
    redeem_as_payee(&rt, &voucher(0, 1, 100, vec![])).unwrap();
    redeem_as_payee(&rt, &voucher(1, 1, 300, vec![])).unwrap();
    let sv = voucher(0, 2, 1000, vec![Merge { lane: 1, nonce: 3 }]);
    redeem_as_payee(&rt, &sv).unwrap();
    let st: PState = rt.get_state();
    assert_eq!(TokenAmount::from_atto(1000), st.to_send);
}
