// Audit E (abort only): a sector number of u64::MAX in message parameters reaches
// `BitField::set`, which panics, before the `> MAX_SECTOR_NUMBER` range check rejects it.

use std::panic::{AssertUnwindSafe, catch_unwind};

use fil_actor_miner::{
    Actor, CompactCommD, ExpirationExtension2, ExtendSectorExpiration2Params, Method,
    PreCommitSectorBatchParams2, SectorClaim,
};
use fvm_ipld_bitfield::BitField;
use fvm_ipld_encoding::ipld_block::IpldBlock;
use fvm_shared::clock::ChainEpoch;
use fil_actors_runtime::test_utils::ACCOUNT_ACTOR_CODE_ID;

mod util;
use util::*;

const PERIOD_OFFSET: ChainEpoch = 100;

#[test]
fn audit_e_pre_commit_sector_number_u64_max_panics() {
    let h = ActorHarness::new(PERIOD_OFFSET);
    let rt = h.new_runtime();
    rt.set_balance(BIG_BALANCE.clone());
    rt.set_epoch(PERIOD_OFFSET + 1);
    h.construct_and_verify(&rt);

    let expiration = PERIOD_OFFSET + 1 + 200 * rt.policy.wpost_proving_period;
    let sector =
        h.make_pre_commit_params_v2(u64::MAX, PERIOD_OFFSET, expiration, vec![], CompactCommD(None));
    let params = PreCommitSectorBatchParams2 { sectors: vec![sector] };
    rt.set_caller(*ACCOUNT_ACTOR_CODE_ID, h.worker);
    let res = catch_unwind(AssertUnwindSafe(|| {
        rt.call::<Actor>(
            Method::PreCommitSectorBatch2 as u64,
            IpldBlock::serialize_cbor(&params).unwrap(),
        )
    }));
    match res {
        Ok(r) => panic!("expected a panic, got {:?}", r.map(|_| ())),
        Err(_) => println!("PreCommitSectorBatch2 with sector number u64::MAX panicked (abort)"),
    }
}

#[test]
fn audit_e_extend_sector_number_u64_max_panics() {
    let h = ActorHarness::new(PERIOD_OFFSET);
    let rt = h.new_runtime();
    rt.set_balance(BIG_BALANCE.clone());
    rt.set_epoch(PERIOD_OFFSET + 1);
    h.construct_and_verify(&rt);

    let params = ExtendSectorExpiration2Params {
        extensions: vec![ExpirationExtension2 {
            deadline: 0,
            partition: 0,
            sectors: BitField::new(),
            sectors_with_claims: vec![SectorClaim {
                sector_number: u64::MAX,
                maintain_claims: vec![],
                drop_claims: vec![],
            }],
            new_expiration: 1_000_000,
        }],
    };
    rt.set_caller(*ACCOUNT_ACTOR_CODE_ID, h.worker);
    let res = catch_unwind(AssertUnwindSafe(|| {
        rt.call::<Actor>(
            Method::ExtendSectorExpiration2 as u64,
            IpldBlock::serialize_cbor(&params).unwrap(),
        )
    }));
    match res {
        Ok(r) => panic!("expected a panic, got {:?}", r.map(|_| ())),
        Err(_) => println!("ExtendSectorExpiration2 with sector number u64::MAX panicked (abort)"),
    }
}
