// Audit E: after the deadline cron has stopped (no pledge, no deposits, no vesting funds) and is
// restarted by a later pre-commit, the first ticks leave `State.proving_period_start` stale: the
// recorded (period start, deadline index) pair does not describe the deadline that contains the
// next epoch until the index wraps to 0.

use fvm_shared::clock::ChainEpoch;

mod util;
use util::*;

const PERIOD_OFFSET: ChainEpoch = 100;

#[test]
fn audit_e_recorded_deadline_is_stale_after_cron_restart() {
    let h = ActorHarness::new(PERIOD_OFFSET);
    let rt = h.new_runtime();
    rt.set_balance(BIG_BALANCE.clone());
    let mut epoch = PERIOD_OFFSET + 1;
    rt.set_epoch(epoch);
    h.construct_and_verify(&rt);
    let mut cron_ctrl = CronControl::default();

    // start the cron with a pre-commit, let the pre-commit expire: the cron stops.
    epoch = cron_ctrl.pre_commit_start_cron_expire_stop_cron(&h, &rt, epoch);
    let stale_pps = h.get_state(&rt).proving_period_start;

    // three proving periods later (plus ten deadlines) another pre-commit restarts the cron.
    epoch += 3 * rt.policy.wpost_proving_period + 10 * rt.policy.wpost_challenge_window;
    cron_ctrl.pre_commit_to_start_cron(&h, &rt, epoch);
    cron_ctrl.require_cron_active(&h, &rt);

    // one tick of the restarted cron
    h.advance_deadline(&rt, CronConfig::empty());
    let now = *rt.epoch.borrow(); // first epoch of the next deadline
    let st = h.get_state(&rt);
    let truth = st.deadline_info(&rt.policy, now); // derived from the epoch
    let recorded = st.recorded_deadline_info(&rt.policy, now); // from the recorded fields

    println!(
        "now {} | derived: period_start {} index {} [{}, {}) | recorded: period_start {} index {} [{}, {})",
        now,
        truth.period_start,
        truth.index,
        truth.open,
        truth.close,
        recorded.period_start,
        recorded.index,
        recorded.open,
        recorded.close
    );
    assert_eq!(truth.index, st.current_deadline, "the index is advanced correctly");
    assert_eq!(stale_pps, st.proving_period_start, "period start was not refreshed by the tick");
    // The clause under test: after each tick the recorded deadline is the one containing the next epoch.
    assert!(
        recorded.open <= now && now < recorded.close,
        "recorded deadline [{}, {}) does not contain the next epoch {}",
        recorded.open,
        recorded.close,
        now
    );
}

// ApplyRewards locks 75% of a block reward in the vesting table. It never enrols the deadline
// cron, so a reward that arrives after the cron has stopped (the reward for a block won on the
// strength of power that existed one epoch earlier) leaves vesting funds with no pending
// proving-deadline callback.
#[test]
fn audit_e_reward_after_cron_stopped_leaves_vesting_funds_without_cron() {
    use fil_actor_miner::testing::check_state_invariants;
    use fvm_shared::econ::TokenAmount;
    use num_traits::Zero;

    let h = ActorHarness::new(PERIOD_OFFSET);
    let rt = h.new_runtime();
    rt.set_balance(BIG_BALANCE.clone());
    let epoch = PERIOD_OFFSET + 1;
    rt.set_epoch(epoch);
    h.construct_and_verify(&rt);
    let mut cron_ctrl = CronControl::default();

    // the cron runs for a while and then stops: nothing is left to keep it alive
    cron_ctrl.pre_commit_start_cron_expire_stop_cron(&h, &rt, epoch);
    cron_ctrl.require_cron_inactive(&h, &rt);

    // a block reward arrives (ApplyRewards from the reward actor)
    h.apply_rewards(&rt, TokenAmount::from_whole(10), TokenAmount::zero());

    let st = h.get_state(&rt);
    println!(
        "locked_funds {} deadline_cron_active {} continue_deadline_cron {}",
        st.locked_funds,
        st.deadline_cron_active,
        st.continue_deadline_cron()
    );
    assert!(st.locked_funds.is_positive());
    let (_, acc) = check_state_invariants(&rt.policy, &st, &rt.store, &rt.get_balance());
    println!("state invariants: {:?}", acc.messages());
    // the miner has vesting funds, so it must have its deadline cron enrolled
    assert!(st.deadline_cron_active, "vesting funds but no deadline cron: {:?}", acc.messages());
}
