// Audit E: randomized operation sequences against the real Deadline/Partition/ExpirationQueue code.
// Each step mirrors what a miner message or the deadline cron does to one deadline, and the
// state invariants of `fil_actor_miner::testing` are re-checked after every step, together with
// a model of the power that the power actor would have been told about.

use std::collections::BTreeMap;

use fil_actor_miner::testing::check_deadline_state_invariants;
use fil_actor_miner::{
    Deadline, PartitionSectorMap, PoStPartition, PowerPair, QuantSpec, SectorOnChainInfo, Sectors,
    power_for_sectors,
};
use fil_actors_runtime::MessageAccumulator;
use fil_actors_runtime::runtime::{Policy, Runtime};
use fil_actors_runtime::test_utils::MockRuntime;
use fvm_ipld_bitfield::BitField;
use fvm_shared::clock::ChainEpoch;
use fvm_shared::econ::TokenAmount;
use fvm_shared::sector::SectorSize;
use num_traits::Zero;
use rand::rngs::StdRng;
use rand::{Rng, SeedableRng};

mod util;
use crate::util::*;

const SECTOR_SIZE: SectorSize = SectorSize::_32GiB;
const PERIOD: ChainEpoch = 100;
const OFFSET: ChainEpoch = 37; // deadline "last" epochs are 37, 137, 237, ...
const QUANT: QuantSpec = QuantSpec { unit: PERIOD, offset: OFFSET };
const PARTITION_SIZE: u64 = 4;
const FAULT_MAX_AGE: ChainEpoch = 3 * PERIOD;

struct Model {
    sectors: BTreeMap<u64, SectorOnChainInfo>,
    next_sector: u64,
    claimed: PowerPair,
    pledge: TokenAmount,
}

fn bf(v: impl IntoIterator<Item = u64>) -> BitField {
    BitField::try_from_bits(v).unwrap()
}

fn check(
    rt: &MockRuntime,
    dl: &Deadline,
    m: &Model,
    ctx: &str,
    log: &[String],
) -> fil_actor_miner::testing::DeadlineStateSummary {
    let acc = MessageAccumulator::default();
    let map: SectorsMap = m.sectors.iter().map(|(k, v)| (*k, v.clone())).collect();
    let summary = check_deadline_state_invariants(dl, rt.store(), QUANT, SECTOR_SIZE, &map, &acc);
    if !acc.is_empty() {
        panic!("invariants broken after {}: {:?}\nlog:\n{}", ctx, acc.messages(), log.join("\n"));
    }
    if summary.active_power != m.claimed {
        panic!(
            "claimed power {:?} != active power {:?} after {}\nlog:\n{}",
            m.claimed,
            summary.active_power,
            ctx,
            log.join("\n")
        );
    }
    summary
}

fn run(seed: u64, steps: usize) {
    let rt = MockRuntime::default();
    let store = rt.store();
    let policy = Policy::default();
    let mut rng = StdRng::seed_from_u64(seed);
    let mut dl = Deadline::new(store).unwrap();
    let mut m = Model {
        sectors: BTreeMap::new(),
        next_sector: 1,
        claimed: PowerPair::zero(),
        pledge: TokenAmount::zero(),
    };
    let mut log: Vec<String> = vec![];
    // period counter: the current instance of the deadline closes at `last`.
    let mut k: i64 = 1;

    for _ in 0..steps {
        let last = OFFSET + k * PERIOD;
        let now = last - PERIOD + 1 + rng.gen_range(0..30); // some epoch in the mutable part
        let fault_exp = last + FAULT_MAX_AGE;
        let op = rng.gen_range(0..100);
        let sectors_arr =
            |m: &Model| sectors_arr(store, m.sectors.values().cloned().collect::<Vec<_>>());

        if op < 18 {
            // prove-commit: add new unproven sectors
            let n = rng.gen_range(1..6);
            let mut new = vec![];
            for _ in 0..n {
                let exp = now + rng.gen_range(1..8) * PERIOD + rng.gen_range(0..PERIOD);
                let s = test_sector(
                    exp,
                    m.next_sector,
                    0,
                    rng.gen_range(0..3) * 1000,
                    1000 + rng.gen_range(0..50),
                    if rng.gen_bool(0.2) { 0 } else { 10 + rng.gen_range(0..10) },
                );
                m.next_sector += 1;
                new.push(s);
            }
            log.push(format!("k={k} add {:?}", new.iter().map(|s| (s.sector_number, s.expiration)).collect::<Vec<_>>()));
            for s in &new {
                m.sectors.insert(s.sector_number, s.clone());
                m.pledge += &s.initial_pledge;
            }
            dl.add_sectors(store, PARTITION_SIZE, false, true, &new, SECTOR_SIZE, QUANT).unwrap();
            check(&rt, &dl, &m, "add", &log);
        } else if op < 30 {
            // declare faults
            let summary = check(&rt, &dl, &m, "pre", &log);
            let mut psm = PartitionSectorMap::default();
            let mut any = false;
            dl.for_each(store, |idx, p| {
                let cand: Vec<u64> = p.sectors.iter().filter(|_| rng.gen_bool(0.3)).collect();
                if !cand.is_empty() {
                    any = true;
                    psm.add(idx, bf(cand)).unwrap();
                }
                Ok(())
            })
            .unwrap();
            let _ = summary;
            if any {
                log.push(format!("k={k} declare faults"));
                let sa = sectors_arr(&m);
                let delta =
                    dl.record_faults(store, &sa, SECTOR_SIZE, QUANT, fault_exp, &mut psm).unwrap();
                m.claimed += &delta;
                check(&rt, &dl, &m, "declare faults", &log);
            }
        } else if op < 42 {
            // declare recoveries
            let mut psm = PartitionSectorMap::default();
            let mut any = false;
            dl.for_each(store, |idx, p| {
                let cand: Vec<u64> = p.sectors.iter().filter(|_| rng.gen_bool(0.5)).collect();
                if !cand.is_empty() {
                    any = true;
                    psm.add(idx, bf(cand)).unwrap();
                }
                Ok(())
            })
            .unwrap();
            if any {
                log.push(format!("k={k} declare recoveries"));
                let sa = sectors_arr(&m);
                dl.declare_faults_recovered(store, &sa, SECTOR_SIZE, &mut psm).unwrap();
                check(&rt, &dl, &m, "declare recoveries", &log);
            }
        } else if op < 52 {
            // terminate sectors
            let mut psm = PartitionSectorMap::default();
            let mut any = false;
            dl.for_each(store, |idx, p| {
                let live = p.live_sectors();
                let cand: Vec<u64> = live.iter().filter(|_| rng.gen_bool(0.25)).collect();
                if !cand.is_empty() {
                    any = true;
                    psm.add(idx, bf(cand)).unwrap();
                }
                Ok(())
            })
            .unwrap();
            if any {
                log.push(format!("k={k} terminate at {now}"));
                let sa = sectors_arr(&m);
                let lost = dl
                    .terminate_sectors(&policy, store, &sa, now, &mut psm, SECTOR_SIZE, QUANT)
                    .unwrap();
                m.claimed -= &lost;
                check(&rt, &dl, &m, "terminate", &log);
            }
        } else if op < 60 {
            // process early terminations with random limits
            let mp = rng.gen_range(1..4);
            let ms = rng.gen_range(1..6);
            let (res, _more) = dl.pop_early_terminations(store, mp, ms).unwrap();
            log.push(format!("k={k} pop early terminations {mp} {ms}"));
            for (_epoch, nos) in res.iter() {
                for n in nos.iter() {
                    let s = m.sectors.get(&n).expect("early terminated sector must still have info");
                    m.pledge -= &s.initial_pledge;
                }
            }
            check(&rt, &dl, &m, "pop early", &log);
        } else if op < 68 {
            // compact partitions (only if no early terminations pending, as the actor enforces)
            if dl.early_terminations.is_empty() {
                let count = dl.partitions_amt(store).unwrap().count();
                if count > 0 {
                    let cand: Vec<u64> = (0..count).filter(|_| rng.gen_bool(0.5)).collect();
                    let mut sa = sectors_arr(&m);
                    let mut trial = Deadline { ..clone_deadline(&dl) };
                    match trial.compact_partitions(
                        store,
                        &mut sa,
                        SECTOR_SIZE,
                        PARTITION_SIZE,
                        &bf(cand.clone()),
                        QUANT,
                    ) {
                        Ok(dead) => {
                            log.push(format!("k={k} compact {:?} dead {:?}", cand, dead.iter().collect::<Vec<_>>()));
                            dl = trial;
                            for d in dead.iter() {
                                m.sectors.remove(&d);
                            }
                            check(&rt, &dl, &m, "compact", &log);
                        }
                        Err(_) => {}
                    }
                }
            }
        } else if op < 76 {
            // extension of active sectors (same power), as extend_sector_expiration_inner does
            let mut parts = dl.partitions_amt(store).unwrap();
            let count = parts.count();
            if count > 0 {
                let pidx = rng.gen_range(0..count);
                let mut p = parts.get(pidx).unwrap().unwrap().clone();
                let active: Vec<u64> = p.active_sectors().iter().filter(|_| rng.gen_bool(0.5)).collect();
                if !active.is_empty() {
                    let old: Vec<SectorOnChainInfo> =
                        active.iter().map(|n| m.sectors[n].clone()).collect();
                    let new_exp_add = rng.gen_range(1..4) * PERIOD;
                    let new: Vec<SectorOnChainInfo> = old
                        .iter()
                        .map(|s| {
                            let mut s = s.clone();
                            s.expiration += new_exp_add;
                            if s.daily_fee.is_zero() {
                                s.daily_fee = TokenAmount::from_atto(7);
                            }
                            s
                        })
                        .collect();
                    log.push(format!("k={k} extend {:?} by {new_exp_add}", active));
                    let (pd, _pl, fd) =
                        p.replace_sectors(store, &old, &new, SECTOR_SIZE, QUANT).unwrap();
                    parts.set(pidx, p).unwrap();
                    dl.partitions = parts.flush().unwrap();
                    dl.live_power += &pd;
                    dl.daily_fee += &fd;
                    m.claimed += &pd;
                    for s in &new {
                        dl.add_expiration_partitions(store, s.expiration, &[pidx], QUANT).unwrap();
                        m.sectors.insert(s.sector_number, s.clone());
                    }
                    check(&rt, &dl, &m, "extend", &log);
                }
            }
        } else {
            // the challenge window: some PoSts, then the deadline end
            let count = dl.partitions_amt(store).unwrap().count();
            let n_posts = rng.gen_range(0..3);
            for _ in 0..n_posts {
                if count == 0 {
                    break;
                }
                let mut posts = vec![];
                for idx in 0..count {
                    if rng.gen_bool(0.5) && !dl.partitions_posted.get(idx) {
                        let p = dl.load_partition(store, idx).unwrap();
                        let skipped: Vec<u64> =
                            p.sectors.iter().filter(|_| rng.gen_bool(0.15)).collect();
                        posts.push(PoStPartition { index: idx, skipped: bf(skipped) });
                    }
                }
                if posts.is_empty() {
                    continue;
                }
                let sa = sectors_arr(&m);
                let mut trial = clone_deadline(&dl);
                let desc: Vec<(u64, Vec<u64>)> =
                    posts.iter().map(|p| (p.index, p.skipped.iter().collect())).collect();
                let res = trial
                    .record_proven_sectors(store, &sa, SECTOR_SIZE, QUANT, fault_exp, &mut posts)
                    .unwrap();
                let proven = &res.sectors - &res.ignored_sectors;
                if proven.is_empty() {
                    continue; // the actor aborts
                }
                log.push(format!("k={k} post {:?}", desc));
                dl = trial;
                m.claimed += &res.power_delta;
                check(&rt, &dl, &m, "post", &log);
            }
            // deadline end
            log.push(format!("k={k} deadline end at {last}"));
            let sa = sectors_arr(&m);
            let mut sa = sa;
            let root = sa.amt.flush().unwrap();
            let (delta, _pen) = dl.process_deadline_end(store, QUANT, fault_exp, root).unwrap();
            m.claimed += &delta;
            check(&rt, &dl, &m, "process_deadline_end", &log);
            let expired = dl.pop_expired_sectors(store, last, QUANT).unwrap();
            m.claimed -= &expired.active_power;
            m.pledge -= &expired.on_time_pledge;
            let mut on_time_pledge = TokenAmount::zero();
            for n in expired.on_time_sectors.iter() {
                on_time_pledge += &m.sectors[&n].initial_pledge;
            }
            assert_eq!(on_time_pledge, expired.on_time_pledge, "on time pledge\n{}", log.join("\n"));
            check(&rt, &dl, &m, "pop_expired", &log);
            k += 1;
        }

        // pledge model: live sectors + early terminated but unprocessed
        let mut expect = TokenAmount::zero();
        dl.for_each(store, |_, p| {
            for n in p.live_sectors().iter() {
                expect += &m.sectors[&n].initial_pledge;
            }
            let q = fil_actor_miner::BitFieldQueue::new(
                store,
                &p.early_terminated,
                fil_actor_miner::NO_QUANTIZATION,
            )
            .unwrap();
            q.amt
                .for_each(|_, b| {
                    for n in b.iter() {
                        expect += &m.sectors[&n].initial_pledge;
                    }
                    Ok(())
                })
                .unwrap();
            Ok(())
        })
        .unwrap();
        assert_eq!(expect, m.pledge, "pledge model mismatch\n{}", log.join("\n"));
    }
}

fn clone_deadline(d: &Deadline) -> Deadline {
    Deadline {
        partitions: d.partitions,
        expirations_epochs: d.expirations_epochs,
        partitions_posted: d.partitions_posted.clone(),
        early_terminations: d.early_terminations.clone(),
        live_sectors: d.live_sectors,
        total_sectors: d.total_sectors,
        faulty_power: d.faulty_power.clone(),
        optimistic_post_submissions: d.optimistic_post_submissions,
        sectors_snapshot: d.sectors_snapshot,
        partitions_snapshot: d.partitions_snapshot,
        optimistic_post_submissions_snapshot: d.optimistic_post_submissions_snapshot,
        live_power: d.live_power.clone(),
        daily_fee: d.daily_fee.clone(),
    }
}

#[test]
fn audit_e_deadline_random_sequences() {
    let seeds: u64 = std::env::var("AUDIT_E_SEEDS").ok().and_then(|s| s.parse().ok()).unwrap_or(200);
    let steps: usize = std::env::var("AUDIT_E_STEPS").ok().and_then(|s| s.parse().ok()).unwrap_or(150);
    for seed in 0..seeds {
        run(seed, steps);
    }
    let _ = power_for_sectors(SECTOR_SIZE, &[]);
    let _: Option<Sectors<'_, fvm_ipld_blockstore::MemoryBlockstore>> = None;
}
