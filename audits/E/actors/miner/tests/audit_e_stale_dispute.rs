// Audit E: a VALID optimistically accepted Window PoSt can be "successfully" disputed one (or
// more) proving periods later, against the challenge randomness of a deadline instance it was
// never submitted for, once the miner's deadline cron has stopped.
//
// The dispute window check (`deadline_available_for_optimistic_post_dispute`) is purely a
// function of the current epoch. The proof snapshot of a deadline is only rotated by the deadline
// cron. When the cron stops (no pledge, no deposits, no vesting funds: e.g. the miner's last
// sectors have just expired or been terminated) the snapshots taken in the last proving period
// stay in state, and every later occurrence of the deadline re-opens a "dispute window" for them.
// DisputeWindowedPoSt then verifies the old proof against the challenge epoch of the most recent
// occurrence of the deadline, which cannot succeed for an honest proof, and penalises the miner.

use fil_actor_miner as miner;
use fil_actor_miner::{
    new_deadline_info, pledge_penalty_for_continued_fault, pledge_penalty_for_termination,
    qa_power_for_sector,
};
use fil_actor_miner::{Actor, Method, SectorOnChainInfo, TerminateSectorsParams, TerminationDeclaration};
use fil_actor_power::{Method as PowerMethod, UpdateClaimedPowerParams};
use fil_actors_runtime::test_utils::{ACCOUNT_ACTOR_CODE_ID, MockRuntime};
use fil_actors_runtime::{BURNT_FUNDS_ACTOR_ADDR, STORAGE_POWER_ACTOR_ADDR};
use fvm_ipld_encoding::ipld_block::IpldBlock;
use fvm_shared::METHOD_SEND;
use fvm_shared::clock::ChainEpoch;
use fvm_shared::econ::TokenAmount;
use fvm_shared::error::ExitCode;
use fvm_shared::sector::RegisteredSealProof;
use num_traits::Zero;
use std::ops::Neg;

mod util;
use util::*;

const DEFAULT_SECTOR_EXPIRATION: u64 = 220;

// TerminateSectors for one active sector of a miner that has no vesting funds: the fee is burnt
// from the balance and the pledge is released.
fn terminate_without_vesting_funds(
    h: &ActorHarness,
    rt: &MockRuntime,
    sector: &SectorOnChainInfo,
    deadline: u64,
    partition: u64,
    fee: TokenAmount,
) {
    rt.set_caller(*ACCOUNT_ACTOR_CODE_ID, h.worker);
    rt.expect_validate_caller_addr(h.caller_addrs());
    h.expect_query_network_info(rt);
    rt.expect_send_simple(BURNT_FUNDS_ACTOR_ADDR, METHOD_SEND, None, fee, None, ExitCode::OK);
    rt.expect_send_simple(
        STORAGE_POWER_ACTOR_ADDR,
        PowerMethod::UpdatePledgeTotal as u64,
        IpldBlock::serialize_cbor(&sector.initial_pledge.clone().neg()).unwrap(),
        TokenAmount::zero(),
        None,
        ExitCode::OK,
    );
    expect_event(rt, "sector-terminated", &sector.sector_number);
    let pwr = miner::power_for_sector(h.sector_size, sector);
    rt.expect_send_simple(
        STORAGE_POWER_ACTOR_ADDR,
        PowerMethod::UpdateClaimedPower as u64,
        IpldBlock::serialize_cbor(&UpdateClaimedPowerParams {
            raw_byte_delta: -pwr.raw,
            quality_adjusted_delta: -pwr.qa,
        })
        .unwrap(),
        TokenAmount::zero(),
        None,
        ExitCode::OK,
    );
    let params = TerminateSectorsParams {
        terminations: vec![TerminationDeclaration {
            deadline,
            partition,
            sectors: make_bitfield(&[sector.sector_number]),
        }],
    };
    rt.call::<Actor>(Method::TerminateSectors as u64, IpldBlock::serialize_cbor(&params).unwrap())
        .unwrap();
    rt.verify();
}

#[test]
fn audit_e_valid_post_is_disputable_in_a_later_period_after_the_cron_stopped() {
    let period_offset = ChainEpoch::from(100);
    let precommit_epoch = ChainEpoch::from(1);

    let mut h = ActorHarness::new(period_offset);
    h.set_proof_type(RegisteredSealProof::StackedDRG2KiBV1P1);
    let rt = h.new_runtime();
    rt.epoch.replace(precommit_epoch);
    rt.balance.replace(BIG_BALANCE.clone());
    h.construct_and_verify(&rt);

    let sectors = h.commit_and_prove_sectors(&rt, 1, DEFAULT_SECTOR_EXPIRATION, vec![], true);
    let sector = sectors[0].clone();
    let pwr = miner::power_for_sector(h.sector_size, &sector);

    // The miner proves the sector in its deadline: an honest, optimistically accepted PoSt.
    let state = h.get_state(&rt);
    let (dlidx, pidx) = state.find_sector(&rt.store, sector.sector_number).unwrap();
    let dlinfo = h.advance_to_deadline(&rt, dlidx);
    h.submit_window_post(
        &rt,
        &dlinfo,
        vec![miner::PoStPartition { index: pidx, skipped: make_empty_bitfield() }],
        vec![sector.clone()],
        PoStConfig::with_expected_power_delta(&pwr),
    );
    let burnt_funds = miner::daily_fee_for_sectors(&sectors);
    h.advance_deadline(&rt, CronConfig { burnt_funds, ..Default::default() });
    h.check_state(&rt);

    // In the genuine dispute window the proof verifies and the dispute is rejected.
    h.dispute_window_post(&rt, &dlinfo, 0, &[sector.clone()], None);

    // The miner winds down: it terminates its only sector (paying the termination fee).
    // (Letting the sector expire on time at this deadline's end has the same effect.)
    let epoch = *rt.epoch.borrow();
    let fault_fee = pledge_penalty_for_continued_fault(
        &h.epoch_reward_smooth,
        &h.epoch_qa_power_smooth,
        &qa_power_for_sector(h.sector_size, &sector),
    );
    let fee =
        pledge_penalty_for_termination(&sector.initial_pledge, epoch - sector.activation, &fault_fee);
    terminate_without_vesting_funds(&h, &rt, &sector, dlidx, pidx, fee);

    // With no pledge, deposits or vesting funds the next deadline cron is the last one.
    let cur = h.get_state(&rt).deadline_info(&rt.policy, *rt.epoch.borrow());
    rt.set_epoch(cur.last());
    h.on_deadline_cron(&rt, CronConfig { no_enrollment: true, ..CronConfig::empty() });
    let st = h.get_state(&rt);
    assert!(!st.deadline_cron_active);
    h.check_state(&rt);

    // The proof is still in the snapshot of the deadline.
    let dl = h.get_deadline(&rt, dlidx);
    let posts = amt_to_vec::<miner::WindowedPoSt>(&rt, &dl.optimistic_post_submissions_snapshot);
    assert_eq!(posts.len(), 1);

    // Three proving periods later, just after the deadline's occurrence in that period closed:
    // far outside the dispute window of the occurrence the proof was submitted for.
    let periods_later = 3;
    let later = new_deadline_info(
        &rt.policy,
        dlinfo.period_start + periods_later * rt.policy.wpost_proving_period,
        dlidx,
        0,
    );
    let now = later.close + 5;
    assert!(now > dlinfo.close + rt.policy.wpost_dispute_window);
    rt.set_epoch(now);
    let target = new_deadline_info(&rt.policy, later.period_start, dlidx, now);
    assert_ne!(target.challenge, dlinfo.challenge);
    println!(
        "proof submitted for the deadline occurrence with challenge epoch {}, dispute at {} is verified against challenge epoch {}",
        dlinfo.challenge, now, target.challenge
    );

    // The harness expects the actor to draw the challenge randomness at `target.challenge` (the
    // later occurrence) and lets proof verification fail, as it must for a proof made for another
    // challenge. The dispute succeeds: the honest miner is fined and the disputer is rewarded.
    let expected_fee = miner::pledge_penalty_for_invalid_windowpost(
        &h.epoch_reward_smooth,
        &h.epoch_qa_power_smooth,
        &pwr.qa,
    );
    let balance_before = rt.get_balance();
    h.dispute_window_post(
        &rt,
        &target,
        0,
        &[sector.clone()],
        Some(PoStDisputeResult {
            expected_power_delta: None,
            expected_penalty: Some(expected_fee.clone()),
            expected_reward: Some(miner::BASE_REWARD_FOR_DISPUTED_WINDOW_POST.clone()),
            expected_pledge_delta: None,
        }),
    );
    let balance_after = rt.get_balance();
    println!(
        "honest miner lost {} (burnt {} + reward to the disputer {})",
        &balance_before - &balance_after,
        expected_fee,
        miner::BASE_REWARD_FOR_DISPUTED_WINDOW_POST.clone()
    );
    assert!(balance_after < balance_before);
}

// The same, without any termination: the miner's only sector reaches the end of its committed
// life. The final, honest PoSt is snapshotted by the very cron tick that expires the sector and
// stops the cron, so the snapshot is never rotated.
#[test]
fn audit_e_valid_final_post_is_disputable_after_sector_expired_on_time() {
    let period_offset = ChainEpoch::from(100);
    let precommit_epoch = ChainEpoch::from(1);

    let mut h = ActorHarness::new(period_offset);
    h.set_proof_type(RegisteredSealProof::StackedDRG2KiBV1P1);
    let rt = h.new_runtime();
    rt.epoch.replace(precommit_epoch);
    rt.balance.replace(BIG_BALANCE.clone());
    h.construct_and_verify(&rt);

    let sectors = h.commit_and_prove_sectors(&rt, 1, DEFAULT_SECTOR_EXPIRATION, vec![], true);
    let sector = sectors[0].clone();
    let pwr = miner::power_for_sector(h.sector_size, &sector);
    let state = h.get_state(&rt);
    let (dlidx, pidx) = state.find_sector(&rt.store, sector.sector_number).unwrap();

    // Prove the sector in every proving period of its life.
    let mut first = true;
    let final_dlinfo = loop {
        let dlinfo = h.advance_to_deadline(&rt, dlidx);
        let power_delta = if first { pwr.clone() } else { miner::PowerPair::zero() };
        first = false;
        h.submit_window_post(
            &rt,
            &dlinfo,
            vec![miner::PoStPartition { index: pidx, skipped: make_empty_bitfield() }],
            vec![sector.clone()],
            PoStConfig::with_expected_power_delta(&power_delta),
        );
        if dlinfo.last() >= sector.expiration {
            break dlinfo;
        }
        let burnt_funds = miner::daily_fee_for_sectors(&sectors);
        h.advance_deadline(&rt, CronConfig { burnt_funds, ..Default::default() });
    };

    // The last cron tick: the sector expires on time, its pledge is released, nothing is left to
    // keep the cron alive.
    rt.set_epoch(final_dlinfo.last());
    h.on_deadline_cron(
        &rt,
        CronConfig {
            no_enrollment: true,
            power_delta: Some(-pwr.clone()),
            pledge_delta: -sector.initial_pledge.clone(),
            ..CronConfig::empty()
        },
    );
    let st = h.get_state(&rt);
    assert!(!st.deadline_cron_active);
    assert!(st.initial_pledge.is_zero());
    h.check_state(&rt);

    // In the genuine dispute window the proof verifies and the dispute is rejected.
    rt.set_epoch(final_dlinfo.close + 10);
    h.dispute_window_post(&rt, &final_dlinfo, 0, &[sector.clone()], None);

    // One proving period later the proof is still there and is checked against another challenge.
    let later = new_deadline_info(
        &rt.policy,
        final_dlinfo.period_start + rt.policy.wpost_proving_period,
        dlidx,
        0,
    );
    let now = later.close + 5;
    assert!(now > final_dlinfo.close + rt.policy.wpost_dispute_window);
    rt.set_epoch(now);
    let target = new_deadline_info(&rt.policy, later.period_start, dlidx, now);
    assert_ne!(target.challenge, final_dlinfo.challenge);

    let expected_fee = miner::pledge_penalty_for_invalid_windowpost(
        &h.epoch_reward_smooth,
        &h.epoch_qa_power_smooth,
        &pwr.qa,
    );
    let balance_before = rt.get_balance();
    h.dispute_window_post(
        &rt,
        &target,
        0,
        &[sector.clone()],
        Some(PoStDisputeResult {
            expected_power_delta: None,
            expected_penalty: Some(expected_fee.clone()),
            expected_reward: Some(miner::BASE_REWARD_FOR_DISPUTED_WINDOW_POST.clone()),
            expected_pledge_delta: None,
        }),
    );
    println!(
        "expired-sector variant: proof for challenge epoch {} disputed at {} against challenge epoch {}; miner lost {}",
        final_dlinfo.challenge,
        now,
        target.challenge,
        &balance_before - &rt.get_balance()
    );
}
