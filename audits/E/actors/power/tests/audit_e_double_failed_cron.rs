// Audit E (secondary, power actor): when two deferred cron callbacks of the SAME miner fail in one
// tick (e.g. its proving-deadline event and its early-termination event), the miner is pushed onto
// `failed_miner_crons` twice; `delete_claim` returns Ok for the already deleted claim and
// `miner_count` is decremented twice.

use fil_actor_power::ext::miner::{DeferredCronEventParams, ON_DEFERRED_CRON_EVENT_METHOD};
use fil_actor_power::ext::reward::UPDATE_NETWORK_KPI;
use fil_actor_power::{Actor as PowerActor, Method, State};
use fil_actors_runtime::test_utils::CRON_ACTOR_CODE_ID;
use fil_actors_runtime::{CRON_ACTOR_ADDR, REWARD_ACTOR_ADDR};
use fvm_ipld_encoding::RawBytes;
use fvm_ipld_encoding::ipld_block::IpldBlock;
use fvm_shared::address::Address;
use fvm_shared::bigint::BigInt;
use fvm_shared::bigint::bigint_ser::BigIntSer;
use fvm_shared::econ::TokenAmount;
use fvm_shared::error::ExitCode;
use num_traits::Zero;

use crate::harness::*;

mod harness;

const OWNER: Address = Address::new_id(103);

#[test]
fn audit_e_two_failed_callbacks_of_one_miner_decrement_miner_count_twice() {
    let (mut h, rt) = setup();
    rt.set_epoch(1);

    let miner1 = Address::new_id(101);
    let miner2 = Address::new_id(102);
    h.create_miner_basic(&rt, OWNER, OWNER, miner1).unwrap();
    h.create_miner_basic(&rt, OWNER, OWNER, miner2).unwrap();
    assert_eq!(h.miner_count(&rt), 2);

    // two events of miner1 due in the same epoch (a proving-deadline event and an
    // early-termination event look exactly like this to the power actor)
    h.enroll_cron_event(&rt, 2, &miner1, &RawBytes::from(vec![1u8])).unwrap();
    h.enroll_cron_event(&rt, 2, &miner1, &RawBytes::from(vec![2u8])).unwrap();

    rt.set_epoch(2);
    rt.expect_validate_caller_addr(vec![CRON_ACTOR_ADDR]);
    h.expect_query_network_info(&rt);

    let state: State = rt.get_state();
    for payload in [vec![1u8], vec![2u8]] {
        let input = IpldBlock::serialize_cbor(&DeferredCronEventParams {
            event_payload: payload,
            reward_smoothed: h.this_epoch_reward_smoothed.clone(),
            quality_adj_power_smoothed: state.this_epoch_qa_power_smoothed.clone(),
        })
        .unwrap();
        rt.expect_send_simple(
            miner1,
            ON_DEFERRED_CRON_EVENT_METHOD,
            input,
            TokenAmount::zero(),
            None,
            ExitCode::USR_ILLEGAL_STATE,
        );
    }
    rt.set_caller(*CRON_ACTOR_CODE_ID, CRON_ACTOR_ADDR);
    rt.expect_send_simple(
        REWARD_ACTOR_ADDR,
        UPDATE_NETWORK_KPI,
        IpldBlock::serialize_cbor(&BigIntSer(&BigInt::zero())).unwrap(),
        TokenAmount::zero(),
        None,
        ExitCode::OK,
    );
    rt.call::<PowerActor>(Method::OnEpochTickEnd as u64, None).unwrap();
    rt.verify();

    assert!(h.get_claim(&rt, &miner1).is_none());
    assert!(h.get_claim(&rt, &miner2).is_some());
    println!("miner_count after the tick: {} (one claim remains)", h.miner_count(&rt));
    // one miner remains, so the count must be 1
    assert_eq!(h.miner_count(&rt), 1, "miner_count must equal the number of claims");
}
