// Audit F: power actor handling of failed deferred cron callbacks.
//
// A miner may legitimately have more than one cron event due in the same tick
// (its proving-deadline event plus a "process early terminations" event, or events enrolled
// for two different epochs that are drained together). If both callbacks fail,
// process_deferred_cron_events pushes the same address twice into `failed_miner_crons`;
// the second `delete_claim` is a no-op returning Ok(()) and `miner_count` is decremented twice.

use fil_actors_runtime::runtime::Policy;
use fil_actors_runtime::test_utils::CRON_ACTOR_CODE_ID;
use fil_actors_runtime::{CRON_ACTOR_ADDR, REWARD_ACTOR_ADDR};
use fvm_ipld_encoding::RawBytes;
use fvm_ipld_encoding::ipld_block::IpldBlock;
use fvm_shared::address::Address;
use fvm_shared::bigint::BigInt;
use fvm_shared::bigint::bigint_ser::BigIntSer;
use fvm_shared::econ::TokenAmount;
use fvm_shared::error::ExitCode;
use fvm_shared::sector::RegisteredPoStProof;
use num_traits::Zero;

use fil_actor_power::ext::miner::{DeferredCronEventParams, ON_DEFERRED_CRON_EVENT_METHOD};
use fil_actor_power::ext::reward::UPDATE_NETWORK_KPI;
use fil_actor_power::{
    Actor as PowerActor, ClaimsMap, Method, State, CLAIMS_CONFIG, consensus_miner_min_power,
};

use crate::harness::*;

mod harness;

fn claims_len(rt: &fil_actors_runtime::test_utils::MockRuntime) -> i64 {
    let st: State = rt.get_state();
    let claims = ClaimsMap::load(&rt.store, &st.claims, CLAIMS_CONFIG, "claims").unwrap();
    let mut n = 0;
    claims
        .for_each(|_, _| {
            n += 1;
            Ok(())
        })
        .unwrap();
    n
}

/// Two events of the same miner fail in one tick: the miner count is decremented twice although
/// only one claim existed and was removed.
#[test]
fn audit_f_two_failed_callbacks_of_one_miner_decrement_miner_count_twice() {
    let (mut h, rt) = setup();
    rt.set_epoch(1);

    let miner1 = Address::new_id(101);
    let miner2 = Address::new_id(102);

    h.create_miner_basic(&rt, *OWNER, *OWNER, miner1).unwrap();
    h.create_miner_basic(&rt, *OWNER, *OWNER, miner2).unwrap();
    assert_eq!(h.miner_count(&rt), 2);
    assert_eq!(claims_len(&rt), 2);

    // miner1 has two events due at epoch 2 (e.g. proving deadline + early terminations),
    // miner2 has one.
    h.enroll_cron_event(&rt, 2, &miner1, &RawBytes::default()).unwrap();
    h.enroll_cron_event(&rt, 2, &miner1, &RawBytes::default()).unwrap();
    h.enroll_cron_event(&rt, 2, &miner2, &RawBytes::default()).unwrap();

    let raw_power = consensus_miner_min_power(
        &Policy::default(),
        RegisteredPoStProof::StackedDRGWindow32GiBV1P1,
    )
    .unwrap();
    h.update_claimed_power(&rt, miner1, &raw_power, &raw_power);

    rt.set_epoch(2);
    rt.expect_validate_caller_addr(vec![CRON_ACTOR_ADDR]);
    h.expect_query_network_info(&rt);

    let state: State = rt.get_state();
    let input = IpldBlock::serialize_cbor(&DeferredCronEventParams {
        event_payload: Vec::new(),
        reward_smoothed: h.this_epoch_reward_smoothed.clone(),
        quality_adj_power_smoothed: state.this_epoch_qa_power_smoothed,
    })
    .unwrap();

    // both callbacks of miner1 fail
    for _ in 0..2 {
        rt.expect_send_simple(
            miner1,
            ON_DEFERRED_CRON_EVENT_METHOD,
            input.clone(),
            TokenAmount::zero(),
            None,
            ExitCode::USR_ILLEGAL_STATE,
        );
    }
    // miner2 succeeds
    rt.expect_send_simple(
        miner2,
        ON_DEFERRED_CRON_EVENT_METHOD,
        input,
        TokenAmount::zero(),
        None,
        ExitCode::OK,
    );
    rt.set_caller(*CRON_ACTOR_CODE_ID, CRON_ACTOR_ADDR);
    rt.expect_send_simple(
        REWARD_ACTOR_ADDR,
        UPDATE_NETWORK_KPI,
        IpldBlock::serialize_cbor(&BigIntSer(&BigInt::zero())).unwrap(),
        TokenAmount::zero(),
        None,
        ExitCode::OK,
    );
    rt.call::<PowerActor>(Method::OnEpochTickEnd as u64, None).unwrap();
    rt.verify();

    // miner1's claim is removed, miner2's remains.
    assert!(h.get_claim(&rt, &miner1).is_none());
    assert!(h.get_claim(&rt, &miner2).is_some());
    assert_eq!(claims_len(&rt), 1);

    let count = h.miner_count(&rt);
    println!("claims in table = {}, State.miner_count = {}", claims_len(&rt), count);
    // EXPECTED (correct behaviour): exactly one miner was removed.
    assert_eq!(count, 1, "miner_count {} does not match the number of claims 1", count);
}

/// Same with three failing events for the only miner: the count goes negative.
#[test]
fn audit_f_miner_count_goes_negative() {
    let (mut h, rt) = setup();
    rt.set_epoch(1);
    let miner1 = Address::new_id(101);
    h.create_miner_basic(&rt, *OWNER, *OWNER, miner1).unwrap();
    // events enrolled for different epochs, drained in one tick at epoch 3 is not needed:
    // simply two events at the same epoch.
    h.enroll_cron_event(&rt, 2, &miner1, &RawBytes::default()).unwrap();
    h.enroll_cron_event(&rt, 2, &miner1, &RawBytes::default()).unwrap();

    rt.set_epoch(2);
    rt.expect_validate_caller_addr(vec![CRON_ACTOR_ADDR]);
    h.expect_query_network_info(&rt);
    let state: State = rt.get_state();
    let input = IpldBlock::serialize_cbor(&DeferredCronEventParams {
        event_payload: Vec::new(),
        reward_smoothed: h.this_epoch_reward_smoothed.clone(),
        quality_adj_power_smoothed: state.this_epoch_qa_power_smoothed,
    })
    .unwrap();
    for _ in 0..2 {
        rt.expect_send_simple(
            miner1,
            ON_DEFERRED_CRON_EVENT_METHOD,
            input.clone(),
            TokenAmount::zero(),
            None,
            ExitCode::USR_ILLEGAL_STATE,
        );
    }
    rt.set_caller(*CRON_ACTOR_CODE_ID, CRON_ACTOR_ADDR);
    rt.expect_send_simple(
        REWARD_ACTOR_ADDR,
        UPDATE_NETWORK_KPI,
        IpldBlock::serialize_cbor(&BigIntSer(&BigInt::zero())).unwrap(),
        TokenAmount::zero(),
        None,
        ExitCode::OK,
    );
    rt.call::<PowerActor>(Method::OnEpochTickEnd as u64, None).unwrap();
    rt.verify();

    let count = h.miner_count(&rt);
    println!("claims in table = {}, State.miner_count = {}", claims_len(&rt), count);
    assert!(count >= 0, "miner_count is negative: {}", count);
}
