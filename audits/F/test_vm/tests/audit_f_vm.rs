// Audit F: TestVM scenarios around the power / reward / cron actors.
use fil_actor_miner::{
    MIN_SECTOR_EXPIRATION, Method as MinerMethod, State as MinerState, max_prove_commit_duration,
};
use fil_actor_power::{
    CreateMinerParams, CreateMinerReturn, Method as PowerMethod, State as PowerState,
};
use fil_actor_reward::{AwardBlockRewardParams, Method as RewardMethod};
use fil_actors_integration_tests::util::{
    PrecommitMetadata, check_invariants, create_accounts, create_miner,
    create_miner_deposit_for_test, cron_tick, miner_dline_info, miner_precommit_one_sector_v2,
};
use fil_actors_runtime::runtime::Policy;
use fil_actors_runtime::test_blockstores::MemoryBlockstore;
use fil_actors_runtime::{REWARD_ACTOR_ADDR, STORAGE_POWER_ACTOR_ADDR, SYSTEM_ACTOR_ADDR};
use fvm_ipld_encoding::BytesDe;
use fvm_ipld_encoding::ipld_block::IpldBlock;
use fvm_shared::address::Address;
use fvm_shared::econ::TokenAmount;
use fvm_shared::sector::{RegisteredPoStProof, RegisteredSealProof};
use num_traits::Zero;
use test_vm::TestVM;
use vm_api::VM;
use vm_api::util::{DynBlockstore, apply_ok, apply_ok_implicit, get_state};

fn power_state(v: &dyn VM) -> PowerState {
    get_state(v, &STORAGE_POWER_ACTOR_ADDR).unwrap()
}

fn has_claim(v: &dyn VM, miner: &Address) -> bool {
    let st = power_state(v);
    st.get_claim(&DynBlockstore::wrap(v.blockstore()), miner).unwrap().is_some()
}

/// Creates a miner through the power actor WITHOUT the integration-test helper's
/// "reset create miner deposit vesting funds" state surgery.
fn create_miner_raw(v: &dyn VM, owner: &Address, extra: &TokenAmount) -> (Address, TokenAmount) {
    let deposit = create_miner_deposit_for_test(v);
    let params = CreateMinerParams {
        owner: *owner,
        worker: *owner,
        window_post_proof_type: RegisteredPoStProof::StackedDRGWindow32GiBV1P1,
        peer: "miner".as_bytes().to_vec(),
        multiaddrs: vec![BytesDe("multiaddr".as_bytes().to_vec())],
    };
    let ret = v
        .execute_message(
            owner,
            &STORAGE_POWER_ACTOR_ADDR,
            &(&deposit + extra),
            PowerMethod::CreateMiner as u64,
            Some(IpldBlock::serialize_cbor(&params).unwrap().unwrap()),
        )
        .unwrap();
    assert!(ret.code.is_success(), "create miner failed: {}", ret.message);
    let res: CreateMinerReturn = ret.ret.unwrap().deserialize().unwrap();
    (res.id_address, deposit)
}

/// Consequence of the (known) create-miner deposit gap, shown end to end: on a network whose
/// pledge total is smaller than the vested part of the deposit, the miner's own proving-deadline
/// cron callback fails in UpdatePledgeTotal ("negative total pledge collateral"), and the power
/// actor deletes the miner's claim.
#[test]
fn audit_f_deposit_vesting_fails_cron_and_deletes_claim() {
    let store = MemoryBlockstore::new();
    let v = TestVM::new_with_singletons(store);
    let addrs = create_accounts(&v, 1, &TokenAmount::from_whole(100_000));
    let owner = addrs[0];

    let (miner, deposit) = create_miner_raw(&v, &owner, &TokenAmount::from_whole(1_000));
    println!("create-miner deposit = {}", deposit);
    assert!(deposit.is_positive());
    let mst: MinerState = get_state(&v, &miner).unwrap();
    assert_eq!(mst.locked_funds, deposit);
    assert!(!mst.deadline_cron_active);
    assert_eq!(power_state(&v).total_pledge_collateral, TokenAmount::zero());

    // Pre-commit one sector: this activates the deadline cron.
    let seal_proof = RegisteredSealProof::StackedDRG32GiBV1P1;
    miner_precommit_one_sector_v2(
        &v,
        &owner,
        &miner,
        seal_proof,
        100,
        PrecommitMetadata::default(),
        true,
        v.epoch()
            + MIN_SECTOR_EXPIRATION
            + max_prove_commit_duration(&Policy::default(), seal_proof).unwrap()
            + 100,
    );
    let mst: MinerState = get_state(&v, &miner).unwrap();
    assert!(mst.deadline_cron_active);
    assert!(has_claim(&v, &miner));

    // Tick cron every epoch for two days.
    let start = v.epoch();
    let mut lost_at = None;
    for e in start..start + 2 * 2880 + 200 {
        v.set_epoch(e);
        cron_tick(&v);
        if !has_claim(&v, &miner) {
            lost_at = Some(e);
            break;
        }
    }
    let mst: MinerState = get_state(&v, &miner).unwrap();
    println!(
        "claim lost at epoch {:?} (created at {}), miner locked_funds={} pcd={} cron_active={} total_pledge={}",
        lost_at,
        start,
        mst.locked_funds,
        mst.pre_commit_deposits,
        mst.deadline_cron_active,
        power_state(&v).total_pledge_collateral
    );
    if lost_at.is_some() {
        // The frozen miner can no longer withdraw anything: every withdrawal first unlocks vested
        // funds and reports them with UpdatePledgeTotal, which now rejects the claim-less miner.
        let bal_before = v.balance(&miner);
        let res = v
            .execute_message(
                &owner,
                &miner,
                &TokenAmount::zero(),
                MinerMethod::WithdrawBalance as u64,
                Some(
                    IpldBlock::serialize_cbor(&fil_actor_miner::WithdrawBalanceParams {
                        amount_requested: TokenAmount::from_whole(1),
                    })
                    .unwrap()
                    .unwrap(),
                ),
            )
            .unwrap();
        println!(
            "withdraw 1 FIL from frozen miner (balance {}): exit code {} ({})",
            bal_before, res.code, res.message
        );
    }
    assert!(lost_at.is_none(), "miner lost its power claim through a failed cron callback");
}

/// ApplyRewards locks vesting funds but never (re)starts the deadline cron.
#[test]
fn audit_f_apply_rewards_does_not_start_deadline_cron() {
    let store = MemoryBlockstore::new();
    let v = TestVM::new_with_singletons(store);
    let addrs = create_accounts(&v, 1, &TokenAmount::from_whole(100_000));
    let owner = addrs[0];
    // helper resets the create-miner deposit: LF == 0, cron inactive.
    let (miner, _) = create_miner(
        &v,
        &owner,
        &owner,
        RegisteredPoStProof::StackedDRGWindow32GiBV1P1,
        &TokenAmount::from_whole(1_000),
    );
    let mst: MinerState = get_state(&v, &miner).unwrap();
    assert!(mst.locked_funds.is_zero());
    assert!(!mst.deadline_cron_active);

    v.set_epoch(10);
    let params = AwardBlockRewardParams {
        miner,
        penalty: TokenAmount::zero(),
        gas_reward: TokenAmount::zero(),
        win_count: 1,
    };
    apply_ok_implicit(
        &v,
        &SYSTEM_ACTOR_ADDR,
        &REWARD_ACTOR_ADDR,
        &TokenAmount::zero(),
        RewardMethod::AwardBlockReward as u64,
        Some(params),
    );
    let mst: MinerState = get_state(&v, &miner).unwrap();
    println!(
        "after AwardBlockReward: locked_funds={} cron_active={} power total pledge={}",
        mst.locked_funds,
        mst.deadline_cron_active,
        power_state(&v).total_pledge_collateral
    );
    assert!(mst.locked_funds.is_positive());

    let acc = check_invariants(&v, &Policy::default(), None).unwrap();
    println!("invariant messages: {:?}", acc.messages());
    let _ = miner_dline_info(&v, &miner);
    let _ = (MinerMethod::ApplyRewards as u64, apply_ok::<u8>);
    assert!(
        mst.deadline_cron_active,
        "miner has vesting funds but no pending proving-deadline callback"
    );
}

/// After the deadline cron is (re)activated more than one proving period after the recorded
/// proving period start, the first callbacks only refresh `current_deadline`; `proving_period_start`
/// stays stale until the index wraps to 0, so the recorded deadline does not contain the next epoch.
#[test]
fn audit_f_recorded_deadline_stale_after_cron_activation() {
    let store = MemoryBlockstore::new();
    let v = TestVM::new_with_singletons(store);
    let policy = Policy::default();
    let addrs = create_accounts(&v, 1, &TokenAmount::from_whole(100_000));
    let owner = addrs[0];
    let (miner, _) = create_miner(
        &v,
        &owner,
        &owner,
        RegisteredPoStProof::StackedDRGWindow32GiBV1P1,
        &TokenAmount::from_whole(1_000),
    );
    // three proving periods pass with the cron inactive (no funds locked).
    v.set_epoch(3 * policy.wpost_proving_period + 7);
    let seal_proof = RegisteredSealProof::StackedDRG32GiBV1P1;
    miner_precommit_one_sector_v2(
        &v,
        &owner,
        &miner,
        seal_proof,
        100,
        PrecommitMetadata::default(),
        true,
        v.epoch()
            + MIN_SECTOR_EXPIRATION
            + max_prove_commit_duration(&policy, seal_proof).unwrap()
            + 100,
    );
    let mut stale_ticks = 0;
    let mut total_ticks = 0;
    let start = v.epoch();
    for e in start..start + policy.wpost_proving_period + 200 {
        v.set_epoch(e);
        cron_tick(&v);
        let mst: MinerState = get_state(&v, &miner).unwrap();
        assert!(mst.deadline_cron_active);
        let next = e + 1;
        let recorded = mst.recorded_deadline_info(&policy, next);
        let actual = mst.deadline_info(&policy, next);
        // only look at ticks after the first callback fired
        if e >= miner_first_cron(&v, &miner, start, &policy) {
            total_ticks += 1;
            if !(recorded.open <= next && next < recorded.close) {
                if stale_ticks == 0 {
                    println!(
                        "after tick {}: recorded pp_start={} idx={} open={} close={}; actual pp_start={} idx={} open={} close={}",
                        e,
                        mst.proving_period_start,
                        mst.current_deadline,
                        recorded.open,
                        recorded.close,
                        actual.period_start,
                        actual.index,
                        actual.open,
                        actual.close
                    );
                }
                stale_ticks += 1;
            }
        }
    }
    println!("{} of {} ticks left a recorded deadline not containing the next epoch", stale_ticks, total_ticks);
    assert_eq!(stale_ticks, 0);
}

fn miner_first_cron(v: &dyn VM, miner: &Address, start: i64, policy: &Policy) -> i64 {
    let mst: MinerState = get_state(v, miner).unwrap();
    mst.deadline_info(policy, start).last()
}
