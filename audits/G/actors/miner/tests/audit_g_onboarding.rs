// Audit G: onboarding / update paths. New tests demonstrating findings; no source changed.
use std::panic::{AssertUnwindSafe, catch_unwind};

use fvm_ipld_bitfield::BitField;
use fvm_ipld_encoding::RawBytes;
use fvm_ipld_encoding::ipld_block::IpldBlock;
use fvm_shared::bigint::BigInt;
use fvm_shared::clock::ChainEpoch;
use fvm_shared::error::ExitCode;
use fvm_shared::piece::PieceInfo;
use fvm_shared::sector::{RegisteredSealProof, ReplicaUpdateInfo, SectorNumber};
use num_traits::Zero;

use fil_actor_miner::{
    Actor, CompactCommD, Method, PieceActivationManifest, ProveReplicaUpdates3Params,
    ProveReplicaUpdates3Return, SectorOnChainInfo, SectorUpdateManifest, State, power_for_sector,
};
use fil_actors_runtime::runtime::RuntimePolicy;
use fil_actors_runtime::test_utils::*;
use fil_actors_runtime::{EPOCHS_IN_DAY, runtime::Runtime};
use util::*;

mod util;

const PERIOD_OFFSET: ChainEpoch = 100;

fn noop() -> impl FnMut(&mut fil_actor_miner::SectorNIActivationInfo, usize) -> bool {
    |_, _| false
}

// ---------------------------------------------------------------------------------------------
// Finding 1: ProveCommitSectorsNI never checks that the NI seal proof type belongs to the miner's
// sector size / window PoSt proof type.
// ---------------------------------------------------------------------------------------------

// A 64 GiB miner onboards sectors sealed with the *32 GiB* NI-PoRep proof. Every such sector is
// stored with seal_proof = StackedDRG32GiBV1P2_Feat_NiPoRep but is credited 64 GiB of power.
#[test]
fn ni_accepts_seal_proof_of_a_different_sector_size() {
    let mut h = ActorHarness::new(PERIOD_OFFSET);
    h.set_proof_type(RegisteredSealProof::StackedDRG64GiBV1P1);
    let rt = h.new_runtime();
    rt.balance.replace(BIG_BALANCE.clone());
    let miner = rt.receiver.id().unwrap();
    let policy = rt.policy();

    let seal_randomness_epoch = PERIOD_OFFSET + 1;
    let activation_epoch = seal_randomness_epoch + 400;
    let expiration = activation_epoch + policy.min_sector_expiration + 1;

    rt.set_epoch(seal_randomness_epoch);
    h.construct_and_verify(&rt);
    let info = h.get_info(&rt);
    assert_eq!(64u64 << 30, info.sector_size as u64);

    rt.set_epoch(activation_epoch);
    let sector_nums: Vec<SectorNumber> = vec![0, 1];
    // make_prove_commit_ni_params uses StackedDRG32GiBV1P2_Feat_NiPoRep.
    let params =
        h.make_prove_commit_ni_params(miner, &sector_nums, seal_randomness_epoch, expiration, 10);
    assert_eq!(RegisteredSealProof::StackedDRG32GiBV1P2_Feat_NiPoRep, params.seal_proof_type);
    assert_eq!(32u64 << 30, params.seal_proof_type.sector_size().unwrap() as u64);
    assert_ne!(
        params.seal_proof_type.registered_window_post_proof().unwrap(),
        info.window_post_proof_type
    );

    // The harness expects the pledge for 2 x 64 GiB of power to be locked: the message succeeds.
    let res = h.prove_commit_sectors_ni(&rt, params, true, noop()).unwrap();
    assert!(res.activation_results.all_ok());

    // On-chain sectors carry the 32 GiB seal proof ...
    let s0 = h.get_sector(&rt, 0);
    assert_eq!(RegisteredSealProof::StackedDRG32GiBV1P2_Feat_NiPoRep, s0.seal_proof);
    assert_eq!(32u64 << 30, s0.seal_proof.sector_size().unwrap() as u64);
    // ... but the partition credits 64 GiB each.
    let (_, partition) = h.find_sector(&rt, 0);
    println!(
        "sector seal proof {:?} (size {}), partition live power raw {} for {} sectors",
        s0.seal_proof,
        s0.seal_proof.sector_size().unwrap() as u64,
        partition.live_power.raw,
        partition.sectors.len()
    );
    assert_eq!(BigInt::from(2u64 * (64u64 << 30)), partition.live_power.raw);
    // Power recomputed from the individual sectors' own proof types would be half of that.
    let recomputed: BigInt = [0u64, 1]
        .iter()
        .map(|n| {
            let s = h.get_sector(&rt, *n);
            power_for_sector(s.seal_proof.sector_size().unwrap(), &s).raw
        })
        .sum();
    assert_eq!(BigInt::from(2u64 * (32u64 << 30)), recomputed);
    assert_ne!(recomputed, partition.live_power.raw);
    // The built-in invariant checker does not notice.
    h.check_state(&rt);

    // First Window PoSt (accepted optimistically, never verified unless disputed) activates the
    // power: the harness expects UpdateClaimedPower(raw = qa = 2 x 64 GiB) to be sent to the power
    // actor for two sectors that were sealed as 32 GiB replicas.
    let sectors = vec![h.get_sector(&rt, 0), h.get_sector(&rt, 1)];
    h.advance_and_submit_posts(&rt, &sectors);
    let (dl, partition) = h.find_sector(&rt, 0);
    assert!(partition.unproven.is_empty());
    assert_eq!(BigInt::from(2u64 * (64u64 << 30)), partition.active_power().raw);
    assert_eq!(BigInt::from(2u64 * (64u64 << 30)), dl.live_power.raw);
    h.check_state(&rt);
}

// The reverse direction is accepted too (32 GiB miner, 64 GiB NI proof).
#[test]
fn ni_accepts_seal_proof_of_a_different_sector_size_reverse() {
    let h = ActorHarness::new(PERIOD_OFFSET);
    let rt = h.new_runtime();
    rt.balance.replace(BIG_BALANCE.clone());
    let miner = rt.receiver.id().unwrap();
    let policy = rt.policy();

    let seal_randomness_epoch = PERIOD_OFFSET + 1;
    let activation_epoch = seal_randomness_epoch + 400;
    let expiration = activation_epoch + policy.min_sector_expiration + 1;

    rt.set_epoch(seal_randomness_epoch);
    h.construct_and_verify(&rt);
    rt.set_epoch(activation_epoch);
    let mut params =
        h.make_prove_commit_ni_params(miner, &[7], seal_randomness_epoch, expiration, 10);
    params.seal_proof_type = RegisteredSealProof::StackedDRG64GiBV1P2_Feat_NiPoRep;
    let res = h.prove_commit_sectors_ni(&rt, params, true, noop()).unwrap();
    assert!(res.activation_results.all_ok());
    let s = h.get_sector(&rt, 7);
    assert_eq!(RegisteredSealProof::StackedDRG64GiBV1P2_Feat_NiPoRep, s.seal_proof);
    assert_eq!(32u64 << 30, h.get_info(&rt).sector_size as u64);
    h.check_state(&rt);
}

// ---------------------------------------------------------------------------------------------
// Finding 2: ProveCommitSectorsNI allocates the sector numbers of entries that FAILED validation.
// ---------------------------------------------------------------------------------------------
#[test]
fn ni_allocates_sector_numbers_of_rejected_entries() {
    let h = ActorHarness::new(PERIOD_OFFSET);
    let rt = h.new_runtime();
    rt.balance.replace(BIG_BALANCE.clone());
    let miner = rt.receiver.id().unwrap();
    let policy = rt.policy();

    let seal_randomness_epoch = PERIOD_OFFSET + 1;
    let activation_epoch = seal_randomness_epoch + 400;
    let expiration = activation_epoch + policy.min_sector_expiration + 1;

    rt.set_epoch(seal_randomness_epoch);
    h.construct_and_verify(&rt);
    rt.set_epoch(activation_epoch);

    let mut params =
        h.make_prove_commit_ni_params(miner, &[10, 11], seal_randomness_epoch, expiration, 10);
    params.require_activation_success = false;
    // Entry 1 (sector 11) fails validation: its expiration is too short.
    let res = h
        .prove_commit_sectors_ni(&rt, params, true, |s, i| {
            if i == 1 {
                s.expiration = activation_epoch + 1;
                true
            } else {
                false
            }
        })
        .unwrap();
    assert_eq!(1, res.activation_results.success_count);

    let st: State = h.get_state(&rt);
    assert!(st.get_sector(&rt.store, 10).unwrap().is_some());
    assert!(st.get_sector(&rt.store, 11).unwrap().is_none()); // not activated ...
    let allocated: BitField =
        fvm_ipld_encoding::CborStore::get_cbor(&rt.store, &st.allocated_sectors).unwrap().unwrap();
    println!("allocated sector numbers: {:?}", allocated.iter().collect::<Vec<_>>());
    assert!(allocated.get(10));
    assert!(allocated.get(11)); // ... but its number is consumed for ever.

    // A later, fully valid, attempt to onboard sector 11 is refused.
    let params =
        h.make_prove_commit_ni_params(miner, &[11], seal_randomness_epoch, expiration, 10);
    let err = h.prove_commit_sectors_ni(&rt, params, false, noop()).unwrap_err();
    println!("retry of sector 11: {}", err);
    assert_eq!(ExitCode::USR_ILLEGAL_ARGUMENT, err.exit_code());
    assert!(err.msg().contains("already allocated"));
    h.check_state(&rt);
}

// A rejected entry whose number collides with an allocated number aborts the whole batch even when
// require_activation_success = false.
#[test]
fn ni_rejected_entry_with_allocated_number_aborts_partial_batch() {
    let h = ActorHarness::new(PERIOD_OFFSET);
    let rt = h.new_runtime();
    rt.balance.replace(BIG_BALANCE.clone());
    let miner = rt.receiver.id().unwrap();
    let policy = rt.policy();

    let seal_randomness_epoch = PERIOD_OFFSET + 1;
    let activation_epoch = seal_randomness_epoch + 400;
    let expiration = activation_epoch + policy.min_sector_expiration + 1;

    rt.set_epoch(seal_randomness_epoch);
    h.construct_and_verify(&rt);
    rt.set_epoch(activation_epoch);
    let params =
        h.make_prove_commit_ni_params(miner, &[10], seal_randomness_epoch, expiration, 10);
    h.prove_commit_sectors_ni(&rt, params, true, noop()).unwrap();

    let mut params =
        h.make_prove_commit_ni_params(miner, &[20, 10], seal_randomness_epoch, expiration, 10);
    params.require_activation_success = false;
    let err = h
        .prove_commit_sectors_ni(&rt, params, false, |s, i| {
            if i == 1 {
                s.expiration = activation_epoch + 1; // invalid anyway
                true
            } else {
                false
            }
        })
        .unwrap_err();
    println!("partial batch: {}", err);
    assert!(err.msg().contains("already allocated"));
}

// ---------------------------------------------------------------------------------------------
// Finding 3: ProveReplicaUpdates3 does not check that the sector has not reached its expiration.
// ---------------------------------------------------------------------------------------------

const FIRST_SECTOR_NUMBER: SectorNumber = 100;

fn expect_commd(
    rt: &MockRuntime,
    seal_proof_type: RegisteredSealProof,
    pieces: &[PieceActivationManifest],
) -> CompactCommD {
    let expected_inputs: Vec<PieceInfo> =
        pieces.iter().map(|p| PieceInfo { size: p.size, cid: p.cid }).collect();
    let unsealed_cid = sector_commd_from_pieces(&pieces.iter().map(|p| p.cid).collect::<Vec<_>>())
        .unwrap_nonzero_cid();
    rt.expect_compute_unsealed_sector_cid(
        seal_proof_type,
        expected_inputs,
        unsealed_cid,
        ExitCode::OK,
    );
    CompactCommD::of(unsealed_cid)
}

// Onboards one empty sector and keeps it proven (cron + Window PoSt every proving period) until the
// chain reaches `sector.expiration + offset_from_expiration`, with the sector still live and active.
fn sector_kept_alive_until_expiration(
    offset_from_expiration: ChainEpoch,
) -> (ActorHarness, MockRuntime, SectorOnChainInfo) {
    let h = ActorHarness::new_with_options(HarnessOptions::default());
    let rt = h.new_runtime();
    rt.set_balance(BIG_BALANCE.clone());
    h.construct_and_verify(&rt);

    let sector_expiry = *rt.epoch.borrow() + 220 * EPOCHS_IN_DAY + 1000;
    let sectors = onboard_empty_sectors(&rt, &h, sector_expiry, FIRST_SECTOR_NUMBER, 1);
    let sector = sectors[0].clone();
    let target = sector.expiration + offset_from_expiration;
    let st: State = h.get_state(&rt);
    let (dlidx, _) = st.find_sector(&rt.store, sector.sector_number).unwrap();

    // Each call proves the sector in its deadline and runs every deadline cron up to there.
    let period = rt.policy.wpost_proving_period;
    while *rt.epoch.borrow() + period <= target {
        h.advance_and_submit_posts(&rt, &sectors);
    }
    // Now walk (with cron) to the deadline containing the target epoch. The sector's own deadline is
    // not reached again before the target, so it is never faulted.
    loop {
        let dl = h.current_deadline(&rt);
        if dl.last() >= target {
            break;
        }
        assert_ne!(dlidx, dl.index, "would need another PoSt");
        h.advance_deadline(&rt, CronConfig::empty());
    }
    rt.set_epoch(target);
    // Sanity: sector is still there, live, active and not in an immutable deadline.
    let (_, partition) = h.find_sector(&rt, sector.sector_number);
    assert!(partition.active_sectors().get(sector.sector_number));
    let dl = h.current_deadline(&rt);
    assert!(dl.index != dlidx && (dl.index + 1) % rt.policy.wpost_period_deadlines != dlidx);
    (h, rt, sector)
}

fn replica_update_params(
    h: &ActorHarness,
    rt: &MockRuntime,
    sector: &SectorOnChainInfo,
) -> (ProveReplicaUpdates3Params, SectorUpdateManifest) {
    let st: State = h.get_state(rt);
    let piece_size = h.sector_size as u64;
    let update =
        make_update_manifest(&st, rt.store(), sector.sector_number, &[(piece_size, 0, 0, 0)]);
    let params = ProveReplicaUpdates3Params {
        sector_updates: vec![update.clone()],
        sector_proofs: vec![RawBytes::new(vec![1, 2, 3, 4])],
        aggregate_proof: RawBytes::default(),
        update_proofs_type: h.seal_proof_type.registered_update_proof().unwrap(),
        aggregate_proof_type: None,
        require_activation_success: true,
        require_notification_success: false,
    };
    (params, update)
}

fn expect_replica_update_calls(
    h: &ActorHarness,
    rt: &MockRuntime,
    sector: &SectorOnChainInfo,
    update: &SectorUpdateManifest,
) -> CompactCommD {
    rt.set_caller(*ACCOUNT_ACTOR_CODE_ID, h.worker);
    rt.expect_validate_caller_addr(h.caller_addrs());
    let commd = expect_commd(rt, h.seal_proof_type, &update.pieces);
    rt.expect_replica_verify(
        ReplicaUpdateInfo {
            update_proof_type: h.seal_proof_type.registered_update_proof().unwrap(),
            new_sealed_cid: update.new_sealed_cid,
            old_sealed_cid: sector.sealed_cid,
            new_unsealed_cid: commd.get_cid(h.seal_proof_type).unwrap(),
            proof: vec![1, 2, 3, 4],
        },
        Ok(()),
    );
    h.expect_query_network_info(rt);
    commd
}

// Exactly at the expiration epoch the (still live, still active, PoSt-ed) sector makes the actor
// divide by zero: abort only.
#[test]
fn replica_update_at_expiration_epoch_panics() {
    let (h, rt, sector) = sector_kept_alive_until_expiration(0);
    assert_eq!(sector.expiration, *rt.epoch.borrow());
    let (params, update) = replica_update_params(&h, &rt, &sector);
    expect_replica_update_calls(&h, &rt, &sector, &update);
    let res = catch_unwind(AssertUnwindSafe(|| {
        rt.call::<Actor>(
            Method::ProveReplicaUpdates3 as u64,
            IpldBlock::serialize_cbor(&params).unwrap(),
        )
    }));
    match &res {
        Ok(r) => println!("returned: {:?}", r),
        Err(p) => println!(
            "panicked: {:?}",
            p.downcast_ref::<String>().cloned().or(p.downcast_ref::<&str>().map(|s| s.to_string()))
        ),
    }
    assert!(res.is_err(), "expected a panic (division by zero)");
}

// After the expiration epoch (but before the deadline cron that removes the sector) the update is
// ACCEPTED: data is "activated" in a sector whose commitment is already over, the sector is stored
// with a negative deal weight and power_base_epoch > expiration.
#[test]
fn replica_update_after_expiration_epoch_is_accepted() {
    let (h, rt, sector) = sector_kept_alive_until_expiration(5);
    assert!(sector.expiration < *rt.epoch.borrow());
    let (params, update) = replica_update_params(&h, &rt, &sector);
    let commd = expect_replica_update_calls(&h, &rt, &sector, &update);
    let pieces: Vec<_> = update.pieces.iter().map(|p| (p.cid, p.size.0)).collect();
    expect_sector_event(&rt, "sector-updated", &sector.sector_number, commd.0, &pieces);
    let ret: ProveReplicaUpdates3Return = rt
        .call::<Actor>(
            Method::ProveReplicaUpdates3 as u64,
            IpldBlock::serialize_cbor(&params).unwrap(),
        )
        .unwrap()
        .unwrap()
        .deserialize()
        .unwrap();
    rt.verify();
    assert!(ret.activation_results.all_ok());
    let updated = h.get_sector(&rt, sector.sector_number);
    println!(
        "epoch {} expiration {} power_base_epoch {} deal_weight {} sector_key_cid set {}",
        *rt.epoch.borrow(),
        updated.expiration,
        updated.power_base_epoch,
        updated.deal_weight,
        updated.sector_key_cid.is_some()
    );
    assert!(updated.power_base_epoch > updated.expiration);
    assert!(updated.deal_weight < BigInt::zero());
    assert_eq!(update.new_sealed_cid, updated.sealed_cid);

    // The repository's own state-invariant checker rejects the resulting state.
    let (_, acc) = fil_actor_miner::testing::check_state_invariants(
        rt.policy(),
        &rt.get_state::<State>(),
        rt.store(),
        &rt.get_balance(),
    );
    println!("invariant checker: {:?}", acc.messages());
    assert!(
        acc.messages().iter().any(|m| m.contains("power base epoch is not before the sector expiration"))
    );
}

// ---------------------------------------------------------------------------------------------
// Finding 4 (abort only): sector number u64::MAX panics in BitField::set before the range check.
// ---------------------------------------------------------------------------------------------
#[test]
fn precommit_sector_number_u64_max_panics() {
    let h = ActorHarness::new(PERIOD_OFFSET);
    let rt = h.new_runtime();
    rt.balance.replace(BIG_BALANCE.clone());
    let precommit_epoch = PERIOD_OFFSET + 1;
    rt.set_epoch(precommit_epoch);
    h.construct_and_verify(&rt);
    let expiration = precommit_epoch + 220 * EPOCHS_IN_DAY;
    let params =
        h.make_pre_commit_params_v2(u64::MAX, precommit_epoch - 1, expiration, vec![], CompactCommD::empty());
    rt.set_caller(*ACCOUNT_ACTOR_CODE_ID, h.worker);
    let res = catch_unwind(AssertUnwindSafe(|| {
        rt.call::<Actor>(
            Method::PreCommitSectorBatch2 as u64,
            IpldBlock::serialize_cbor(&fil_actor_miner::PreCommitSectorBatchParams2 {
                sectors: vec![params],
            })
            .unwrap(),
        )
    }));
    match &res {
        Ok(r) => println!("returned: {:?}", r),
        Err(p) => println!(
            "panicked: {:?}",
            p.downcast_ref::<String>().cloned().or(p.downcast_ref::<&str>().map(|s| s.to_string()))
        ),
    }
    assert!(res.is_err(), "expected a panic");
}

// ---------------------------------------------------------------------------------------------
// Finding 5: ProveCommitSectorsNI bypasses the per-deadline partition limit
// (policy.max_partitions_per_deadline) that assign_deadlines() enforces for every other
// onboarding path, because it calls State::assign_sectors_to_deadline() directly.
// ---------------------------------------------------------------------------------------------
#[test]
fn ni_ignores_max_partitions_per_deadline() {
    let h = ActorHarness::new(PERIOD_OFFSET);
    let mut rt = h.new_runtime();
    rt.policy.max_partitions_per_deadline = 1; // scaled-down limit (production: 3000)
    rt.balance.replace(BIG_BALANCE.clone() * 1000);
    let miner = rt.receiver.id().unwrap();

    let seal_randomness_epoch = PERIOD_OFFSET + 1;
    let activation_epoch = seal_randomness_epoch + 400;
    let expiration = activation_epoch + rt.policy.min_sector_expiration + 1;

    rt.set_epoch(seal_randomness_epoch);
    h.construct_and_verify(&rt);
    rt.set_epoch(activation_epoch);

    let per_msg = rt.policy.max_aggregated_sectors_ni;
    let target = h.partition_size + 1; // one more than fits in a single partition
    let mut next: u64 = 0;
    let mut first = true;
    while next < target {
        let nums: Vec<u64> = (next..next + per_msg).collect();
        let params =
            h.make_prove_commit_ni_params(miner, &nums, seal_randomness_epoch, expiration, 10);
        h.prove_commit_sectors_ni(&rt, params, first, noop()).unwrap();
        first = false;
        next += per_msg;
    }
    let dl = h.get_deadline(&rt, 10);
    let partitions = dl.partitions_amt(&rt.store).unwrap().count();
    println!(
        "deadline 10: {} sectors in {} partitions; max_partitions_per_deadline = {}",
        dl.total_sectors, partitions, rt.policy.max_partitions_per_deadline
    );
    assert!(partitions > rt.policy.max_partitions_per_deadline);
}

#[test]
fn ni_sector_number_u64_max_panics() {
    let h = ActorHarness::new(PERIOD_OFFSET);
    let rt = h.new_runtime();
    rt.balance.replace(BIG_BALANCE.clone());
    let miner = rt.receiver.id().unwrap();
    let seal_randomness_epoch = PERIOD_OFFSET + 1;
    let activation_epoch = seal_randomness_epoch + 400;
    let expiration = activation_epoch + rt.policy.min_sector_expiration + 1;
    rt.set_epoch(seal_randomness_epoch);
    h.construct_and_verify(&rt);
    rt.set_epoch(activation_epoch);
    let mut params =
        h.make_prove_commit_ni_params(miner, &[u64::MAX], seal_randomness_epoch, expiration, 10);
    params.require_activation_success = false; // even in "skip invalid entries" mode
    rt.set_caller(*ACCOUNT_ACTOR_CODE_ID, h.worker);
    rt.expect_validate_caller_addr(h.caller_addrs());
    let res = catch_unwind(AssertUnwindSafe(|| {
        rt.call::<Actor>(
            Method::ProveCommitSectorsNI as u64,
            IpldBlock::serialize_cbor(&params).unwrap(),
        )
    }));
    match &res {
        Ok(r) => println!("returned: {:?}", r),
        Err(p) => println!(
            "panicked: {:?}",
            p.downcast_ref::<String>().cloned().or(p.downcast_ref::<&str>().map(|s| s.to_string()))
        ),
    }
    assert!(res.is_err(), "expected a panic");
}
