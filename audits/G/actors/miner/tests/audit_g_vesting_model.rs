// Audit G: randomized model check of the vesting table (no defect found; kept as evidence).
use std::collections::BTreeMap;

use fil_actor_miner::{REWARD_VESTING_SPEC, VestSpec};
use fvm_shared::bigint::BigInt;
use fvm_shared::clock::ChainEpoch;
use fvm_shared::econ::TokenAmount;
use num_traits::Zero;

mod state_harness;
use state_harness::*;

struct Lcg(u64);
impl Lcg {
    fn next(&mut self) -> u64 {
        self.0 = self.0.wrapping_mul(6364136223846793005).wrapping_add(1442695040888963407);
        self.0 >> 33
    }
    fn below(&mut self, n: u64) -> u64 {
        self.next() % n
    }
}

fn quantize_up(e: ChainEpoch, unit: ChainEpoch, offset: ChainEpoch) -> ChainEpoch {
    let off = offset.rem_euclid(unit);
    let r = (e - off).rem_euclid(unit);
    if r == 0 { e } else { e + (unit - r) }
}

// Independent reference schedule: linear, daily steps, quantized.
fn schedule(
    begin: ChainEpoch,
    sum: &BigInt,
    spec: &VestSpec,
    pps: ChainEpoch,
) -> Vec<(ChainEpoch, BigInt)> {
    let mut out = vec![];
    let mut done = BigInt::zero();
    let mut k = 1;
    while &done < sum {
        let e = quantize_up(begin + spec.initial_delay + k * spec.step_duration, spec.quantization, pps);
        let elapsed = e - (begin + spec.initial_delay);
        let target = if elapsed < spec.vest_period {
            (sum * elapsed) / spec.vest_period
        } else {
            sum.clone()
        };
        out.push((e, &target - &done));
        done = target;
        k += 1;
    }
    out
}

fn run(seed: u64, spec: &VestSpec, steps: usize) {
    let mut rng = Lcg(seed);
    let pps = (rng.below(2880)) as ChainEpoch;
    let mut h = StateHarness::new(pps);
    let mut model: BTreeMap<ChainEpoch, BigInt> = BTreeMap::new();
    let mut epoch: ChainEpoch = 10 + rng.below(5000) as ChainEpoch;
    let mut total_locked = BigInt::zero();
    let mut total_out = BigInt::zero();

    for _ in 0..steps {
        epoch += match rng.below(4) {
            0 => 0,
            1 => rng.below(10) as ChainEpoch,
            2 => rng.below(3000) as ChainEpoch,
            _ => rng.below(60000) as ChainEpoch,
        };
        let vested_model = |model: &mut BTreeMap<ChainEpoch, BigInt>, now: ChainEpoch| -> BigInt {
            let keys: Vec<_> = model.range(..now).map(|(k, _)| *k).collect();
            let mut s = BigInt::zero();
            for k in keys {
                s += model.remove(&k).unwrap();
            }
            s
        };
        match rng.below(3) {
            0 => {
                let sum = match rng.below(4) {
                    0 => BigInt::from(rng.below(5)),
                    1 => BigInt::from(rng.below(1000)),
                    _ => BigInt::from(rng.next()) * BigInt::from(rng.below(1 << 20) + 1),
                };
                for (e, a) in schedule(epoch, &sum, spec, pps) {
                    assert!(e > epoch);
                    *model.entry(e).or_default() += a;
                }
                let expect_unlocked = vested_model(&mut model, epoch);
                let got = h.add_locked_funds(epoch, &TokenAmount::from_atto(sum.clone()), spec).unwrap();
                assert_eq!(&expect_unlocked, got.atto(), "add: unlocked");
                total_locked += sum;
                total_out += expect_unlocked;
            }
            1 => {
                let expect = vested_model(&mut model, epoch);
                let got = h.unlock_vested_funds(epoch).unwrap();
                assert_eq!(&expect, got.atto(), "unlock vested");
                total_out += expect;
            }
            _ => {
                let locked_now: BigInt = model.values().cloned().sum();
                let mut target = match rng.below(3) {
                    0 => BigInt::from(rng.below(100)),
                    1 => &locked_now / (rng.below(5) + 1),
                    _ => &locked_now + rng.below(3),
                };
                let orig_target = target.clone();
                let vested = if orig_target.is_zero() || locked_now.is_zero() {
                    // State-level early return: nothing is touched.
                    BigInt::zero()
                } else {
                    vested_model(&mut model, epoch)
                };
                let mut unvested = BigInt::zero();
                if !(orig_target.is_zero() || locked_now.is_zero()) {
                    let keys: Vec<_> = model.keys().cloned().collect();
                    for k in keys {
                        if target.is_zero() {
                            break;
                        }
                        let a = model.get_mut(&k).unwrap();
                        let take = std::cmp::min(a.clone(), target.clone());
                        *a -= &take;
                        target -= &take;
                        unvested += take;
                        if a.is_zero() {
                            model.remove(&k);
                        }
                    }
                }
                let (got_unvested, got_total) = h
                    .unlock_vested_and_unvested_funds(epoch, &TokenAmount::from_atto(orig_target.clone()))
                    .unwrap();
                assert_eq!(&unvested, got_unvested.atto(), "unvested");
                assert_eq!(&(&vested + &unvested), got_total.atto(), "total");
                assert!(unvested <= orig_target);
                total_out += vested + unvested;
            }
        }
        // Ledger: locked_funds == sum of table == model.
        let table = h.st.vesting_funds.load(&h.store).unwrap();
        let table_sum: BigInt = table.iter().map(|f| f.amount.atto().clone()).sum();
        let model_sum: BigInt = model.values().cloned().sum();
        assert_eq!(&table_sum, h.st.locked_funds.atto());
        assert_eq!(model_sum, table_sum);
        assert_eq!(&total_locked - &total_out, table_sum);
        // Same entries (ignoring zero-amount rows).
        let t: Vec<_> = table
            .iter()
            .filter(|f| !f.amount.is_zero())
            .map(|f| (f.epoch, f.amount.atto().clone()))
            .collect();
        let m: Vec<_> =
            model.iter().filter(|(_, a)| !a.is_zero()).map(|(e, a)| (*e, a.clone())).collect();
        assert_eq!(m, t);
        assert!(table.windows(2).all(|w| w[0].epoch < w[1].epoch));
    }
}

#[test]
fn vesting_table_matches_reference_model() {
    for seed in 0..150u64 {
        run(seed, &REWARD_VESTING_SPEC, 120);
    }
    println!("production spec ok");
    // NB: step_duration >= quantization, as in every production spec; otherwise the schedule
    // generator emits repeated epochs (zero-amount duplicate rows).
    let small = VestSpec { initial_delay: 0, vest_period: 17, step_duration: 3, quantization: 2 };
    for seed in 0..300u64 {
        run(1000 + seed, &small, 200);
    }
}
