// Audit H: confirmation tests for EVM findings (MockRuntime harness).
mod asm;
mod util;

use evm::Method;
use fil_actor_evm as evm;
use fil_actors_evm_shared::address::EthAddress;
use fil_actors_evm_shared::uints::U256;
use fvm_shared::address::Address as FILAddress;
use fvm_shared::econ::TokenAmount;
use fvm_shared::error::{ErrorNumber, ExitCode};
use fvm_shared::sys::SendFlags;

/// Contract: CALL(gas=0, dst=calldata[0..32], value=0x42, no input, no output) and return the
/// CALL status word (1 = success, 0 = failure) followed by SELFBALANCE.
fn call_with_value_contract() -> Vec<u8> {
    let init = "";
    let body = r#"
# out size / out offset
push1 0x00
push1 0x00
# in size / in offset
push1 0x00
push1 0x00
# value
push1 0x42
# dest address
push1 0x00
calldataload
# gas
push1 0x00
call
# store status at 0x00
push1 0x00
mstore
selfbalance
push1 0x20
mstore
push1 0x40
push1 0x00
return
"#;
    asm::new_contract("audit-h-call-value", init, body).unwrap()
}

/// F1: CALL with a non-zero value to an (ID-form) address at which no actor exists.
/// The send syscall fails with NotFound (nothing is transferred), but the EVM reports the CALL as
/// successful (pushes 1). In Ethereum such a CALL would create the account and move the value; a
/// contract using `require(success)` to guard bookkeeping would believe the funds left.
#[test]
fn f1_call_with_value_to_missing_actor_reports_success_without_transfer() {
    let rt = util::construct_and_verify(call_with_value_contract());
    rt.set_balance(TokenAmount::from_atto(1000));

    let target_id = 0x999;
    let target = FILAddress::new_id(target_id);
    let mut params = vec![0u8; 32];
    EthAddress::from_id(target_id).as_evm_word().write_as_big_endian(&mut params);

    rt.expect_gas_available(10_000_000 * 10);
    rt.expect_send(
        target,
        Method::InvokeContract as u64,
        None,
        TokenAmount::from_atto(0x42),
        Some(10_000_000),
        SendFlags::empty(),
        None,
        ExitCode::new(0xffff),
        // what the FVM returns when the recipient ID address has no actor
        Some(ErrorNumber::NotFound),
    );

    let result = util::invoke_contract(&rt, &params);
    rt.verify();
    let status = U256::from_big_endian(&result[..32]);
    let balance = U256::from_big_endian(&result[32..64]);
    println!("CALL status = {status}, SELFBALANCE after = {balance}");
    // Ethereum semantics would be: status == 1 AND balance == 1000 - 0x42.
    // Observed: status == 1 (success) but the balance is untouched.
    assert_eq!(status, U256::from(1), "CALL is reported as successful");
    assert_eq!(balance, U256::from(1000), "...but nothing was transferred");
}

/// N1 (predicate-level only): the P256VERIFY precompile lives at 0x…0100, which the EVM treats as
/// a reserved precompile address, but `EthAddress::is_precompile` (the predicate the EAM uses in
/// `can_assign_address`) does not cover it, nor is it an ID/null address. The EAM would therefore
/// accept it as a deployment address (only reachable with a 160-bit hash preimage).
#[test]
fn n1_p256verify_address_not_reserved_by_eam_predicate() {
    let p256 = EthAddress(hex_literal::hex!("0000000000000000000000000000000000000100"));
    assert!(!p256.is_precompile());
    assert!(!p256.is_id());
    assert!(!p256.is_null());
}
