// Audit I: ProveCommitSectorsNI consumes (allocates) the sector numbers of entries that it
// rejects when require_activation_success == false, and aborts the whole batch when a *rejected*
// entry's number collides with an allocated one.
use fil_actors_runtime::runtime::RuntimePolicy;
use fvm_ipld_encoding::CborStore;
use fvm_shared::clock::ChainEpoch;

use fil_actor_miner::SectorNIActivationInfo;
use fvm_ipld_bitfield::BitField;
use util::*;

mod util;

const PERIOD_OFFSET: ChainEpoch = 100;

fn fail_for_seal_rand_epoch(
    num_fails: usize,
    bad_seal_rand_epoch: i64,
) -> impl FnMut(&mut SectorNIActivationInfo, usize) -> bool {
    move |s: &mut SectorNIActivationInfo, index: usize| {
        if index < num_fails {
            s.seal_rand_epoch = bad_seal_rand_epoch;
            true
        } else {
            false
        }
    }
}

#[test]
fn audit_i_ni_rejected_entries_consume_sector_numbers() {
    let h = ActorHarness::new(PERIOD_OFFSET);
    let rt = h.new_runtime();
    rt.balance.replace(BIG_BALANCE.clone());
    let miner = rt.receiver.id().unwrap();
    let policy = rt.policy();

    let seal_randomness_epoch = PERIOD_OFFSET + 1;
    let activation_epoch = seal_randomness_epoch + 400;
    let expiration = activation_epoch + policy.min_sector_expiration + 1;
    let proving_deadline = 42;

    rt.set_epoch(seal_randomness_epoch);
    h.construct_and_verify(&rt);
    rt.set_epoch(activation_epoch);

    let num_fails: usize = 5;
    let num_success: usize = 2;
    let sector_nums = (0..((num_fails + num_success) as u64)).collect::<Vec<_>>();
    let mut params = h.make_prove_commit_ni_params(
        miner,
        &sector_nums,
        seal_randomness_epoch,
        expiration,
        proving_deadline,
    );
    params.require_activation_success = false;

    let res = h
        .prove_commit_sectors_ni(
            &rt,
            params,
            true,
            fail_for_seal_rand_epoch(
                num_fails,
                activation_epoch - policy.max_prove_commit_ni_randomness_lookback - 1,
            ),
        )
        .unwrap();
    assert_eq!(res.activation_results.success_count, num_success as u32);

    let st = h.get_state(&rt);
    let allocated: BitField = rt.store.get_cbor(&st.allocated_sectors).unwrap().unwrap();
    let allocated: Vec<u64> = allocated.iter().collect();
    println!("allocated sector numbers after the batch: {:?}", allocated);
    // Only sectors 5 and 6 exist on chain ...
    for n in 0..num_fails as u64 {
        assert!(st.get_sector(&rt.store, n).unwrap().is_none());
    }
    // ... but numbers 0..=4 of the rejected entries are burnt too.
    assert_eq!(allocated, (0..7u64).collect::<Vec<_>>());
    h.check_state(&rt);
}
