// Audit I: interleavings around the fault-declaration cutoff / mutability cutoff.
// These are exploratory regression checks; they are expected to PASS (no defect found here).
use fil_actor_miner::{
    PoStPartition, SectorOnChainInfo, daily_fee_for_sectors, new_deadline_info,
    pledge_penalty_for_continued_fault, pledge_penalty_for_termination, power_for_sectors,
    qa_power_for_sector,
};
use fil_actors_runtime::test_utils::MockRuntime;
use fvm_ipld_bitfield::BitField;
use fvm_shared::econ::TokenAmount;
use num_traits::Zero;

mod util;
use crate::util::*;

fn local_setup() -> (ActorHarness, MockRuntime) {
    let h = ActorHarness::new(100);
    let rt = h.new_runtime();
    h.construct_and_verify(&rt);
    rt.set_balance(BIG_BALANCE.clone());
    (h, rt)
}

fn term_fee(h: &ActorHarness, rt: &MockRuntime, sector: &SectorOnChainInfo) -> TokenAmount {
    let sector_power = qa_power_for_sector(sector.seal_proof.sector_size().unwrap(), sector);
    let sector_age = *rt.epoch.borrow() - sector.activation;
    let fault_fee = pledge_penalty_for_continued_fault(
        &h.epoch_reward_smooth,
        &h.epoch_qa_power_smooth,
        &sector_power,
    );
    pledge_penalty_for_termination(&sector.initial_pledge, sector_age, &fault_fee)
}

// A recovering sector is terminated in the gap between the fault/recovery cutoff (open-70) and
// the mutability cutoff (open-60) of its deadline; the rest of the partition is then proven.
#[test]
fn audit_i_terminate_recovering_sector_between_cutoffs() {
    let (mut h, rt) = local_setup();
    let sectors = h.commit_and_prove_sectors(&rt, 2, DEFAULT_SECTOR_EXPIRATION, vec![], true);
    h.advance_and_submit_posts(&rt, &sectors);
    let a = sectors[0].clone();
    let b = sectors[1].clone();

    let st = h.get_state(&rt);
    let (dl_idx, p_idx) = st.find_sector(&rt.store, a.sector_number).unwrap();
    let (dl_idx_b, p_idx_b) = st.find_sector(&rt.store, b.sector_number).unwrap();
    assert_eq!((dl_idx, p_idx), (dl_idx_b, p_idx_b));

    h.declare_faults(&rt, &[a.clone()]);
    h.declare_recoveries(
        &rt,
        dl_idx,
        p_idx,
        BitField::try_from_bits([a.sector_number]).unwrap(),
        TokenAmount::zero(),
    )
    .unwrap();
    h.check_state(&rt);

    let st = h.get_state(&rt);
    let epoch = *rt.epoch.borrow();
    let next = new_deadline_info(
        &rt.policy,
        st.current_proving_period_start(&rt.policy, epoch),
        dl_idx,
        epoch,
    )
    .next_not_elapsed();
    // in [open-70, open-60)
    h.advance_to_epoch_with_cron(&rt, next.open - 65);
    assert!(next.fault_cutoff <= *rt.epoch.borrow());

    h.apply_rewards(&rt, TokenAmount::from_whole(1000), TokenAmount::zero());
    let fee = term_fee(&h, &rt, &a);
    let st = h.get_state(&rt);
    println!("fee {} pledge {} locked {} fee_debt {} ip {}", fee, a.initial_pledge, st.locked_funds, st.fee_debt, st.initial_pledge);
    h.terminate_sectors(&rt, &BitField::try_from_bits([a.sector_number]).unwrap(), fee);
    h.check_state(&rt);

    let dl = h.get_deadline(&rt, dl_idx);
    let p = dl.load_partition(&rt.store, p_idx).unwrap();
    assert!(p.recoveries.is_empty());
    assert!(p.faults.is_empty());
    assert!(p.recovering_power.is_zero());
    assert!(dl.faulty_power.is_zero());

    // prove B at the deadline
    let dlinfo = h.advance_to_deadline(&rt, dl_idx);
    h.submit_window_post(
        &rt,
        &dlinfo,
        vec![PoStPartition { index: p_idx, skipped: BitField::new() }],
        vec![b.clone()],
        PoStConfig::empty(),
    );
    h.check_state(&rt);
    h.advance_deadline(
        &rt,
        CronConfig {
            burnt_funds: daily_fee_for_sectors(&[b.clone()]),
            pledge_delta: -daily_fee_for_sectors(&[b.clone()]),
            ..Default::default()
        },
    );
    h.check_state(&rt);
    let st = h.get_state(&rt);
    assert_eq!(st.initial_pledge, b.initial_pledge);
    let dl = h.get_deadline(&rt, dl_idx);
    assert_eq!(dl.live_power, power_for_sectors(h.sector_size, &[b]));
}
