#![no_main]
// C17: coverage-guided differential fuzzing of the EVM actor against the reference interpreter.
use libfuzzer_sys::fuzz_target;
fuzz_target!(|data: &[u8]| {
    verif_harness::fuzzglue::evm_diff(data);
});
