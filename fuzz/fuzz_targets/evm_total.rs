#![no_main]
// C18: coverage-guided totality / read-only fuzzing of the EVM actor on arbitrary byte programs.
use libfuzzer_sys::fuzz_target;
fuzz_target!(|data: &[u8]| {
    verif_harness::fuzzglue::evm_total(data);
});
