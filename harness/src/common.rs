//! Shared runner: sharded proptest execution, evidence, replay files, known findings.

use proptest::strategy::{BoxedStrategy, Strategy, ValueTree};
use proptest::test_runner::{Config, RngAlgorithm, TestCaseError, TestError, TestRng, TestRunner};
use serde::Serialize;
use serde::de::DeserializeOwned;
use serde_json::{Value, json};
use std::collections::{BTreeMap, BTreeSet};
use std::fmt::Debug;
use std::hash::{Hash, Hasher};
use std::sync::Mutex;
use std::time::Instant;

#[derive(Clone, Copy, Debug, PartialEq, Eq)]
pub enum Tier {
    Quick,
    Thorough,
}
impl Tier {
    pub fn name(&self) -> &'static str {
        match self {
            Tier::Quick => "quick",
            Tier::Thorough => "thorough",
        }
    }
}

#[derive(Clone, Debug)]
pub struct Violation {
    /// which clause of the property failed (stable short name)
    pub clause: String,
    /// human-readable detail
    pub detail: String,
    /// signature used to match known findings (stable across inputs with the same root cause)
    pub signature: String,
}

impl Violation {
    pub fn new(clause: &str, detail: impl Into<String>) -> Self {
        Violation { clause: clause.to_string(), detail: detail.into(), signature: clause.to_string() }
    }
    pub fn sig(mut self, s: impl Into<String>) -> Self {
        self.signature = s.into();
        self
    }
}

pub type VResult<T = ()> = Result<T, Violation>;

#[macro_export]
macro_rules! vfail {
    ($clause:expr, $($arg:tt)*) => {
        return Err($crate::common::Violation::new($clause, format!($($arg)*)))
    };
}
#[macro_export]
macro_rules! vassert {
    ($cond:expr, $clause:expr, $($arg:tt)*) => {
        if !($cond) {
            return Err($crate::common::Violation::new($clause, format!($($arg)*)));
        }
    };
}

/// Per-case statistics filled in by the engine while interpreting a case.
#[derive(Default, Clone, Debug)]
pub struct CaseStats {
    pub labels: BTreeSet<String>,
    pub counters: BTreeMap<String, u64>,
    pub nontrivial: bool,
    pub known_findings: BTreeSet<String>,
    pub log: Vec<String>,
    pub verbose: bool,
    /// signatures listed in known_findings.json for this property
    pub known_sigs: std::sync::Arc<BTreeSet<String>>,
}
impl CaseStats {
    pub fn label(&mut self, l: &str) {
        self.labels.insert(l.to_string());
    }
    pub fn count(&mut self, l: &str, n: u64) {
        *self.counters.entry(l.to_string()).or_default() += n;
    }
    /// If `sig` is a listed known finding, record that it was met and return true (the engine then
    /// continues with its exclusion rule); otherwise return false (the engine reports a violation).
    pub fn known(&mut self, sig: &str) -> bool {
        if self.known_sigs.contains(sig) {
            self.known_findings.insert(sig.to_string());
            true
        } else {
            false
        }
    }
    pub fn say(&mut self, s: impl FnOnce() -> String) {
        if self.verbose {
            self.log.push(s());
        }
    }
}

#[derive(Default)]
pub struct Agg {
    pub evaluations: u64,
    pub nontrivial_hashes: BTreeSet<u64>,
    pub label_hist: BTreeMap<String, u64>,
    pub counters: BTreeMap<String, u64>,
    pub samples: Vec<Value>,
    pub known: BTreeMap<String, u64>,
    pub violations: Vec<(String, String)>, // (replay path, description)
}

pub trait Engine: Sync {
    type Case: Debug + Clone + Serialize + DeserializeOwned + Send + 'static;
    fn id(&self) -> &'static str;
    fn strategy(&self, tier: Tier) -> BoxedStrategy<Self::Case>;
    /// (shards, cases per shard)
    fn budget(&self, tier: Tier) -> (u32, u32);
    fn run(&self, case: &Self::Case, stats: &mut CaseStats) -> VResult;
    fn rule(&self) -> String;
    fn assumptions(&self) -> Vec<String>;
    /// labels that must reach at least the given fraction of cases, else exit 2
    fn required_labels(&self) -> Vec<(&'static str, f64)> {
        vec![]
    }
    fn extra_coverage(&self, _agg: &Agg) -> Value {
        json!({})
    }
    fn max_shrink_iters(&self) -> u32 {
        4000
    }
}

pub fn hash64<T: Hash>(t: &T) -> u64 {
    let mut h = std::collections::hash_map::DefaultHasher::new();
    t.hash(&mut h);
    h.finish()
}

fn shard_seed(seed: u64, id: &str, shard: u32) -> [u8; 32] {
    let mut out = [0u8; 32];
    for i in 0..4u64 {
        let h = hash64(&(seed, id, shard, i, 0x5eedu64));
        out[(i as usize) * 8..(i as usize + 1) * 8].copy_from_slice(&h.to_le_bytes());
    }
    out
}

#[derive(Clone, Debug, serde::Deserialize)]
pub struct KnownFinding {
    pub property: String,
    pub signature: String,
    pub description: String,
}

pub fn load_known_findings() -> Vec<KnownFinding> {
    let p = verif_root().join("known_findings.json");
    match std::fs::read_to_string(&p) {
        Ok(s) => {
            let v: Value = serde_json::from_str(&s).expect("known_findings.json parses");
            v.get("findings")
                .and_then(|f| serde_json::from_value::<Vec<KnownFinding>>(f.clone()).ok())
                .unwrap_or_default()
        }
        Err(_) => vec![],
    }
}

pub fn verif_root() -> std::path::PathBuf {
    std::env::var("VERIF_ROOT").map(Into::into).unwrap_or_else(|_| "/verif".into())
}

pub struct RunOpts {
    pub tier: Tier,
    pub seed: u64,
    pub replay: Option<String>,
    pub cases_override: Option<u32>,
    pub shards_override: Option<u32>,
}

/// Run one engine; returns the process exit code.
pub fn run_engine<E: Engine>(engine: &E, opts: &RunOpts) -> i32 {
    let id = engine.id();
    let known: Vec<KnownFinding> =
        load_known_findings().into_iter().filter(|k| k.property == id).collect();
    let known_sigs: BTreeSet<String> = known.iter().map(|k| k.signature.clone()).collect();

    if let Some(path) = &opts.replay {
        let text = std::fs::read_to_string(path).expect("replay file readable");
        let v: Value = serde_json::from_str(&text).expect("replay json");
        let case: E::Case = serde_json::from_value(v.get("case").cloned().unwrap_or(v.clone()))
            .expect("replay case decodes");
        let mut st = CaseStats { verbose: true, known_sigs: std::sync::Arc::new(known_sigs.clone()), ..Default::default() };
        let r = run_guarded(engine, &case, &mut st);
        for l in &st.log {
            println!("{l}");
        }
        for k in &st.known_findings {
            println!("KNOWN-FINDING: property={id} {k}");
        }
        return match r {
            Ok(()) => {
                println!("replay: property held on this case");
                0
            }
            Err(v) => {
                if known_sigs.contains(&v.signature) {
                    println!("KNOWN-FINDING: property={id} {}", v.signature);
                    0
                } else {
                    println!("clause: {}\ndetail: {}", v.clause, v.detail);
                    println!("VIOLATION property={id} replay={path}");
                    1
                }
            }
        };
    }

    let start = Instant::now();
    let (mut shards, mut cases) = engine.budget(opts.tier);
    if let Some(c) = opts.cases_override {
        cases = c;
    }
    if let Some(s) = opts.shards_override {
        shards = s;
    }
    let agg = Mutex::new(Agg::default());
    let known_arc = std::sync::Arc::new(known_sigs.clone());
    let known_sigs_ref = &known_sigs;
    let agg_ref = &agg;

    let next_shard = std::sync::atomic::AtomicU32::new(0);
    let next_ref = &next_shard;
    let workers = std::cmp::min(shards, std::env::var("VERIF_THREADS").ok().and_then(|s| s.parse().ok()).unwrap_or(16));
    std::thread::scope(|scope| {
        for _worker in 0..workers {
            let known_arc = std::sync::Arc::clone(&known_arc);
            std::thread::Builder::new().stack_size(1 << 30).spawn_scoped(scope, move || loop {
                // logical shards (each with its own PRNG stream) are pulled by a fixed pool of workers
                let shard = next_ref.fetch_add(1, std::sync::atomic::Ordering::SeqCst);
                if shard >= shards {
                    break;
                }
                let known_arc = std::sync::Arc::clone(&known_arc);
                let strat = engine.strategy(opts.tier);
                let cfg = Config {
                    cases,
                    failure_persistence: None,
                    max_shrink_iters: engine.max_shrink_iters(),
                    max_shrink_time: std::env::var("VERIF_SHRINK_MS").ok().and_then(|s| s.parse().ok()).unwrap_or(180_000),
                    max_local_rejects: 1 << 20,
                    max_global_rejects: 1 << 20,
                    ..Config::default()
                };
                let rng = TestRng::from_seed(RngAlgorithm::ChaCha, &shard_seed(opts.seed, id, shard));
                let mut runner = TestRunner::new_with_rng(cfg, rng);
                let mut local = Agg::default();
                let failed = std::cell::Cell::new(false);
                let local_cell = std::cell::RefCell::new(&mut local);
                let result = runner.run(&strat, |case| {
                    let mut st = CaseStats { known_sigs: std::sync::Arc::clone(&known_arc), ..Default::default() };
                    let r = run_guarded(engine, &case, &mut st);
                    let r = match r {
                        Err(v) if known_sigs_ref.contains(&v.signature) => {
                            st.known_findings.insert(v.signature.clone());
                            Ok(())
                        }
                        other => other,
                    };
                    if let Ok(want) = std::env::var("VERIF_DUMP_LABEL") {
                        if st.labels.contains(&want) {
                            let path = format!("/tmp/dump_{}_{}.json", id, want);
                            if !std::path::Path::new(&path).exists() {
                                let _ = std::fs::write(&path, serde_json::to_string(&json!({"case": &case})).unwrap());
                            }
                        }
                    }
                    if !failed.get() {
                        let mut l = local_cell.borrow_mut();
                        l.evaluations += 1;
                        for lab in &st.labels {
                            *l.label_hist.entry(lab.clone()).or_default() += 1;
                        }
                        for (k, n) in &st.counters {
                            *l.counters.entry(k.clone()).or_default() += n;
                        }
                        for k in &st.known_findings {
                            *l.known.entry(k.clone()).or_default() += 1;
                        }
                        if st.nontrivial {
                            let js = serde_json::to_string(&case).unwrap_or_default();
                            let h = hash64(&js);
                            if l.nontrivial_hashes.insert(h) && l.samples.len() < 2 && js.len() < 6000 {
                                l.samples.push(json!({
                                    "case": serde_json::to_value(&case).unwrap_or(Value::Null),
                                    "labels": st.labels.iter().cloned().collect::<Vec<_>>(),
                                }));
                            }
                        }
                    }
                    match r {
                        Ok(()) => Ok(()),
                        Err(v) => {
                            failed.set(true);
                            Err(TestCaseError::fail(format!(
                                "{}|{}|{}",
                                v.signature, v.clause, v.detail
                            )))
                        }
                    }
                });
                drop(local_cell);
                if let Err(e) = result {
                    match e {
                        TestError::Fail(reason, case) => {
                            let reason = reason.message().to_string();
                            let dir = verif_root().join("replays").join(id);
                            let _ = std::fs::create_dir_all(&dir);
                            let js = serde_json::to_value(&case).unwrap_or(Value::Null);
                            let h = hash64(&js.to_string());
                            let path = dir.join(format!("{:016x}.json", h));
                            let doc = json!({
                                "property": id,
                                "seed": opts.seed,
                                "shard": shard,
                                "tier": opts.tier.name(),
                                "reason": reason,
                                "case": js,
                            });
                            let _ = std::fs::write(&path, serde_json::to_string_pretty(&doc).unwrap());
                            local.violations.push((path.display().to_string(), reason));
                        }
                        TestError::Abort(r) => {
                            eprintln!("shard {shard}: proptest aborted: {r}");
                            local.counters.insert("proptest_abort".into(), 1);
                        }
                    }
                }
                let mut a = agg_ref.lock().unwrap();
                a.evaluations += local.evaluations;
                a.nontrivial_hashes.extend(local.nontrivial_hashes);
                for (k, v) in local.label_hist {
                    *a.label_hist.entry(k).or_default() += v;
                }
                for (k, v) in local.counters {
                    *a.counters.entry(k).or_default() += v;
                }
                for (k, v) in local.known {
                    *a.known.entry(k).or_default() += v;
                }
                if a.samples.len() < 4 {
                    a.samples.extend(local.samples);
                }
                a.violations.extend(local.violations);
            }).expect("spawn shard");
        }
    });

    let agg = agg.into_inner().unwrap();
    let wall = start.elapsed().as_secs_f64();
    let mut exit = 0;

    for (sig, n) in &agg.known {
        let desc = known.iter().find(|k| &k.signature == sig).map(|k| k.description.clone()).unwrap_or_default();
        println!("KNOWN-FINDING: property={id} {sig} ({n} cases) {desc}");
    }
    for (path, reason) in &agg.violations {
        println!("violation detail: {reason}");
        println!("VIOLATION property={id} replay={path}");
        exit = 1;
    }
    let aborted = agg.counters.get("proptest_abort").copied().unwrap_or(0) > 0;

    let mut degenerate = vec![];
    for (lab, floor) in engine.required_labels() {
        let n = agg.label_hist.get(lab).copied().unwrap_or(0);
        if (n as f64) < floor * (agg.evaluations as f64) {
            degenerate.push(format!("{lab}: {n}/{} < {floor}", agg.evaluations));
        }
    }

    let mut samples = agg.samples.clone();
    if samples.is_empty() {
        // still show what a generated case looks like
        let mut runner = TestRunner::new_with_rng(
            Config::default(),
            TestRng::from_seed(RngAlgorithm::ChaCha, &shard_seed(opts.seed, id, 0)),
        );
        if let Ok(t) = engine.strategy(opts.tier).new_tree(&mut runner) {
            samples.push(json!({"case": serde_json::to_value(t.current()).unwrap_or(Value::Null), "labels": ["(trivial sample)"]}));
        }
    }
    let mut coverage = json!({
        "evaluations": agg.evaluations,
        "distinct_nontrivial": agg.nontrivial_hashes.len(),
        "rule": engine.rule(),
        "samples": samples,
        "label_histogram": agg.label_hist,
        "counters": agg.counters,
        "known_findings_met": agg.known,
        "shards": shards,
        "cases_per_shard": cases,
    });
    if let (Value::Object(c), Value::Object(extra)) = (&mut coverage, engine.extra_coverage(&agg)) {
        for (k, v) in extra {
            c.insert(k, v);
        }
    }
    let evidence = json!({
        "property_id": id,
        "tier": opts.tier.name(),
        "seed": opts.seed,
        "level": "exploration",
        "coverage": coverage,
        "assumptions": engine.assumptions(),
        "wall_s": wall,
        "violations": agg.violations.len(),
    });
    let edir = verif_root().join("evidence");
    let _ = std::fs::create_dir_all(&edir);
    std::fs::write(edir.join(format!("{id}.json")), serde_json::to_string_pretty(&evidence).unwrap())
        .expect("write evidence");

    println!(
        "{id}: tier={} seed={} evaluations={} distinct_nontrivial={} violations={} wall={:.1}s",
        opts.tier.name(),
        opts.seed,
        agg.evaluations,
        agg.nontrivial_hashes.len(),
        agg.violations.len(),
        wall
    );
    if exit == 0 && (aborted || !degenerate.is_empty()) {
        for d in degenerate {
            eprintln!("generator degenerated: {d}");
        }
        return 2;
    }
    exit
}

fn run_guarded<E: Engine>(engine: &E, case: &E::Case, st: &mut CaseStats) -> VResult {
    // A panic in harness code (not actor code: SimVM catches those) is a harness defect; it must
    // not be mistaken for a violation, so it aborts the whole process with exit code 2.
    match std::panic::catch_unwind(std::panic::AssertUnwindSafe(|| engine.run(case, st))) {
        Ok(r) => r,
        Err(e) => {
            let msg = e
                .downcast_ref::<String>()
                .cloned()
                .or_else(|| e.downcast_ref::<&str>().map(|s| s.to_string()))
                .unwrap_or_default();
            eprintln!(
                "HARNESS PANIC (inconclusive, exit 2): {msg}\ncase: {}",
                serde_json::to_string(case).unwrap_or_default()
            );
            std::process::exit(2);
        }
    }
}

/// Monotone index mapping for shrink-friendly selection: `frac` in 0..=65535.
pub fn pick(frac: u16, len: usize) -> usize {
    if len == 0 {
        return 0;
    }
    ((frac as usize) * len) >> 16
}
