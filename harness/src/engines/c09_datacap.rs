//! C09 — DataCap conserved, allocations spent exactly once (DESIGN §3 C09).
//! Oracle: token/allocation ledger equations recomputed from the state tree after every
//! message + protocol verdicts for every generated operation.

use crate::common::*;
use crate::engines::market::Fixture;
use crate::simvm::{MsgResult, sign};
use crate::world::*;
use crate::{vassert, vfail};
use cid::Cid;
use fil_actor_verifreg as vr;
use fil_actors_runtime::test_utils::make_piece_cid;
use fil_actors_runtime::{DATACAP_TOKEN_ACTOR_ID, STORAGE_MARKET_ACTOR_ID, VERIFIED_REGISTRY_ACTOR_ID, parse_uint_key};
use frc46_token::token::types::{BurnParams, TransferParams, TransferReturn};
use fvm_ipld_encoding::RawBytes;
use fvm_shared::address::Address;
use fvm_shared::bigint::BigInt;
use fvm_shared::crypto::signature::{Signature, SignatureType};
use fvm_shared::econ::TokenAmount;
use fvm_shared::piece::PaddedPieceSize;
use fvm_shared::{ActorID, MethodNum};
use num_traits::{Signed, Zero};
use proptest::prelude::*;
use serde::{Deserialize, Serialize};
use std::collections::{BTreeMap, BTreeSet};

const DAY: i64 = 2880;
const MIN_TERM: i64 = 180 * DAY;
const MAX_TERM: i64 = 5 * (31_556_925 / 30);
const MAX_EXP: i64 = 60 * DAY;
const MIN_SIZE: u64 = 1 << 20;

fn tok(datacap: &BigInt) -> BigInt {
    datacap * BigInt::from(10u64.pow(18))
}

#[derive(Clone, Debug, Serialize, Deserialize)]
pub struct AllocSpec {
    pub provider: u8, // 0,1 miners; 2 = not a miner
    pub size_log: u8, // 20.. ; <20 too small
    pub term_min_extra: i32, // MIN_TERM + x (negative => too short)
    pub term_span: i32,      // term_max = term_min + span (negative => inverted)
    pub over_max_term: bool,
    pub exp_in: i32, // expiration = now + x (negative => past; > MAX_EXP too far)
    pub data: u8,
}

#[derive(Clone, Debug, Serialize, Deserialize)]
pub enum Mutate {
    None,
    WrongClient,
    WrongData,
    WrongSize,
}

#[derive(Clone, Debug, Serialize, Deserialize)]
pub struct ClaimSpec {
    pub alloc: u16,
    pub mutate: Mutate,
}

#[derive(Clone, Debug, Serialize, Deserialize)]
pub struct SectorClaims {
    pub sector: u8,
    /// sector expiry = now + term_min(of first alloc) + rel   (rel<0 => too short); big => beyond term_max
    pub life_rel: i32,
    pub claims: Vec<ClaimSpec>,
}

#[derive(Clone, Debug, Serialize, Deserialize)]
pub enum Op {
    AddVerifier { v: u8, cap_mib: u32 },
    RemoveVerifier { v: u8 },
    /// grant: per-mille of the verifier's remaining cap (1000 = exactly all, 1001 = one byte more)
    Grant { by: u8, client: u8, pm: u16 },
    /// direct transfer to the registry; amount_delta in bytes relative to the exact total
    Allocate { client: u8, allocs: Vec<AllocSpec>, extend: Vec<(u16, i32)>, amount_delta: i8 },
    Claim { miner: u8, sectors: Vec<SectorClaims>, all_or_nothing: bool },
    RemoveExpiredAllocs { caller: u8, client: u8, ids: Vec<u16> },
    RemoveExpiredClaims { caller: u8, provider: u8, ids: Vec<u16> },
    ExtendTerms { caller: u8, terms: Vec<(u16, i32)> },
    RemoveDataCap { client: u8, mib: u32, sig1: u8, sig2: u8, same_verifier: bool },
    TokenTransfer { from: u8, to: u8, mib: u16 },
    TokenBurn { from: u8, mib: u16 },
    Advance { epochs: u32 },
    AdvanceDays { days: u16 },
    /// jump to the expiration of an open allocation (or the end of a claim's term) + delta
    AdvanceToExpiry { claim: bool, which: u16, delta: i8 },
}

#[derive(Clone, Debug, Serialize, Deserialize)]
pub struct Case {
    pub ops: Vec<Op>,
}

fn alloc_spec() -> impl Strategy<Value = AllocSpec> {
    (
        prop_oneof![10 => 0u8..2, 1 => Just(2u8)],
        prop_oneof![10 => 20u8..24, 1 => 15u8..20],
        prop_oneof![10 => 0i32..(100 * 2880), 1 => -3i32..0],
        prop_oneof![10 => 0i32..(400 * 2880), 1 => -2i32..0],
        prop_oneof![15 => Just(false), 1 => Just(true)],
        prop_oneof![8 => 0i32..(MAX_EXP as i32), 1 => Just(MAX_EXP as i32), 1 => Just(MAX_EXP as i32 + 1), 1 => -3i32..0],
        0u8..4,
    )
        .prop_map(|(provider, size_log, term_min_extra, term_span, over_max_term, exp_in, data)| AllocSpec { provider, size_log, term_min_extra, term_span, over_max_term, exp_in, data })
}

fn op_strategy() -> impl Strategy<Value = Op> {
    prop_oneof![
        2 => (0u8..3, 1u32..5000).prop_map(|(v, cap_mib)| Op::AddVerifier { v, cap_mib }),
        1 => (0u8..3).prop_map(|v| Op::RemoveVerifier { v }),
        5 => (0u8..4, 0u8..5, prop_oneof![6 => 1u16..500, 1 => Just(1000u16), 1 => Just(1001u16)]).prop_map(|(by, client, pm)| Op::Grant { by, client, pm }),
        8 => (0u8..4, proptest::collection::vec(alloc_spec(), 1..3), prop_oneof![5 => Just(vec![]), 1 => proptest::collection::vec((any::<u16>(), prop_oneof![5 => 1i32..(300*2880), 1 => -5i32..1]), 1..2)], prop_oneof![10 => Just(0i8), 1 => Just(1i8), 1 => Just(-1i8)])
            .prop_map(|(client, allocs, extend, amount_delta)| Op::Allocate { client, allocs, extend, amount_delta }),
        8 => (0u8..2, proptest::collection::vec((0u8..4, prop_oneof![8 => 0i32..1000, 1 => -3i32..0, 1 => Just(i32::MAX)], proptest::collection::vec((any::<u16>(), prop_oneof![12 => Just(Mutate::None), 1 => Just(Mutate::WrongClient), 1 => Just(Mutate::WrongData), 1 => Just(Mutate::WrongSize)]).prop_map(|(alloc, mutate)| ClaimSpec { alloc, mutate }), 1..3)).prop_map(|(sector, life_rel, claims)| SectorClaims { sector, life_rel, claims }), 1..3), prop_oneof![3 => Just(false), 1 => Just(true)])
            .prop_map(|(miner, sectors, all_or_nothing)| Op::Claim { miner, sectors, all_or_nothing }),
        4 => (0u8..8, 0u8..4, proptest::collection::vec(any::<u16>(), 0..3)).prop_map(|(caller, client, ids)| Op::RemoveExpiredAllocs { caller, client, ids }),
        2 => (0u8..8, 0u8..2, proptest::collection::vec(any::<u16>(), 0..2)).prop_map(|(caller, provider, ids)| Op::RemoveExpiredClaims { caller, provider, ids }),
        2 => (0u8..5, proptest::collection::vec((any::<u16>(), prop_oneof![5 => 0i32..(400*2880), 1 => -5i32..0, 1 => Just(i32::MAX)]), 1..3)).prop_map(|(caller, terms)| Op::ExtendTerms { caller, terms }),
        2 => (0u8..4, 1u32..3000, 0u8..4, 0u8..4, prop_oneof![10 => Just(false), 1 => Just(true)]).prop_map(|(client, mib, sig1, sig2, same_verifier)| Op::RemoveDataCap { client, mib, sig1, sig2, same_verifier }),
        1 => (0u8..5, 0u8..6, 1u16..100).prop_map(|(from, to, mib)| Op::TokenTransfer { from, to, mib }),
        1 => (0u8..5, 1u16..100).prop_map(|(from, mib)| Op::TokenBurn { from, mib }),
        3 => (0u32..5000).prop_map(|epochs| Op::Advance { epochs }),
        3 => prop_oneof![Just(59u16), Just(60u16), Just(61u16), 1u16..400, 400u16..2000].prop_map(|days| Op::AdvanceDays { days }),
        4 => (prop_oneof![3 => Just(false), 1 => Just(true)], any::<u16>(), -1i8..2).prop_map(|(claim, which, delta)| Op::AdvanceToExpiry { claim, which, delta }),
    ]
}

#[derive(Clone, Debug, PartialEq, Eq)]
struct Alloc {
    client: ActorID,
    provider: ActorID,
    data: Cid,
    size: u64,
    term_min: i64,
    term_max: i64,
    expiration: i64,
}
#[derive(Clone, Debug, PartialEq, Eq)]
struct Claim {
    provider: ActorID,
    client: ActorID,
    data: Cid,
    size: u64,
    term_min: i64,
    term_max: i64,
    term_start: i64,
    sector: u64,
}

#[derive(Clone, Debug, Default)]
struct Snap {
    supply: BigInt,
    bal: BTreeMap<ActorID, BigInt>,
    bal_sum: BigInt,
    caps: BTreeMap<ActorID, BigInt>,
    allocs: BTreeMap<u64, Alloc>,
    claims: BTreeMap<u64, Claim>,
    next_id: u64,
}

#[derive(Clone, Debug, PartialEq, Eq)]
enum End {
    Claimed,
    Refunded,
}

struct Ctx<'a> {
    f: Fixture,
    verifiers: Vec<ActorID>,
    holders: Vec<ActorID>,
    stats: &'a mut CaseStats,
    ever_alloc: BTreeMap<u64, Alloc>,
    ended: BTreeMap<u64, End>,
    ever_claim_term_max: BTreeMap<u64, i64>,
    proposal_ids: BTreeMap<(ActorID, ActorID), u64>,
    competing: BTreeMap<u64, u32>,
}

impl Ctx<'_> {
    fn snap(&self) -> Snap {
        let v = &self.f.w.v;
        let store = &*v.store;
        let dc: fil_actor_datacap::State = v.get_state(DATACAP_TOKEN_ACTOR_ID).unwrap();
        let mut s = Snap { supply: dc.token.supply.atto().clone(), ..Default::default() };
        let bm = dc.token.get_balance_map(store).expect("balances");
        bm.for_each(|_, a: &TokenAmount| {
            s.bal_sum += a.atto();
            Ok(())
        })
        .expect("iter");
        for h in &self.holders {
            let b = dc.token.get_balance(store, *h).expect("bal");
            if !b.is_zero() {
                s.bal.insert(*h, b.atto().clone());
            }
        }
        let st: vr::State = v.get_state(VERIFIED_REGISTRY_ACTOR_ID).unwrap();
        s.next_id = st.next_allocation_id;
        let ver = st.load_verifiers(store).expect("verifiers");
        ver.for_each(|k, c| {
            s.caps.insert(k.id().unwrap(), c.0.clone());
            Ok(())
        })
        .expect("iter");
        let mut allocs = st.load_allocs(store).expect("allocs");
        let mut owners = vec![];
        allocs.for_each(|k, _| {
            owners.push(parse_uint_key(k)?);
            Ok(())
        }).expect("iter");
        for o in owners {
            allocs.for_each_in(o, |k, a: &vr::Allocation| {
                s.allocs.insert(parse_uint_key(k)?, Alloc { client: a.client, provider: a.provider, data: a.data, size: a.size.0, term_min: a.term_min, term_max: a.term_max, expiration: a.expiration });
                Ok(())
            }).expect("iter");
        }
        let mut claims = st.load_claims(store).expect("claims");
        let mut owners = vec![];
        claims.for_each(|k, _| {
            owners.push(parse_uint_key(k)?);
            Ok(())
        }).expect("iter");
        for o in owners {
            claims.for_each_in(o, |k, c: &vr::Claim| {
                s.claims.insert(parse_uint_key(k)?, Claim { provider: c.provider, client: c.client, data: c.data, size: c.size.0, term_min: c.term_min, term_max: c.term_max, term_start: c.term_start, sector: c.sector });
                Ok(())
            }).expect("iter");
        }
        s
    }

    fn root_call<T: Serialize>(&self, method: MethodNum, p: &T) -> (MsgResult, bool) {
        let w = &self.f.w;
        let r = w.call(
            w.root_signer,
            w.root_msig,
            fil_actor_multisig::Method::Propose as u64,
            &TokenAmount::zero(),
            &fil_actor_multisig::ProposeParams { to: Address::new_id(VERIFIED_REGISTRY_ACTOR_ID), value: TokenAmount::zero(), method, params: RawBytes::serialize(p).unwrap() },
        );
        let ok = r.de::<fil_actor_multisig::ProposeReturn>().map(|x| x.applied && x.code.is_success()).unwrap_or(false);
        (r, ok)
    }
}

/// expected per-message token effects derived from the operation's protocol meaning
#[derive(Default, Debug)]
struct Expect {
    mint: BTreeMap<ActorID, BigInt>,
    spend_ext: BTreeMap<ActorID, BigInt>,
    destroy: BTreeMap<ActorID, BigInt>,
    burn: BTreeMap<ActorID, BigInt>,
    may_create_allocs_for: Option<ActorID>,
    may_claim_by: Option<ActorID>,
    may_refund_for: Option<ActorID>,
    may_remove_claims_of: Option<ActorID>,
    may_change_caps: bool,
}

pub struct C09;

impl Engine for C09 {
    type Case = Case;
    fn id(&self) -> &'static str {
        "C09"
    }
    fn budget(&self, tier: Tier) -> (u32, u32) {
        match tier {
            Tier::Quick => (16, 5000),
            Tier::Thorough => (16, 40000),
        }
    }
    fn strategy(&self, tier: Tier) -> BoxedStrategy<Case> {
        let n = if tier == Tier::Quick { 40 } else { 60 };
        proptest::collection::vec(op_strategy(), 0..n).prop_map(|ops| Case { ops }).boxed()
    }
    fn rule(&self) -> String {
        "case = setup (2 verifiers with caps, 3 funded clients) + ≤40/60 operations: verifier add/remove through the root multisig, grants at/over the remaining allowance, direct datacap transfers to the registry with allocation and extension requests (sizes/terms/expirations at and beyond limits, amount ≠ Σ sizes), claim batches as the real miner actors (repeated ids within/across sectors, foreign client, wrong data/size, expired, sector life outside the term, all-or-nothing), RemoveExpiredAllocations/Claims (explicit, implicit, duplicates), ExtendClaimTerms, RemoveVerifiedClientDataCap with good/bad/replayed signatures, holder transfers and burns, epoch jumps around 60 days / claim terms. non-trivial = some allocation was the target of ≥2 competing operations (claim/claim, claim/refund, refund/refund) and at least one allocation ended; distinct by case hash".into()
    }
    fn assumptions(&self) -> Vec<String> {
        vec![
            "actors run natively on SimVM; ClaimAllocations is sent as the real miner actors by implicit messages".into(),
            "verifier signatures are faked but signer-bound".into(),
            "token holders are the fixture's known actors; Σ balances is taken over the whole balance map".into(),
            "a RemoveExpiredAllocations call naming one expired id twice panics in the actor (unwrap) and aborts; that is labelled, not a C09 violation".into(),
        ]
    }
    fn required_labels(&self) -> Vec<(&'static str, f64)> {
        vec![("allocated", 0.4), ("claimed", 0.12), ("refunded", 0.05), ("competing_ops_on_allocation", 0.1)]
    }

    fn run(&self, case: &Case, stats: &mut CaseStats) -> VResult {
        let f = Fixture::new();
        let verifiers: Vec<ActorID> = (0..3).map(|i| f.w.account(50 + i, &TokenAmount::from_whole(100))).collect();
        let mut holders = f.parties();
        holders.extend(&verifiers);
        holders.push(VERIFIED_REGISTRY_ACTOR_ID);
        holders.push(STORAGE_MARKET_ACTOR_ID);
        holders.push(f.w.root_signer);
        holders.push(f.w.root_msig);
        let mut c = Ctx { f, verifiers, holders, stats, ever_alloc: BTreeMap::new(), ended: BTreeMap::new(), ever_claim_term_max: BTreeMap::new(), proposal_ids: BTreeMap::new(), competing: BTreeMap::new() };
        // setup prefix (through the real paths)
        let prefix = vec![
            Op::AddVerifier { v: 0, cap_mib: 4000 },
            Op::AddVerifier { v: 1, cap_mib: 2000 },
            Op::Grant { by: 0, client: 0, pm: 300 },
            Op::Grant { by: 0, client: 1, pm: 300 },
            Op::Grant { by: 1, client: 2, pm: 500 },
        ];
        let mut n = 0;
        for op in prefix.iter().chain(case.ops.iter()) {
            step(&mut c, n, op)?;
            n += 1;
        }
        let l = &c.stats.labels;
        let nt = l.contains("competing_ops_on_allocation") && (l.contains("claimed") || l.contains("refunded"));
        c.stats.nontrivial = nt;
        Ok(())
    }
}

fn step(c: &mut Ctx, i: usize, op: &Op) -> VResult {
    let before = c.snap();
    let epoch = c.f.w.v.epoch();
    let zero = TokenAmount::zero();
    let clients = c.f.clients.clone();
    let people: Vec<ActorID> = {
        let mut v = clients.clone();
        v.push(c.f.stranger);
        v.extend(&c.verifiers);
        v
    };
    let mut ex = Expect::default();
    let mib = |n: u64| BigInt::from(n) << 20;
    let alloc_ids: Vec<u64> = before.allocs.keys().copied().collect();
    let claim_ids: Vec<u64> = before.claims.keys().copied().collect();
    let pick_alloc = |r: u16| -> u64 {
        let known: Vec<u64> = c.ever_alloc.keys().copied().collect();
        if r % 4 != 0 && !alloc_ids.is_empty() { alloc_ids[pick(r, alloc_ids.len())] } else if !known.is_empty() && r % 8 != 0 { known[pick(r, known.len())] } else { before.next_id + 2 }
    };
    let pick_claim = |r: u16| -> u64 { if r % 4 != 0 && !claim_ids.is_empty() { claim_ids[pick(r, claim_ids.len())] } else { before.next_id + 3 } };
    match op {
        Op::Advance { epochs } => {
            c.f.w.v.set_epoch(epoch + *epochs as i64);
            return Ok(());
        }
        Op::AdvanceDays { days } => {
            c.f.w.v.set_epoch(epoch + *days as i64 * DAY);
            return Ok(());
        }
        Op::AdvanceToExpiry { claim, which, delta } => {
            let target = if *claim {
                let v: Vec<i64> = before.claims.values().map(|x| x.term_start + x.term_max).collect();
                if v.is_empty() { None } else { Some(v[pick(*which, v.len())]) }
            } else {
                let v: Vec<i64> = before.allocs.values().map(|x| x.expiration).collect();
                if v.is_empty() { None } else { Some(v[pick(*which, v.len())]) }
            };
            if let Some(t) = target {
                if t + *delta as i64 > epoch {
                    c.f.w.v.set_epoch(t + *delta as i64);
                    c.stats.label("jump_to_expiry_boundary");
                }
            }
            return Ok(());
        }
        Op::AddVerifier { v, cap_mib } => {
            let who = c.verifiers[*v as usize % c.verifiers.len()];
            let (r, ok) = c.root_call(vr::Method::AddVerifier as u64, &vr::AddVerifierParams { address: Address::new_id(who), allowance: mib(*cap_mib as u64) });
            c.stats.say(|| format!("op {i}: AddVerifier {who} {cap_mib} MiB -> {} inner ok={ok}", r.code.value()));
            ex.may_change_caps = true;
            if ok {
                vassert!(before.bal.get(&who).map(|b| b.is_zero()).unwrap_or(true), "client-became-verifier", "token holder {} became a verifier", who);
            }
        }
        Op::RemoveVerifier { v } => {
            let who = c.verifiers[*v as usize % c.verifiers.len()];
            let (r, ok) = c.root_call(vr::Method::RemoveVerifier as u64, &vr::RemoveVerifierParams { verifier: Address::new_id(who) });
            c.stats.say(|| format!("op {i}: RemoveVerifier {who} -> {} inner ok={ok}", r.code.value()));
            ex.may_change_caps = true;
        }
        Op::Grant { by, client, pm } => {
            let mut callers = c.verifiers.clone();
            callers.push(c.f.stranger);
            let by = callers[*by as usize % callers.len()];
            let client = people[*client as usize % people.len()];
            let cap = before.caps.get(&by).cloned().unwrap_or_default();
            let mut amount = (&cap * BigInt::from(*pm)) / BigInt::from(1000);
            if *pm == 1001 {
                amount = &cap + BigInt::from(1);
            }
            let r = c.f.w.call(by, VERIFIED_REGISTRY_ACTOR_ID, vr::Method::AddVerifiedClient as u64, &zero, &vr::AddVerifiedClientParams { address: Address::new_id(client), allowance: amount.clone() });
            c.stats.say(|| format!("op {i}: Grant by {by} to {client} amount {amount} (cap {cap}) -> {} {}", r.code.value(), r.message));
            if r.ok() {
                vassert!(before.caps.contains_key(&by), "grant-by-non-verifier", "{} granted datacap without being a verifier", by);
                vassert!(amount <= cap, "grant-exceeds-allowance", "granted {} with allowance {}", amount, cap);
                vassert!(amount >= BigInt::from(MIN_SIZE), "grant-below-minimum", "granted {}", amount);
                vassert!(!before.caps.contains_key(&client), "verifier-became-client", "verifier {} was granted datacap", client);
                let after = c.snap();
                let new_cap = after.caps.get(&by).cloned().unwrap_or_default();
                vassert!(new_cap == &cap - &amount, "allowance-not-decreased-exactly", "verifier allowance {} -> {} after granting {}", cap, new_cap, amount);
                ex.mint.insert(client, tok(&amount));
                ex.may_change_caps = true;
                c.stats.label("granted");
                if amount == cap {
                    c.stats.label("grant_exactly_remaining_allowance");
                }
            }
        }
        Op::Allocate { client, allocs, extend, amount_delta } => {
            let client = people[*client as usize % people.len()];
            let mut reqs = vec![];
            let mut total = BigInt::zero();
            let mut why: Option<&'static str> = None;
            for a in allocs {
                let provider = if a.provider < 2 { c.f.miners[a.provider as usize] } else { c.f.stranger };
                let size = 1u64 << a.size_log;
                let term_min = MIN_TERM + a.term_min_extra as i64;
                let mut term_max = term_min + a.term_span as i64;
                if a.over_max_term {
                    term_max = MAX_TERM + 1;
                }
                let expiration = epoch + a.exp_in as i64;
                if a.provider >= 2 {
                    why = why.or(Some("provider is not a miner"));
                }
                if size < MIN_SIZE {
                    why = why.or(Some("size below minimum"));
                }
                if term_min < MIN_TERM || term_max > MAX_TERM || term_min > term_max {
                    why = why.or(Some("term out of bounds"));
                }
                if expiration < epoch || expiration > epoch + MAX_EXP {
                    why = why.or(Some("expiration out of bounds"));
                }
                total += BigInt::from(size);
                reqs.push(vr::AllocationRequest { provider, data: make_piece_cid(&[a.data, 7]), size: PaddedPieceSize(size), term_min, term_max, expiration });
            }
            let mut exts = vec![];
            let mut ext_total = BigInt::zero();
            for (cr, add) in extend {
                let id = pick_claim(*cr);
                match before.claims.get(&id) {
                    Some(cl) => {
                        let new_max = if *add == i32::MAX { MAX_TERM * 3 } else { cl.term_max + *add as i64 };
                        if new_max <= cl.term_max {
                            why = why.or(Some("extension does not increase the term"));
                        }
                        if new_max > epoch + MAX_TERM - cl.term_start {
                            why = why.or(Some("extension beyond the term limit"));
                        }
                        if epoch > cl.term_start + cl.term_max {
                            why = why.or(Some("claim already expired"));
                        }
                        total += BigInt::from(cl.size);
                        ext_total += BigInt::from(cl.size);
                        exts.push(vr::ClaimExtensionRequest { provider: cl.provider, claim: id, term_max: new_max });
                    }
                    None => {
                        why = why.or(Some("no such claim"));
                        exts.push(vr::ClaimExtensionRequest { provider: c.f.miners[0], claim: id, term_max: MAX_TERM });
                    }
                }
            }
            let amount_dc = &total + BigInt::from(*amount_delta);
            if *amount_delta != 0 {
                why = why.or(Some("amount differs from the total requested size"));
            }
            if amount_dc.is_negative() {
                return Ok(());
            }
            let bal = before.bal.get(&client).cloned().unwrap_or_default();
            if tok(&amount_dc) > bal {
                why = why.or(Some("insufficient datacap"));
            }
            let params = TransferParams {
                to: Address::new_id(VERIFIED_REGISTRY_ACTOR_ID),
                amount: TokenAmount::from_atto(tok(&amount_dc)),
                operator_data: RawBytes::serialize(&vr::AllocationRequests { allocations: reqs.clone(), extensions: exts.clone() }).unwrap(),
            };
            let r = c.f.w.call(client, DATACAP_TOKEN_ACTOR_ID, fil_actor_datacap::Method::TransferExported as u64, &zero, &params);
            c.stats.say(|| format!("op {i}: Allocate client {client} {} allocs {} exts amount {amount_dc} (delta {amount_delta}) -> {} {} (model: {:?})", reqs.len(), exts.len(), r.code.value(), r.message, why));
            if r.ok() {
                if let Some(w) = why {
                    vfail!("allocation-accepted", "transfer with allocation requests accepted although: {}", w);
                }
                let ret: TransferReturn = r.de().ok_or_else(|| Violation::new("transfer-return", "undecodable"))?;
                let resp: vr::AllocationsResponse = fvm_ipld_encoding::from_slice(&ret.recipient_data).map_err(|_| Violation::new("alloc-response", "undecodable"))?;
                vassert!(resp.new_allocations.len() == reqs.len(), "alloc-ids-len", "{} ids for {} requests", resp.new_allocations.len(), reqs.len());
                ex.may_create_allocs_for = Some(client);
                ex.spend_ext.insert(client, tok(&ext_total));
                if !reqs.is_empty() {
                    c.stats.label("allocated");
                }
                if !exts.is_empty() {
                    c.stats.label("claim_extended_with_datacap");
                }
            } else if why.is_none() {
                c.stats.label("impl_stricter_than_model");
            }
        }
        Op::Claim { miner, sectors, all_or_nothing } => {
            let mut miner = c.f.miners[*miner as usize % 2];
            if let Some(a) = sectors.first().and_then(|s| s.claims.first()).and_then(|cs| c.ever_alloc.get(&pick_alloc(cs.alloc))) {
                if sectors.len() % 4 != 3 && c.f.miners.contains(&a.provider) {
                    miner = a.provider; // mostly the allocation's own provider
                }
            }
            let mut open = before.allocs.clone();
            let mut group_ok: Vec<bool> = vec![];
            let mut must_abort = false;
            let mut params_sectors = vec![];
            for s in sectors {
                let mut entries = vec![];
                let mut ok = true;
                let mut seen = BTreeSet::new();
                let mut dup = false;
                let first_alloc = s.claims.first().map(|cs| pick_alloc(cs.alloc)).and_then(|id| c.ever_alloc.get(&id).cloned());
                let base = first_alloc.map(|a| a.term_min).unwrap_or(MIN_TERM);
                let expiry = if s.life_rel == i32::MAX { epoch + MAX_TERM + 10 } else { epoch + base + s.life_rel as i64 };
                for cs in &s.claims {
                    let id = pick_alloc(cs.alloc);
                    *c.competing.entry(id).or_default() += 1;
                    let known = c.ever_alloc.get(&id).cloned();
                    let (mut client, mut data, mut size) = match &known {
                        Some(a) => (a.client, a.data, a.size),
                        None => (clients[0], make_piece_cid(b"none"), MIN_SIZE),
                    };
                    match cs.mutate {
                        Mutate::None => {}
                        Mutate::WrongClient => client = c.f.stranger,
                        Mutate::WrongData => data = make_piece_cid(b"other"),
                        Mutate::WrongSize => size *= 2,
                    }
                    entries.push(vr::AllocationClaim { client, allocation_id: id, data, size: PaddedPieceSize(size) });
                    let valid = match open.get(&id) {
                        None => false,
                        Some(a) => {
                            let life = expiry - epoch;
                            a.provider == miner && a.client == client && a.data == data && a.size == size && epoch <= a.expiration && life >= a.term_min && life <= a.term_max
                        }
                    };
                    if !seen.insert(id) {
                        dup = true;
                    }
                    ok &= valid;
                }
                if ok && dup {
                    must_abort = true; // the same open allocation twice in one (otherwise valid) sector group
                }
                if ok && !must_abort {
                    for e in &entries {
                        open.remove(&e.allocation_id);
                    }
                }
                group_ok.push(ok);
                params_sectors.push(vr::SectorAllocationClaims { sector: s.sector as u64, expiry, claims: entries });
            }
            let p = vr::ClaimAllocationsParams { sectors: params_sectors.clone(), all_or_nothing: *all_or_nothing };
            let r = c.f.w.call(miner, VERIFIED_REGISTRY_ACTOR_ID, vr::Method::ClaimAllocations as u64, &zero, &p);
            c.stats.say(|| format!("op {i}: Claim by {miner} {params_sectors:?} aon={all_or_nothing} -> {} {} (model groups {group_ok:?} abort {must_abort})", r.code.value(), r.message));
            if r.ok() {
                vassert!(!must_abort, "double-claim-in-group", "a sector group naming one allocation twice succeeded");
                let ret: vr::ClaimAllocationsReturn = r.de().ok_or_else(|| Violation::new("claim-return", "undecodable"))?;
                let codes = ret.sector_results.codes();
                for (j, ok) in group_ok.iter().enumerate() {
                    if codes[j].is_success() {
                        vassert!(*ok, "claim-accepted", "sector group {} claimed although the protocol forbids it: {:?}", j, params_sectors[j]);
                    } else if *ok {
                        c.stats.label("impl_stricter_than_model");
                    }
                }
                vassert!(!(*all_or_nothing && codes.iter().any(|x| !x.is_success())), "all-or-nothing-ignored", "all_or_nothing call succeeded with failed groups");
                ex.may_claim_by = Some(miner);
                if codes.iter().any(|x| x.is_success()) {
                    c.stats.label("claimed");
                }
                if codes.iter().any(|x| !x.is_success()) {
                    c.stats.label("claim_group_rejected");
                }
            }
        }
        Op::RemoveExpiredAllocs { caller, client, ids } => {
            let caller_sel = *caller;
            let caller = people[*caller as usize % people.len()];
            let mut client = people[*client as usize % people.len()];
            let ids: Vec<u64> = ids.iter().map(|r| pick_alloc(*r)).collect();
            if let Some(a) = ids.first().and_then(|id| c.ever_alloc.get(id)) {
                if caller_sel % 4 != 3 {
                    client = a.client;
                }
            }
            for id in &ids {
                *c.competing.entry(*id).or_default() += 1;
            }
            let r = c.f.w.call(caller, VERIFIED_REGISTRY_ACTOR_ID, vr::Method::RemoveExpiredAllocations as u64, &zero, &vr::RemoveExpiredAllocationsParams { client, allocation_ids: ids.clone() });
            c.stats.say(|| format!("op {i}: RemoveExpiredAllocations client {client} ids {ids:?} at {epoch} -> {} {}", r.code.value(), r.message));
            if r.trace.panicked.is_some() || r.trace.any(&|t| t.panicked.is_some()) {
                c.stats.label("remove_expired_duplicate_id_panics");
            }
            if r.ok() {
                ex.may_refund_for = Some(client);
            }
        }
        Op::RemoveExpiredClaims { caller, provider, ids } => {
            let caller = people[*caller as usize % people.len()];
            let provider = c.f.miners[*provider as usize % 2];
            let ids: Vec<u64> = ids.iter().map(|r| pick_claim(*r)).collect();
            let r = c.f.w.call(caller, VERIFIED_REGISTRY_ACTOR_ID, vr::Method::RemoveExpiredClaims as u64, &zero, &vr::RemoveExpiredClaimsParams { provider, claim_ids: ids.clone() });
            c.stats.say(|| format!("op {i}: RemoveExpiredClaims provider {provider} ids {ids:?} at {epoch} -> {} {}", r.code.value(), r.message));
            if r.ok() {
                ex.may_remove_claims_of = Some(provider);
            }
        }
        Op::ExtendTerms { caller, terms } => {
            let caller = people[*caller as usize % people.len()];
            let mut ps = vec![];
            let mut verdicts = vec![];
            for (cr, add) in terms {
                let id = pick_claim(*cr);
                match before.claims.get(&id) {
                    Some(cl) => {
                        let new_max = if *add == i32::MAX { MAX_TERM + 1 } else { cl.term_max + *add as i64 };
                        verdicts.push(cl.client == caller && new_max >= cl.term_max && new_max <= MAX_TERM);
                        ps.push(vr::ClaimTerm { provider: cl.provider, claim_id: id, term_max: new_max });
                    }
                    None => {
                        verdicts.push(false);
                        ps.push(vr::ClaimTerm { provider: c.f.miners[0], claim_id: id, term_max: MAX_TERM });
                    }
                }
            }
            let r = c.f.w.call(caller, VERIFIED_REGISTRY_ACTOR_ID, vr::Method::ExtendClaimTerms as u64, &zero, &vr::ExtendClaimTermsParams { terms: ps.clone() });
            c.stats.say(|| format!("op {i}: ExtendClaimTerms by {caller} {ps:?} -> {} {}", r.code.value(), r.message));
            if r.ok() {
                let ret: vr::ExtendClaimTermsReturn = r.de().ok_or_else(|| Violation::new("extend-return", "undecodable"))?;
                let codes = ret.codes();
                // the same claim may appear twice; verdicts are per entry against the state before the
                // message, which is exact unless an earlier entry changed the same claim
                let mut touched = BTreeSet::new();
                for (j, v) in verdicts.iter().enumerate() {
                    let first = touched.insert(ps[j].claim_id);
                    if codes[j].is_success() && first {
                        vassert!(*v, "term-extension-accepted", "claim term change accepted although forbidden: {:?} by {}", ps[j], caller);
                        c.stats.label("claim_term_extended_by_client");
                    }
                }
            }
        }
        Op::RemoveDataCap { client, mib: m, sig1, sig2, same_verifier } => {
            let client = people[*client as usize % people.len()];
            let v1 = c.verifiers[0];
            let v2 = if *same_verifier { v1 } else { c.verifiers[1] };
            let amount = mib(*m as u64);
            let mk = |c: &Ctx, v: ActorID, kind: u8| -> (vr::RemoveDataCapRequest, bool) {
                let id = c.proposal_ids.get(&(v, client)).copied().unwrap_or(0);
                // kind: 0,1 good; 2 stale id; 3 garbage
                let use_id = if kind == 2 { id.wrapping_sub(1) } else { id };
                let prop = vr::RemoveDataCapProposal { verified_client: Address::new_id(client), data_cap_amount: amount.clone(), removal_proposal_id: vr::RemoveDataCapProposalID { id: use_id } };
                let mut payload = vr::SIGNATURE_DOMAIN_SEPARATION_REMOVE_DATA_CAP.to_vec();
                payload.extend(RawBytes::serialize(&prop).unwrap().bytes());
                let bytes = if kind == 3 { vec![9; 8] } else { sign(&c.f.key_of(v), &payload) };
                (vr::RemoveDataCapRequest { verifier: Address::new_id(v), signature: Signature { sig_type: SignatureType::BLS, bytes } }, kind < 2 || (kind == 2 && use_id == id))
            };
            let (r1, g1) = mk(c, v1, *sig1);
            let (r2, g2) = mk(c, v2, *sig2);
            let (r, ok) = c.root_call(vr::Method::RemoveVerifiedClientDataCap as u64, &vr::RemoveDataCapParams { verified_client_to_remove: Address::new_id(client), data_cap_amount_to_remove: amount.clone(), verifier_request_1: r1, verifier_request_2: r2 });
            c.stats.say(|| format!("op {i}: RemoveDataCap client {client} {amount} sigs {sig1},{sig2} same={same_verifier} -> {} inner ok={ok}", r.code.value()));
            if ok {
                vassert!(g1 && g2 && v1 != v2, "datacap-removed-without-two-valid-signatures", "removal accepted with signature kinds {},{} same_verifier={}", sig1, sig2, same_verifier);
                vassert!(before.caps.contains_key(&v1) && before.caps.contains_key(&v2), "removal-signed-by-non-verifier", "signers are not verifiers");
                let bal = before.bal.get(&client).cloned().unwrap_or_default();
                ex.destroy.insert(client, std::cmp::min(bal, tok(&amount)));
                *c.proposal_ids.entry((v1, client)).or_default() += 1;
                *c.proposal_ids.entry((v2, client)).or_default() += 1;
                c.stats.label("datacap_removed");
            }
        }
        Op::TokenTransfer { from, to, mib: m } => {
            let from = people[*from as usize % people.len()];
            let mut targets = people.clone();
            targets.push(c.f.miners[0]);
            let to = targets[*to as usize % targets.len()];
            let r = c.f.w.call(from, DATACAP_TOKEN_ACTOR_ID, fil_actor_datacap::Method::TransferExported as u64, &zero, &TransferParams { to: Address::new_id(to), amount: TokenAmount::from_atto(tok(&mib(*m as u64))), operator_data: RawBytes::default() });
            c.stats.say(|| format!("op {i}: token transfer {from}->{to} -> {}", r.code.value()));
            vassert!(!r.ok(), "holder-to-holder-transfer", "datacap transferred from {} to {}", from, to);
            c.stats.label("holder_transfer_rejected");
        }
        Op::TokenBurn { from, mib: m } => {
            let from = people[*from as usize % people.len()];
            let amt = tok(&mib(*m as u64));
            let r = c.f.w.call(from, DATACAP_TOKEN_ACTOR_ID, fil_actor_datacap::Method::BurnExported as u64, &zero, &BurnParams { amount: TokenAmount::from_atto(amt.clone()) });
            c.stats.say(|| format!("op {i}: token burn by {from} -> {}", r.code.value()));
            if r.ok() {
                ex.burn.insert(from, amt);
            }
        }
    }
    check_after(c, &before, &ex)
}

fn check_after(c: &mut Ctx, before: &Snap, ex: &Expect) -> VResult {
    let after = c.snap();
    let epoch = c.f.w.v.epoch();
    // I1: supply == Σ balances (whole map), known holders cover it
    vassert!(after.supply == after.bal_sum, "supply-ne-balances", "supply {} != Σ balances {}", after.supply, after.bal_sum);
    let known: BigInt = after.bal.values().sum();
    vassert!(known == after.bal_sum, "unknown-holder", "tokens held by an unexpected actor: known {} total {}", known, after.bal_sum);
    // allocation lifecycle
    let mut new_size: BTreeMap<ActorID, BigInt> = BTreeMap::new();
    for (id, a) in &after.allocs {
        match before.allocs.get(id) {
            Some(b) => vassert!(a == b, "allocation-mutated", "allocation {} changed", id),
            None => {
                vassert!(*id >= before.next_id && !c.ever_alloc.contains_key(id), "allocation-id-reused", "allocation id {} reused (next id was {})", id, before.next_id);
                vassert!(ex.may_create_allocs_for == Some(a.client), "allocation-from-nowhere", "allocation {} for client {} appeared without a matching datacap transfer", id, a.client);
                *new_size.entry(a.client).or_default() += BigInt::from(a.size);
                c.ever_alloc.insert(*id, a.clone());
            }
        }
    }
    vassert!(after.next_id >= before.next_id, "next-id-decreased", "next allocation id decreased");
    let mut claimed_size = BigInt::zero();
    let mut refunded: BTreeMap<ActorID, BigInt> = BTreeMap::new();
    for (id, a) in &before.allocs {
        if after.allocs.contains_key(id) {
            continue;
        }
        vassert!(!c.ended.contains_key(id), "allocation-ended-twice", "allocation {} ended twice", id);
        if let Some(cl) = after.claims.get(id) {
            vassert!(!before.claims.contains_key(id), "claim-preexisting", "claim {} existed before its allocation was claimed", id);
            vassert!(ex.may_claim_by == Some(a.provider) && cl.provider == a.provider, "claimed-by-foreign-provider", "allocation {} for provider {} claimed by {}", id, a.provider, cl.provider);
            vassert!(cl.client == a.client && cl.data == a.data && cl.size == a.size && cl.term_min == a.term_min && cl.term_max == a.term_max && cl.term_start == epoch, "claim-record-differs", "claim {} does not mirror its allocation", id);
            vassert!(epoch <= a.expiration, "claimed-after-expiration", "allocation {} claimed at {} after its expiration {}", id, epoch, a.expiration);
            claimed_size += BigInt::from(a.size);
            c.ended.insert(*id, End::Claimed);
        } else {
            vassert!(ex.may_refund_for == Some(a.client), "allocation-vanished", "allocation {} disappeared without claim or refund", id);
            vassert!(epoch >= a.expiration, "refunded-before-expiration", "allocation {} refunded at {} before expiration {}", id, epoch, a.expiration);
            *refunded.entry(a.client).or_default() += BigInt::from(a.size);
            c.ended.insert(*id, End::Refunded);
            c.stats.label("refunded");
        }
        if c.competing.get(id).copied().unwrap_or(0) >= 2 {
            c.stats.label("competing_ops_on_allocation");
        }
    }
    for (id, cl) in &after.claims {
        match before.claims.get(id) {
            None => {
                vassert!(before.allocs.contains_key(id), "claim-from-nowhere", "claim {} appeared without an open allocation", id);
                c.ever_claim_term_max.insert(*id, cl.term_max);
            }
            Some(b) => {
                vassert!(cl.term_max >= b.term_max, "claim-term-max-decreased", "claim {} term_max {} -> {}", id, b.term_max, cl.term_max);
                let mut x = cl.clone();
                x.term_max = b.term_max;
                vassert!(&x == b, "claim-mutated", "claim {} changed other than its term_max", id);
            }
        }
    }
    for (id, cl) in &before.claims {
        if !after.claims.contains_key(id) {
            vassert!(ex.may_remove_claims_of == Some(cl.provider), "claim-vanished", "claim {} disappeared", id);
            vassert!(epoch >= cl.term_start + cl.term_max, "claim-removed-before-expiry", "claim {} removed at {} before {}", id, epoch, cl.term_start + cl.term_max);
            c.stats.label("claim_removed");
        }
    }
    for id in c.ended.keys() {
        vassert!(!after.allocs.contains_key(id), "allocation-resurrected", "allocation {} open again after it ended", id);
    }
    // I4: registry balance == Σ open allocation sizes
    let open: BigInt = after.allocs.values().map(|a| BigInt::from(a.size)).sum();
    let reg = after.bal.get(&VERIFIED_REGISTRY_ACTOR_ID).cloned().unwrap_or_default();
    vassert!(reg == tok(&open), "registry-balance-ne-open-allocations", "registry holds {} but open allocations total {}", reg, tok(&open));
    // per-holder equations
    let get = |m: &BTreeMap<ActorID, BigInt>, k: ActorID| m.get(&k).cloned().unwrap_or_default();
    let mut supply_delta = BigInt::zero();
    for h in &c.holders {
        if *h == VERIFIED_REGISTRY_ACTOR_ID {
            continue;
        }
        let d = get(&after.bal, *h) - get(&before.bal, *h);
        let expect = get(&ex.mint, *h) - tok(&get(&new_size, *h)) - get(&ex.spend_ext, *h) + tok(&get(&refunded, *h)) - get(&ex.destroy, *h) - get(&ex.burn, *h);
        vassert!(d == expect, "holder-balance-delta", "holder {} balance changed by {} but the operation entitles {}", h, d, expect);
    }
    for m in [&ex.mint].iter().flat_map(|m| m.values()) {
        supply_delta += m;
    }
    for m in [&ex.spend_ext, &ex.destroy, &ex.burn].iter().flat_map(|m| m.values()) {
        supply_delta -= m;
    }
    supply_delta -= tok(&claimed_size);
    vassert!(&after.supply - &before.supply == supply_delta, "supply-delta", "supply changed by {} expected {} (minted − burnt)", &after.supply - &before.supply, supply_delta);
    if !ex.may_change_caps {
        vassert!(after.caps == before.caps, "verifier-caps-changed", "verifier allowances changed by an unrelated operation");
    }
    Ok(())
}
