//! C11 — privileged methods are callable only by their designated callers (DESIGN §3 C11).
//!
//! Generic caller-substitution engine: the histories of the other engines are run with a probe hook installed
//! in SimVM.  After a top-level message the hook takes calls that are *known to succeed* — the message itself
//! (from its pre-state) and successful nested invocations of its trace (replayed top-level from the post-state,
//! with the original caller as positive control) — and re-issues each with substituted callers drawn from every
//! actor kind in the state tree.  Oracle: a table of designated caller sets per (actor type, method), written
//! from the protocol documentation, evaluated on the state the call is issued in (role holders are read from
//! state).  A caller outside the designated set must be rejected; the original caller must be accepted;
//! non-built-in code and EVM contracts must be rejected on every method number below the exported range;
//! every completed invocation must have validated its caller; nothing may panic.

use crate::common::*;
use crate::simvm::{ActorEntry, MsgResult, PROBE, ProbeHook, ProbeMsg, SimVM, Snapshot, Trace};
use fil_actor_miner as mi;
use fil_actors_runtime::runtime::EMPTY_ARR_CID;
use fil_actors_runtime::runtime::builtins::Type;
use fil_actors_runtime::*;
use fvm_ipld_encoding::ipld_block::IpldBlock;
use fvm_shared::address::Address;
use fvm_shared::econ::TokenAmount;
use fvm_shared::{ActorID, MethodNum};
use num_traits::Zero;
use proptest::prelude::*;
use serde::{Deserialize, Serialize};
use std::cell::{Cell, RefCell};
use std::collections::{BTreeMap, BTreeSet};
use std::rc::Rc;

const FIRST_EXPORTED: u64 = 1 << 24;
const ALIEN_ID: ActorID = 9_999_999;

#[derive(Clone, Debug, Serialize, Deserialize)]
pub enum Inner {
    Sys(crate::engines::sys::ops::SysCase),
    Market(crate::engines::market::Case),
    Msig(crate::engines::c12_multisig::Case),
    Paych(crate::engines::c16_paych::Case),
    Datacap(crate::engines::c09_datacap::Case),
    Identity(crate::engines::c20_identity::Case),
    Control(crate::engines::c13_control::Case),
    Evm(crate::engines::evmsys::Script),
}

#[derive(Clone, Debug, Serialize, Deserialize)]
pub struct Case {
    pub seed: u64,
    /// probe every `rate`-th message (1 = all)
    pub rate: u8,
    pub inner: Inner,
}

#[derive(Clone, Debug)]
pub enum Allow {
    Any,
    Set { ids: BTreeSet<ActorID>, types: Vec<Type> },
}

impl Allow {
    fn ids(v: impl IntoIterator<Item = ActorID>) -> Allow {
        Allow::Set { ids: v.into_iter().collect(), types: vec![] }
    }
    fn ty(t: Type) -> Allow {
        Allow::Set { ids: BTreeSet::new(), types: vec![t] }
    }
    fn contains(&self, id: ActorID, t: Option<Type>) -> bool {
        match self {
            Allow::Any => true,
            Allow::Set { ids, types } => ids.contains(&id) || t.map(|t| types.contains(&t)).unwrap_or(false),
        }
    }
    fn is_any(&self) -> bool {
        matches!(self, Allow::Any)
    }
}

fn id_of(a: &Address) -> Option<ActorID> {
    a.id().ok()
}

pub struct MinerRoles {
    pub owner: ActorID,
    pub worker: ActorID,
    pub controls: Vec<ActorID>,
    pub beneficiary: ActorID,
    pub pending_owner: Option<ActorID>,
    pub nominee: Option<ActorID>,
}

pub fn miner_roles(vm: &SimVM, id: ActorID) -> Option<MinerRoles> {
    let st: mi::State = vm.get_state(id)?;
    let info = st.get_info(&*vm.store).ok()?;
    Some(MinerRoles {
        owner: id_of(&info.owner)?,
        worker: id_of(&info.worker)?,
        controls: info.control_addresses.iter().filter_map(id_of).collect(),
        beneficiary: id_of(&info.beneficiary)?,
        pending_owner: info.pending_owner_address.as_ref().and_then(id_of),
        nominee: info.pending_beneficiary_term.as_ref().and_then(|p| id_of(&p.new_beneficiary)),
    })
}

/// FRC-0042 method number: first four bytes (big endian) of blake2b-512("1|" + name) that are >= 2^24
fn h(name: &str) -> u64 {
    use fil_actors_runtime::runtime::Primitives;
    let p = fil_actors_runtime::test_utils::FakePrimitives::default();
    let digest = p.hash(fvm_shared::crypto::hash::SupportedHashes::Blake2b512, format!("1|{name}").as_bytes());
    for chunk in digest.chunks(4) {
        if chunk.len() < 4 {
            break;
        }
        let n = u32::from_be_bytes([chunk[0], chunk[1], chunk[2], chunk[3]]) as u64;
        if n >= FIRST_EXPORTED {
            return n;
        }
    }
    panic!("no method number for {name}")
}

/// The designated callers of `method` on the actor `to` (of type `ty`) in the current state of `vm`.
/// None = the table does not know this method number (no expectation).
pub fn designated(vm: &SimVM, to: ActorID, ty: Type, method: MethodNum, params: &Option<IpldBlock>) -> Option<Allow> {
    use Allow::*;
    let sys = || Allow::ids([SYSTEM_ACTOR_ID]);
    if method == 1 {
        // constructors run once, from the system actor (singletons, accounts) or from the init actor (everything Exec'd)
        return Some(Allow::ids([SYSTEM_ACTOR_ID, INIT_ACTOR_ID]));
    }
    let m = method;
    Some(match ty {
        Type::System => return None,
        Type::Init => match m {
            2 => Any,
            3 => Allow::ids([EAM_ACTOR_ID]),
            _ => return None,
        },
        Type::Cron => match m {
            2 => sys(),
            _ => return None,
        },
        Type::Account => match m {
            2 => Any,
            x if x == h("AuthenticateMessage") => Any,
            _ => return None,
        },
        Type::Reward => match m {
            2 => sys(),
            3 => Any,
            4 => Allow::ids([STORAGE_POWER_ACTOR_ID]),
            _ => return None,
        },
        Type::Power => match m {
            2 => Any,
            3 | 4 | 6 => Allow::ty(Type::Miner),
            5 => Allow::ids([CRON_ACTOR_ID]),
            9 => Any,
            x if [h("CreateMiner"), h("NetworkRawPower"), h("MinerRawPower"), h("MinerCount"), h("MinerConsensusCount"), h("MinerPower")].contains(&x) => Any,
            _ => return None,
        },
        Type::Market => match m {
            2 | 3 | 4 => Any,
            5 | 6 | 7 => Allow::ty(Type::Miner),
            9 => Allow::ids([CRON_ACTOR_ID]),
            x if x == h("SectorContentChanged") => Allow::ty(Type::Miner),
            x if x >= FIRST_EXPORTED => Any,
            _ => return None,
        },
        Type::Miner => {
            let r = miner_roles(vm, to)?;
            let control: Vec<ActorID> = [r.owner, r.worker].into_iter().chain(r.controls.iter().copied()).collect();
            let owner_only = [h("ChangeWorkerAddress"), h("ConfirmChangeWorkerAddress")];
            let control_any = [h("ChangePeerID"), h("ChangeMultiaddrs"), h("RepayDebt")];
            match m {
                2 | 13 | 15 | 24 | 31 => Any,
                3 | 21 => Allow::ids([r.owner]),
                4 | 18 | 5 | 9 | 10 | 11 | 19 | 20 | 22 | 28 | 32 | 34 | 35 | 36 => Allow::ids(control),
                12 => Allow::ids([STORAGE_POWER_ACTOR_ID]),
                14 => Allow::ids([REWARD_ACTOR_ID]),
                16 => Allow::ids([r.owner, r.beneficiary]),
                17 => sys(),
                23 => Allow::ids([Some(r.owner), r.pending_owner].into_iter().flatten()),
                30 => Allow::ids([Some(r.owner), Some(r.beneficiary), r.nominee].into_iter().flatten()),
                x if owner_only.contains(&x) => Allow::ids([r.owner]),
                x if control_any.contains(&x) => Allow::ids(control),
                x if x == h("WithdrawBalance") => Allow::ids([r.owner, r.beneficiary]),
                x if x == h("ChangeOwnerAddress") => Allow::ids([Some(r.owner), r.pending_owner].into_iter().flatten()),
                x if x == h("ChangeBeneficiary") => Allow::ids([Some(r.owner), Some(r.beneficiary), r.nominee].into_iter().flatten()),
                x if x >= FIRST_EXPORTED => Any, // read-only getters
                _ => return None,
            }
        }
        Type::Multisig => {
            let st: fil_actor_multisig::State = vm.get_state(to)?;
            let signers: Vec<ActorID> = st.signers.iter().filter_map(id_of).collect();
            match m {
                2 | 3 => Allow::ids(signers),
                4 => {
                    // Cancel: only the proposer of that transaction (the first approver on record)
                    let p: Option<fil_actor_multisig::TxnIDParams> = params.as_ref().and_then(|b| b.deserialize().ok());
                    let proposer = p.and_then(|p| {
                        let ptx = fil_actor_multisig::PendingTxnMap::load(&*vm.store, &st.pending_txs, fil_actor_multisig::PENDING_TXN_CONFIG, "pending").ok()?;
                        let tx = ptx.get(&p.id).ok()??.clone();
                        tx.approved.first().and_then(id_of)
                    });
                    match proposer {
                        Some(pr) => Allow::ids([pr]),
                        None => Allow::ids(signers),
                    }
                }
                5..=9 => Allow::ids([to]),
                x if x == h("Receive") => Any,
                _ => return None,
            }
        }
        Type::PaymentChannel => {
            let st: fil_actor_paych::State = vm.get_state(to)?;
            match m {
                2 | 3 | 4 => Allow::ids([id_of(&st.from)?, id_of(&st.to)?]),
                _ => return None,
            }
        }
        Type::VerifiedRegistry => {
            let st: fil_actor_verifreg::State = vm.get_state(to)?;
            let root = vm.resolve(&st.root_key)?;
            match m {
                2 | 3 | 7 => Allow::ids([root]),
                4 => {
                    let mut v = BTreeSet::new();
                    let ver = st.load_verifiers(&*vm.store).ok()?;
                    ver.for_each(|k, _| {
                        if let Ok(i) = k.id() {
                            v.insert(i);
                        }
                        Ok(())
                    })
                    .ok()?;
                    Allow::Set { ids: v, types: vec![] }
                }
                x if x == h("AddVerifiedClient") => {
                    let mut v = BTreeSet::new();
                    let ver = st.load_verifiers(&*vm.store).ok()?;
                    ver.for_each(|k, _| {
                        if let Ok(i) = k.id() {
                            v.insert(i);
                        }
                        Ok(())
                    })
                    .ok()?;
                    Allow::Set { ids: v, types: vec![] }
                }
                8 | 10 | 11 | 12 => Any,
                9 => Allow::ty(Type::Miner),
                x if x == h("Receive") => Allow::ids([DATACAP_TOKEN_ACTOR_ID]),
                x if x >= FIRST_EXPORTED => Any,
                _ => return None,
            }
        }
        Type::DataCap => {
            let st: fil_actor_datacap::State = vm.get_state(to)?;
            let gov = vm.resolve(&st.governor)?;
            match m {
                x if x == h("Mint") || x == h("Destroy") => Allow::ids([gov]),
                x if x >= FIRST_EXPORTED => Any,
                _ => return None,
            }
        }
        Type::EAM => match m {
            2 | 3 => Allow::ty(Type::EVM),
            4 => Any,
            _ => return None,
        },
        Type::EVM => match m {
            2 => Allow::ids([EAM_ACTOR_ID]),
            3 | 4 => Any,
            5 => sys(),
            6 => Allow::ids([to]),
            x if x >= FIRST_EXPORTED => Any,
            _ => return None,
        },
        Type::Placeholder | Type::EthAccount => return None,
    })
}

#[derive(Default)]
pub struct Out {
    pub violations: Vec<Violation>,
    pub labels: BTreeSet<String>,
    pub counters: BTreeMap<String, u64>,
}

pub struct Prober {
    seed: u64,
    rate: u64,
    n: Cell<u64>,
    pub out: RefCell<Out>,
    /// (actor type, method) pairs already probed in this case: nested candidates not yet seen are preferred
    seen: RefCell<BTreeSet<(String, u64)>>,
}

impl Prober {
    fn pick(&self, salt: u64, len: usize) -> usize {
        if len == 0 {
            return 0;
        }
        (hash64(&(self.seed, self.n.get(), salt)) % len as u64) as usize
    }

    fn count(&self, k: &str, n: u64) {
        *self.out.borrow_mut().counters.entry(k.to_string()).or_default() += n;
    }
    fn label(&self, k: &str) {
        self.out.borrow_mut().labels.insert(k.to_string());
    }

    /// callers to substitute: singletons, up to two actors of every other kind, the role holders of the target, the target itself
    fn pool(&self, vm: &SimVM, to: ActorID, ty: Type) -> Vec<ActorID> {
        let tree = vm.tree();
        let mut pool: BTreeSet<ActorID> = [SYSTEM_ACTOR_ID, INIT_ACTOR_ID, REWARD_ACTOR_ID, CRON_ACTOR_ID, STORAGE_POWER_ACTOR_ID, STORAGE_MARKET_ACTOR_ID, VERIFIED_REGISTRY_ACTOR_ID, DATACAP_TOKEN_ACTOR_ID, EAM_ACTOR_ID, BURNT_FUNDS_ACTOR_ID].into_iter().filter(|i| tree.actors.contains_key(i)).collect();
        let mut per_type: BTreeMap<i32, u32> = BTreeMap::new();
        // walk from the newest actors down: they are the ones the history created
        for (id, _) in tree.actors.iter().rev() {
            if *id < 100 {
                continue;
            }
            let t = vm.actor_type(*id);
            let key = t.map(|t| t as i32).unwrap_or(-1);
            let c = per_type.entry(key).or_default();
            if *c < 3 {
                *c += 1;
                pool.insert(*id);
            }
        }
        pool.insert(to);
        if ty == Type::Miner {
            if let Some(r) = miner_roles(vm, to) {
                pool.extend([r.owner, r.worker, r.beneficiary]);
                pool.extend(r.controls.iter().copied());
                pool.extend(r.pending_owner);
                pool.extend(r.nominee);
            }
        }
        if ty == Type::Multisig {
            if let Some(st) = vm.get_state::<fil_actor_multisig::State>(to) {
                pool.extend(st.signers.iter().filter_map(id_of));
            }
        }
        if ty == Type::PaymentChannel {
            if let Some(st) = vm.get_state::<fil_actor_paych::State>(to) {
                pool.extend([id_of(&st.from), id_of(&st.to)].into_iter().flatten());
            }
        }
        pool.into_iter().collect()
    }

    fn scan(&self, r: &MsgResult, what: &str) {
        let mut bad: Option<Violation> = None;
        let mut panicked = false;
        r.trace.walk(&mut |x, _| {
            if bad.is_some() {
                return;
            }
            if x.panicked.is_some() {
                // an actor panic aborts the message like any other failure; C11 does not speak about it
                panicked = true;
            } else if x.unvalidated {
                bad = Some(Violation::new("caller-not-validated", format!("{what}: {}->{:?} method {} completed without validating its caller", x.from, x.to_id, x.method)));
            }
        });
        if panicked {
            self.label("actor_panic_seen");
        }
        if let Some(b) = bad {
            self.out.borrow_mut().violations.push(b);
        }
    }

    /// substitute callers for one call known to succeed from state `s` when sent by `from0`
    #[allow(clippy::too_many_arguments)]
    fn substitute(&self, vm: &SimVM, s: &Snapshot, from0: ActorID, to: ActorID, ty: Type, method: MethodNum, params: &Option<IpldBlock>, value: &TokenAmount, nested: bool) {
        vm.restore(s);
        let allow = designated(vm, to, ty, method, params);
        if let Some(a) = &allow {
            // the caller that succeeded must be designated (the table would otherwise be wrong, or the code too lax)
            if !a.contains(from0, vm.actor_type(from0)) {
                self.out.borrow_mut().violations.push(Violation::new(
                    "undesignated-caller-accepted",
                    format!("{:?} {} method {}: caller {} ({:?}) succeeded but is outside the designated set {:?}{}", ty, to, method, from0, vm.actor_type(from0), a, if nested { " [nested call]" } else { "" }),
                ));
                return;
            }
        }
        let pool = self.pool(vm, to, ty);
        // up to 7 substitutes + the alien
        let mut chosen: Vec<ActorID> = vec![];
        for k in 0..7u64 {
            let c = pool[self.pick(1000 + k, pool.len())];
            if c != from0 && !chosen.contains(&c) {
                chosen.push(c);
            }
        }
        chosen.push(ALIEN_ID);
        let restricted_target = !matches!(ty, Type::EAM | Type::EVM);
        for c in chosen {
            vm.restore(s);
            if c == ALIEN_ID {
                vm.set_actor(ALIEN_ID, ActorEntry { code: fil_actors_runtime::test_utils::make_piece_cid(b"not a built-in actor"), state: EMPTY_ARR_CID, sequence: 0, balance: TokenAmount::zero(), delegated: None });
            }
            let ctype = vm.actor_type(c);
            if !value.is_zero() {
                if let Some(mut a) = vm.actor(c) {
                    a.balance += value;
                    vm.set_actor(c, a);
                }
            }
            let r = vm.execute(c, &Address::new_id(to), value, method, params.clone());
            self.count("substituted_calls", 1);
            self.scan(&r, "substituted call");
            let outside = allow.as_ref().map(|a| !a.contains(c, ctype)).unwrap_or(false);
            let foreign_code = restricted_target && method != 0 && method < FIRST_EXPORTED && matches!(ctype, None | Some(Type::EVM));
            if outside {
                self.count("outside_callers_tried", 1);
            }
            if foreign_code {
                self.count("foreign_code_callers_tried", 1);
            }
            if (outside || foreign_code) && r.ok() {
                self.out.borrow_mut().violations.push(Violation::new(
                    "undesignated-caller-accepted",
                    format!(
                        "{:?} {} method {}: accepted from {} ({:?}), designated {:?}{}{}",
                        ty,
                        to,
                        method,
                        c,
                        ctype,
                        allow,
                        if foreign_code { " [internal method number, non-built-in / EVM caller]" } else { "" },
                        if nested { " [nested call replayed top-level]" } else { "" }
                    ),
                ));
                return;
            }
            if outside && !r.ok() {
                self.label("outside_caller_rejected");
            }
        }
        if let Some(a) = &allow {
            if !a.is_any() {
                self.label("restricted_method_probed");
                self.label(&format!("probed_{:?}", ty));
                if nested {
                    self.label("nested_call_probed");
                }
            }
        }
    }
}

impl ProbeHook for Prober {
    fn on_message(&self, vm: &SimVM, pre: &Snapshot, msg: &ProbeMsg, res: &MsgResult) {
        self.n.set(self.n.get() + 1);
        self.scan(res, "history message");
        if !self.out.borrow().violations.is_empty() || msg.faulted {
            return;
        }
        if hash64(&(self.seed, self.n.get(), 7u64)) % self.rate != 0 {
            return;
        }
        let post = vm.snapshot();
        // (1) the message itself, from its pre-state
        if res.ok() && msg.method != 0 {
            if let (Some(to), Some(ty)) = (res.trace.to_id, res.trace.to_type) {
                self.substitute(vm, pre, msg.from, to, ty, msg.method, &msg.params, &msg.value, false);
            }
        }
        // (2) successful nested invocations, replayed top-level from the post-state
        let mut nested: Vec<&Trace> = vec![];
        for sub in &res.trace.subs {
            sub.walk_effective(&mut |x| {
                if x.method != 0 && x.to_type.is_some() && !x.read_only {
                    nested.push(x);
                }
            });
        }
        if res.ok() && !nested.is_empty() {
            for k in 0..2u64 {
                let fresh: Vec<&Trace> = nested.iter().copied().filter(|x| !self.seen.borrow().contains(&(format!("{:?}", x.to_type), x.method))).collect();
                let x = if !fresh.is_empty() { fresh[self.pick(50 + k, fresh.len())] } else { nested[self.pick(50 + k, nested.len())] };
                self.seen.borrow_mut().insert((format!("{:?}", x.to_type), x.method));
                let (to, ty) = (x.to_id.unwrap(), x.to_type.unwrap());
                // positive control: the original caller, from the post-state or else from the pre-state
                let mut base: Option<&Snapshot> = None;
                for cand in [&post, pre] {
                    vm.restore(cand);
                    let r0 = vm.execute(x.from, &Address::new_id(to), &TokenAmount::zero(), x.method, x.params.clone());
                    self.scan(&r0, "nested call replayed");
                    if r0.ok() {
                        base = Some(cand);
                        break;
                    }
                }
                match base {
                    Some(b) => self.substitute(vm, b, x.from, to, ty, x.method, &x.params, &TokenAmount::zero(), true),
                    None => self.count("nested_replay_without_positive_control", 1),
                }
            }
        }
        vm.restore(&post);
    }
}

pub struct C11;

fn inner_strategy(tier: Tier) -> BoxedStrategy<Inner> {
    use crate::engines::*;
    prop_oneof![
        6 => sys::ops::case_strategy_w(40, 2, 1, 10, 10, 6).prop_map(Inner::Sys),
        3 => market::engines::C06.strategy(tier).prop_map(Inner::Market),
        3 => c12_multisig::C12.strategy(tier).prop_map(Inner::Msig),
        4 => c16_paych::C16.strategy(tier).prop_map(Inner::Paych),
        3 => c09_datacap::C09.strategy(tier).prop_map(Inner::Datacap),
        3 => c20_identity::C20.strategy(tier).prop_map(Inner::Identity),
        3 => c13_control::C13.strategy(tier).prop_map(Inner::Control),
        2 => evmsys::C19.strategy(tier).prop_map(Inner::Evm),
    ]
    .boxed()
}

impl Engine for C11 {
    type Case = Case;
    fn id(&self) -> &'static str {
        "C11"
    }
    fn budget(&self, tier: Tier) -> (u32, u32) {
        match tier {
            Tier::Quick => (64, 24),
            Tier::Thorough => (256, 100),
        }
    }
    fn strategy(&self, tier: Tier) -> BoxedStrategy<Case> {
        // the system histories consist mostly of cron ticks: they are sampled; the small engines are probed at every message
        (any::<u64>(), prop_oneof![1 => Just(1u8), 3 => Just(2u8), 2 => Just(4u8)], inner_strategy(tier)).prop_map(|(seed, rate, inner)| Case { seed, rate: if matches!(inner, Inner::Sys(_)) { rate } else { 1 }, inner }).boxed()
    }
    fn rule(&self) -> String {
        "case = a generated history of one of the other engines (system/miner, market, multisig, payment channel, datacap/registry, identity/EAM, miner control, multi-contract EVM) + a probe seed; after every rate-th message the message itself (from its pre-state) and two successful nested invocations of its trace (replayed top-level from the post-state, original caller first as positive control) are re-issued with up to 7 substituted callers drawn from all singletons, up to three actors of every kind in the state tree, the target's own role holders and the target itself, plus an actor with non-built-in code; non-trivial = at least one call to a method whose designated set is not 'anyone' had a positive control and an outside caller was rejected; distinct by case hash".into()
    }
    fn assumptions(&self) -> Vec<String> {
        vec![
            "the designated-caller table in harness/src/engines/c11_callers.rs (written from the method documentation) is the oracle; it is an upper bound: callers inside the set carry no expectation except the original one".into(),
            "nested invocations are replayed as top-level implicit messages from the original caller (as the FVM allows for system-originated messages); replays that do not succeed give no positive control and are counted".into(),
            "violations of the inner engine's own property are ignored here (they end the history)".into(),
        ]
    }
    fn required_labels(&self) -> Vec<(&'static str, f64)> {
        vec![("restricted_method_probed", 0.5), ("outside_caller_rejected", 0.5)]
    }
    fn run(&self, case: &Case, stats: &mut CaseStats) -> VResult {
        use crate::engines::*;
        let prober = Rc::new(Prober { seed: case.seed, rate: case.rate.max(1) as u64, n: Cell::new(0), out: RefCell::new(Out::default()), seen: RefCell::new(BTreeSet::new()) });
        PROBE.with(|p| *p.borrow_mut() = Some(prober.clone() as Rc<dyn ProbeHook>));
        let mut inner_stats = CaseStats { known_sigs: stats.known_sigs.clone(), ..Default::default() };
        let r = std::panic::catch_unwind(std::panic::AssertUnwindSafe(|| match &case.inner {
            Inner::Sys(c) => sys::run_case(c, &mut inner_stats, "C11"),
            Inner::Market(c) => market::engines::C06.run(c, &mut inner_stats),
            Inner::Msig(c) => c12_multisig::C12.run(c, &mut inner_stats),
            Inner::Paych(c) => c16_paych::C16.run(c, &mut inner_stats),
            Inner::Datacap(c) => c09_datacap::C09.run(c, &mut inner_stats),
            Inner::Identity(c) => c20_identity::C20.run(c, &mut inner_stats),
            Inner::Control(c) => c13_control::C13.run(c, &mut inner_stats),
            Inner::Evm(c) => evmsys::C19.run(c, &mut inner_stats),
        }));
        PROBE.with(|p| *p.borrow_mut() = None);
        stats.label(match &case.inner {
            Inner::Sys(_) => "inner_sys",
            Inner::Market(_) => "inner_market",
            Inner::Msig(_) => "inner_multisig",
            Inner::Paych(_) => "inner_paych",
            Inner::Datacap(_) => "inner_datacap",
            Inner::Identity(_) => "inner_identity",
            Inner::Control(_) => "inner_control",
            Inner::Evm(_) => "inner_evm",
        });
        match r {
            Err(_) => stats.label("inner_engine_panicked"),
            Ok(Err(_)) => stats.label("inner_engine_reported_its_own_violation"),
            Ok(Ok(())) => {}
        }
        let out = prober.out.borrow();
        for l in &out.labels {
            stats.label(l);
        }
        for (k, n) in &out.counters {
            stats.count(k, *n);
        }
        stats.nontrivial = out.labels.contains("restricted_method_probed") && out.labels.contains("outside_caller_rejected");
        if let Some(v) = out.violations.first() {
            return Err(Violation::new(&v.clause, v.detail.clone()));
        }
        Ok(())
    }
}
