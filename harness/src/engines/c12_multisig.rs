//! C12 — multisig: quorum of current signers, once, within the lock (DESIGN §3 C12).
//!
//! Oracle: a reference wallet model advanced by the invocation *trace* (so re-entrant calls are
//! modelled in the order they really happened).  The model never calls the multisig actor's
//! code; it only decodes CBOR parameters with the actor's parameter types.

use crate::common::*;
use crate::simvm::{Trace, sign as _sign};
use crate::world::*;
use crate::{vassert, vfail};
use fil_actor_multisig as ms;
use fil_actors_runtime::runtime::Policy;
use fil_actors_runtime::test_utils::MULTISIG_ACTOR_CODE_ID;
use fil_actors_runtime::{FIRST_EXPORTED_METHOD_NUMBER, INIT_ACTOR_ID};
use fvm_ipld_encoding::RawBytes;
use fvm_shared::address::Address;
use fvm_shared::bigint::{BigInt, Integer};
use fvm_shared::econ::TokenAmount;
use fvm_shared::error::ExitCode;
use fvm_shared::{ActorID, METHOD_SEND};
use num_traits::{Signed, Zero};
use proptest::prelude::*;
use serde::{Deserialize, Serialize};
use std::collections::BTreeMap;

#[derive(Clone, Debug, Serialize, Deserialize)]
pub enum Admin {
    AddSigner { who: u16, increase: bool },
    RemoveSigner { who: u16, decrease: bool },
    SwapSigner { from: u16, to: u16 },
    ChangeThreshold { n: u8 },
    LockBalance { start_rel: i16, duration: i32, amount_pm: u16 },
}

#[derive(Clone, Debug, Serialize, Deserialize)]
pub enum TxSpec {
    /// value in per-mille of the current balance (may exceed 1000)
    Send { to: u16, value_pm: u16 },
    Admin(Admin),
    /// the wallet proposes a plain send to itself (re-entrant Propose)
    SelfPropose { to: u16, value_pm: u16 },
    /// the wallet approves / cancels a pending transaction (id chosen at interpretation time;
    /// `tx_ref == u16::MAX` means "the id this very proposal will get")
    SelfApprove { tx_ref: u16 },
    SelfCancel { tx_ref: u16 },
    /// a call that the target rejects
    Failing { to: u16 },
}

#[derive(Clone, Debug, Serialize, Deserialize)]
pub enum HashKind {
    Empty,
    Correct,
    Wrong,
}

#[derive(Clone, Debug, Serialize, Deserialize)]
pub enum Op {
    Propose { by: u16, tx: TxSpec },
    Approve { by: u16, tx_ref: u16, hash: HashKind },
    Cancel { by: u16, tx_ref: u16, hash: HashKind },
    /// direct (non-wallet) call of a wallet-only method
    DirectAdmin { by: u16, admin: Admin },
    Advance { epochs: u16 },
    Fund { whole: u8 },
}

#[derive(Clone, Debug, Serialize, Deserialize)]
pub struct Case {
    pub n_accounts: u8,
    pub n_signers: u8,
    pub threshold: u8,
    pub w2_is_signer: bool,
    pub lock_duration: u16,
    pub lock_start_rel: i16,
    pub initial_whole: u8,
    pub ops: Vec<Op>,
}

fn admin_strategy() -> impl Strategy<Value = Admin> {
    prop_oneof![
        (any::<u16>(), any::<bool>()).prop_map(|(who, increase)| Admin::AddSigner { who, increase }),
        (any::<u16>(), any::<bool>()).prop_map(|(who, decrease)| Admin::RemoveSigner { who, decrease }),
        (any::<u16>(), any::<u16>()).prop_map(|(from, to)| Admin::SwapSigner { from, to }),
        (0u8..6).prop_map(|n| Admin::ChangeThreshold { n }),
        (-50i16..50, -5i32..400, 0u16..1500).prop_map(|(start_rel, duration, amount_pm)| {
            Admin::LockBalance { start_rel, duration, amount_pm }
        }),
    ]
}

fn tx_strategy() -> impl Strategy<Value = TxSpec> {
    prop_oneof![
        3 => (any::<u16>(), 0u16..1300).prop_map(|(to, value_pm)| TxSpec::Send { to, value_pm }),
        4 => admin_strategy().prop_map(TxSpec::Admin),
        1 => (any::<u16>(), 0u16..1300).prop_map(|(to, value_pm)| TxSpec::SelfPropose { to, value_pm }),
        1 => prop_oneof![any::<u16>(), Just(u16::MAX)].prop_map(|tx_ref| TxSpec::SelfApprove { tx_ref }),
        1 => prop_oneof![any::<u16>(), Just(u16::MAX)].prop_map(|tx_ref| TxSpec::SelfCancel { tx_ref }),
        1 => any::<u16>().prop_map(|to| TxSpec::Failing { to }),
    ]
}

fn hash_strategy() -> impl Strategy<Value = HashKind> {
    prop_oneof![3 => Just(HashKind::Empty), 3 => Just(HashKind::Correct), 1 => Just(HashKind::Wrong)]
}

fn op_strategy() -> impl Strategy<Value = Op> {
    prop_oneof![
        5 => (any::<u16>(), tx_strategy()).prop_map(|(by, tx)| Op::Propose { by, tx }),
        5 => (any::<u16>(), any::<u16>(), hash_strategy()).prop_map(|(by, tx_ref, hash)| Op::Approve { by, tx_ref, hash }),
        2 => (any::<u16>(), any::<u16>(), hash_strategy()).prop_map(|(by, tx_ref, hash)| Op::Cancel { by, tx_ref, hash }),
        1 => (any::<u16>(), admin_strategy()).prop_map(|(by, admin)| Op::DirectAdmin { by, admin }),
        2 => (0u16..300).prop_map(|epochs| Op::Advance { epochs }),
        1 => (0u8..20).prop_map(|whole| Op::Fund { whole }),
    ]
}

pub struct C12;

// ---------------------------------------------------------------- reference model

#[derive(Clone, Debug, PartialEq, Eq)]
struct MTx {
    to: Address,
    value: BigInt,
    method: u64,
    params: Vec<u8>,
    approved: Vec<ActorID>,
}

#[derive(Clone, Debug)]
struct Model {
    w: ActorID,
    signers: Vec<ActorID>,
    threshold: u64,
    next_id: i64,
    pending: BTreeMap<i64, MTx>,
    lock_initial: BigInt,
    lock_start: i64,
    lock_duration: i64,
    balances: BTreeMap<ActorID, BigInt>,
    /// ids that have been sent
    sent: Vec<i64>,
}

impl Model {
    fn locked(&self, epoch: i64) -> BigInt {
        let elapsed = epoch - self.lock_start;
        if elapsed >= self.lock_duration {
            return BigInt::zero();
        }
        if elapsed <= 0 {
            return self.lock_initial.clone();
        }
        let remaining = self.lock_duration - elapsed;
        (&self.lock_initial * remaining).div_ceil(&BigInt::from(self.lock_duration))
    }
    fn purge(&mut self, who: ActorID) -> u64 {
        let mut n = 0;
        let ids: Vec<i64> = self.pending.keys().copied().collect();
        for id in ids {
            let tx = self.pending.get_mut(&id).unwrap();
            let before = tx.approved.len();
            tx.approved.retain(|a| *a != who);
            n += (before - tx.approved.len()) as u64;
            if tx.approved.is_empty() {
                self.pending.remove(&id);
            }
        }
        n
    }
    fn proposal_hash(tx: &MTx) -> Vec<u8> {
        let requester: Option<Address> = tx.approved.first().map(|i| Address::new_id(*i));
        let data = fvm_ipld_encoding::to_vec(&(
            requester,
            tx.to,
            TokenAmount::from_atto(tx.value.clone()),
            tx.method,
            RawBytes::new(tx.params.clone()),
        ))
        .unwrap();
        blake2b_simd::Params::new().hash_length(32).hash(&data).as_bytes().to_vec()
    }
    fn bal(&self, id: ActorID) -> BigInt {
        self.balances.get(&id).cloned().unwrap_or_default()
    }
}

/// What the model expects from a wallet invocation.
enum Expect {
    Reject(&'static str),
    Accept,
}

struct Walker<'a> {
    epoch: i64,
    exists: &'a dyn Fn(ActorID) -> bool,
    /// fixture knowledge: key address -> id of the pre-created accounts (not asked from the actors)
    keys: &'a [(Address, ActorID)],
    stats: &'a mut CaseStats,
    depth_in_wallet_send: u32,
}

impl<'a> Walker<'a> {
    fn to_id(&mut self, a: &Address) -> Option<ActorID> {
        if let Ok(i) = a.id() {
            return Some(i);
        }
        let r = self.keys.iter().find(|(k, _)| k == a).map(|(_, i)| *i);
        if r.is_some() {
            self.stats.label("signer_named_by_key_address");
        }
        r
    }
}

impl Walker<'_> {
    /// Walk an invocation in execution order, applying transfers and model transitions, with
    /// rollback of failed invocations.
    fn walk(&mut self, m: &mut Model, t: &Trace) -> VResult {
        let snap = m.clone();
        // transfer (the VM performs it before running the callee)
        let transferred = t.send_err.is_none() && !t.injected && t.to_id.is_some();
        if transferred && !t.value.is_zero() {
            let to = t.to_id.unwrap();
            *m.balances.entry(t.from).or_default() -= t.value.atto();
            *m.balances.entry(to).or_default() += t.value.atto();
        }
        let r = if t.to_id == Some(m.w) && t.method != METHOD_SEND && t.send_err.is_none() {
            if self.depth_in_wallet_send > 0 {
                if (2..=4).contains(&t.method) {
                    self.stats.label("reentrant_wallet_call");
                } else {
                    self.stats.label("self_admin_call");
                }
            }
            self.wallet_call(m, t)
        } else {
            for s in &t.subs {
                self.walk(m, s)?;
            }
            Ok(())
        };
        r?;
        if !t.ok() {
            *m = snap;
        }
        Ok(())
    }

    fn wallet_call(&mut self, m: &mut Model, t: &Trace) -> VResult {
        let mut subs = t.subs.iter();
        let exp = self.wallet_logic(m, t, &mut subs)?;
        // every send from the wallet must have been predicted by the model
        if let Some(extra) = subs.next() {
            if t.ok() {
                vfail!(
                    "unexpected-send",
                    "wallet made a send the model does not allow: to={} method={} value={} in call method={} from={}",
                    extra.to, extra.method, extra.value, t.method, t.from
                );
            }
        }
        match exp {
            Expect::Reject(why) => {
                vassert!(
                    !t.ok(),
                    "accepted-forbidden-call",
                    "wallet accepted method {} from {} although the protocol forbids it: {}",
                    t.method,
                    t.from,
                    why
                );
            }
            Expect::Accept => {
                if !t.ok() {
                    self.stats.label("impl_stricter_than_model");
                    self.stats.say(|| format!("impl stricter: method {} from {} code {} ({})", t.method, t.from, t.code.value(), t.msg));
                }
            }
        }
        Ok(())
    }

    /// Model semantics of one wallet method.  Consumes the sub-invocations it predicts.
    fn wallet_logic<'t>(
        &mut self,
        m: &mut Model,
        t: &'t Trace,
        subs: &mut std::slice::Iter<'t, Trace>,
    ) -> VResult<Expect> {
        let caller = t.from;
        let is_signer = |m: &Model, a: ActorID| m.signers.contains(&a);
        macro_rules! decode {
            ($ty:ty) => {
                match t.params.as_ref().and_then(|p| p.deserialize::<$ty>().ok()) {
                    Some(p) => p,
                    None => return Ok(Expect::Reject("undecodable params")),
                }
            };
        }
        match t.method {
            2 => {
                let p = decode!(ms::ProposeParams);
                if p.value.is_negative() {
                    return Ok(Expect::Reject("negative value"));
                }
                if !is_signer(m, caller) {
                    return Ok(Expect::Reject("proposer is not a signer"));
                }
                let id = m.next_id;
                m.next_id += 1;
                m.pending.insert(
                    id,
                    MTx {
                        to: p.to,
                        value: p.value.atto().clone(),
                        method: p.method,
                        params: p.params.to_vec(),
                        approved: vec![],
                    },
                );
                let tx_snapshot = m.pending.get(&id).unwrap().clone();
                let (exp, applied, code) = self.approve_tx(m, t, subs, id, tx_snapshot, caller)?;
                if let (Expect::Accept, true) = (&exp, t.ok()) {
                    let ret: ms::ProposeReturn = match t.ret.as_ref().and_then(|r| r.deserialize().ok()) {
                        Some(r) => r,
                        None => vfail!("propose-return", "undecodable Propose return"),
                    };
                    vassert!(ret.txn_id.0 == id, "txn-id", "Propose returned id {} but model expects {}", ret.txn_id.0, id);
                    vassert!(ret.applied == applied, "applied-flag", "Propose applied={} model={}", ret.applied, applied);
                    if applied {
                        if let Some(c) = code {
                            vassert!(ret.code == c, "applied-code", "Propose code {} but send exited {}", ret.code.value(), c.value());
                        }
                    }
                }
                Ok(exp)
            }
            3 => {
                let p = decode!(ms::TxnIDParams);
                if !is_signer(m, caller) {
                    return Ok(Expect::Reject("approver is not a signer"));
                }
                let tx = match m.pending.get(&p.id.0) {
                    Some(tx) => tx.clone(),
                    None => return Ok(Expect::Reject("no such transaction")),
                };
                if !p.proposal_hash.is_empty() && p.proposal_hash != Model::proposal_hash(&tx) {
                    return Ok(Expect::Reject("proposal hash mismatch"));
                }
                let (exp, applied, code) = if tx.approved.len() as u64 >= m.threshold {
                    self.stats.label("executed_with_threshold_already_met");
                    self.execute(m, t, subs, p.id.0, &tx)?
                } else {
                    self.approve_tx(m, t, subs, p.id.0, tx, caller)?
                };
                if let (Expect::Accept, true) = (&exp, t.ok()) {
                    let ret: ms::ApproveReturn = match t.ret.as_ref().and_then(|r| r.deserialize().ok()) {
                        Some(r) => r,
                        None => vfail!("approve-return", "undecodable Approve return"),
                    };
                    vassert!(ret.applied == applied, "applied-flag", "Approve applied={} model={}", ret.applied, applied);
                    if applied {
                        if let Some(c) = code {
                            vassert!(ret.code == c, "applied-code", "Approve code {} but send exited {}", ret.code.value(), c.value());
                        }
                    }
                }
                Ok(exp)
            }
            4 => {
                let p = decode!(ms::TxnIDParams);
                if !is_signer(m, caller) {
                    return Ok(Expect::Reject("canceller is not a signer"));
                }
                let tx = match m.pending.get(&p.id.0) {
                    Some(tx) => tx.clone(),
                    None => return Ok(Expect::Reject("no such transaction")),
                };
                if tx.approved.first() != Some(&caller) {
                    return Ok(Expect::Reject("only the earliest remaining approver may cancel"));
                }
                if !p.proposal_hash.is_empty() && p.proposal_hash != Model::proposal_hash(&tx) {
                    return Ok(Expect::Reject("proposal hash mismatch"));
                }
                if t.ok() {
                    m.pending.remove(&p.id.0);
                    self.stats.label("cancelled");
                }
                Ok(Expect::Accept)
            }
            5..=9 => {
                if caller != m.w {
                    return Ok(Expect::Reject("wallet-only method called by someone else"));
                }
                match t.method {
                    5 => {
                        let p = decode!(ms::AddSignerParams);
                        let id = match self.to_id(&p.signer) {
                            Some(i) => i,
                            None => return Ok(Expect::Accept), // unknown key address: not generated; follow impl
                        };
                        if !(self.exists)(id) {
                            return Ok(Expect::Reject("new signer does not exist"));
                        }
                        if m.signers.len() >= 256 {
                            return Ok(Expect::Reject("too many signers"));
                        }
                        if m.signers.contains(&id) {
                            return Ok(Expect::Reject("already a signer"));
                        }
                        if t.ok() {
                            m.signers.push(id);
                            if p.increase {
                                m.threshold += 1;
                            }
                            if !m.pending.is_empty() {
                                self.stats.label("membership_change_with_pending");
                            }
                        }
                    }
                    6 => {
                        let p = decode!(ms::RemoveSignerParams);
                        let id = match self.to_id(&p.signer) {
                            Some(i) => i,
                            None => return Ok(Expect::Accept),
                        };
                        if !m.signers.contains(&id) {
                            return Ok(Expect::Reject("not a signer"));
                        }
                        if m.signers.len() == 1 {
                            return Ok(Expect::Reject("cannot remove the only signer"));
                        }
                        if !p.decrease && ((m.signers.len() - 1) as u64) < m.threshold {
                            return Ok(Expect::Reject("would leave fewer signers than threshold"));
                        }
                        if p.decrease && m.threshold < 2 {
                            return Ok(Expect::Reject("threshold would reach zero"));
                        }
                        if t.ok() {
                            if p.decrease {
                                m.threshold -= 1;
                            }
                            let n = m.purge(id);
                            if n > 0 {
                                self.stats.label("approval_purged");
                            }
                            m.signers.retain(|s| *s != id);
                            if !m.pending.is_empty() {
                                self.stats.label("membership_change_with_pending");
                            }
                        }
                    }
                    7 => {
                        let p = decode!(ms::SwapSignerParams);
                        let (from, to) = match (self.to_id(&p.from), self.to_id(&p.to)) {
                            (Some(a), Some(b)) => (a, b),
                            _ => return Ok(Expect::Accept),
                        };
                        if !(self.exists)(to) {
                            return Ok(Expect::Reject("new signer does not exist"));
                        }
                        if !m.signers.contains(&from) {
                            return Ok(Expect::Reject("not a signer"));
                        }
                        if m.signers.contains(&to) {
                            return Ok(Expect::Reject("already a signer"));
                        }
                        if t.ok() {
                            m.signers.retain(|s| *s != from);
                            m.signers.push(to);
                            let n = m.purge(from);
                            if n > 0 {
                                self.stats.label("approval_purged");
                            }
                            if !m.pending.is_empty() {
                                self.stats.label("membership_change_with_pending");
                            }
                        }
                    }
                    8 => {
                        let p = decode!(ms::ChangeNumApprovalsThresholdParams);
                        if p.new_threshold == 0 || p.new_threshold > m.signers.len() as u64 {
                            return Ok(Expect::Reject("threshold out of range"));
                        }
                        if t.ok() {
                            if !m.pending.is_empty() && p.new_threshold != m.threshold {
                                self.stats.label("threshold_change_with_pending");
                            }
                            m.threshold = p.new_threshold;
                        }
                    }
                    _ => {
                        let p = decode!(ms::LockBalanceParams);
                        if p.unlock_duration <= 0 {
                            return Ok(Expect::Reject("non-positive duration"));
                        }
                        if p.amount.is_negative() {
                            return Ok(Expect::Reject("negative amount"));
                        }
                        if m.lock_duration != 0 {
                            return Ok(Expect::Reject("lock already set"));
                        }
                        if t.ok() {
                            m.lock_start = p.start_epoch;
                            m.lock_duration = p.unlock_duration;
                            m.lock_initial = p.amount.atto().clone();
                            self.stats.label("lock_set_by_tx");
                        }
                    }
                }
                Ok(Expect::Accept)
            }
            1 => {
                if caller != INIT_ACTOR_ID {
                    Ok(Expect::Reject("constructor not from init"))
                } else {
                    Ok(Expect::Accept)
                }
            }
            n if n >= FIRST_EXPORTED_METHOD_NUMBER => Ok(Expect::Accept),
            _ => Ok(Expect::Reject("undefined method")),
        }
    }

    /// Returns (expectation, applied, exit code of the send if any).
    fn approve_tx<'t>(
        &mut self,
        m: &mut Model,
        t: &'t Trace,
        subs: &mut std::slice::Iter<'t, Trace>,
        id: i64,
        mut tx: MTx,
        caller: ActorID,
    ) -> VResult<(Expect, bool, Option<ExitCode>)> {
        if tx.approved.contains(&caller) {
            return Ok((Expect::Reject("already approved by this signer"), false, None));
        }
        tx.approved.push(caller);
        m.pending.insert(id, tx.clone());
        if tx.approved.len() as u64 >= m.threshold {
            self.execute(m, t, subs, id, &tx)
        } else {
            Ok((Expect::Accept, false, None))
        }
    }

    fn execute<'t>(
        &mut self,
        m: &mut Model,
        t: &'t Trace,
        subs: &mut std::slice::Iter<'t, Trace>,
        id: i64,
        tx: &MTx,
    ) -> VResult<(Expect, bool, Option<ExitCode>)> {
        // spendable check
        let bal = m.bal(m.w);
        if tx.value.is_negative() {
            return Ok((Expect::Reject("negative amount"), false, None));
        }
        if bal < tx.value {
            return Ok((Expect::Reject("insufficient balance"), false, None));
        }
        if !tx.value.is_zero() {
            let remaining = &bal - &tx.value;
            if remaining < m.locked(self.epoch) {
                return Ok((Expect::Reject("would dip into locked funds"), false, None));
            }
        }
        // quorum facts the property states
        let distinct: std::collections::BTreeSet<_> = tx.approved.iter().collect();
        let all_current = tx.approved.iter().all(|a| m.signers.contains(a));
        let quorum = distinct.len() as u64 >= m.threshold && distinct.len() == tx.approved.len() && all_current;
        m.pending.remove(&id);
        match subs.next() {
            None => {
                if t.ok() {
                    vfail!("expected-send-missing", "transaction {} reached its quorum and the call succeeded, but no send was made", id);
                }
                Ok((Expect::Accept, true, None))
            }
            Some(s) => {
                vassert!(quorum, "send-without-quorum", "transaction {} sent with approvals {:?}, signers {:?}, threshold {}", id, tx.approved, m.signers, m.threshold);
                vassert!(
                    s.from == m.w && s.to == tx.to && s.method == tx.method && s.value.atto() == &tx.value
                        && s.params.as_ref().map(|p| p.data.clone()).unwrap_or_default() == tx.params,
                    "send-differs-from-approved-tx",
                    "the send (to={} m={} v={}) is not the approved transaction {} (to={} m={} v={})",
                    s.to, s.method, s.value, id, tx.to, tx.method, tx.value
                );
                vassert!(!m.sent.contains(&id), "sent-twice", "transaction {} sent twice", id);
                m.sent.push(id);
                self.stats.count("sends", 1);
                self.depth_in_wallet_send += 1;
                let r = self.walk(m, s);
                self.depth_in_wallet_send -= 1;
                r?;
                if s.ok() && !tx.value.is_zero() && s.to_id != Some(m.w) {
                    let after = m.bal(m.w);
                    let locked = m.locked(self.epoch);
                    vassert!(
                        after >= locked,
                        "spent-locked-funds",
                        "after sending {} at epoch {} the wallet holds {} < locked {}",
                        tx.value, self.epoch, after, locked
                    );
                }
                let code = if s.send_err.is_some() { None } else { Some(s.code) };
                Ok((Expect::Accept, true, code))
            }
        }
    }
}

// ---------------------------------------------------------------- interpreter

struct Ctx {
    w: World,
    accounts: Vec<ActorID>,
    wallet: ActorID,
    w2: ActorID,
    ghost: ActorID,
    keys: Vec<(Address, ActorID)>,
}

impl Ctx {
    /// who may originate a message: the accounts (signers and outsiders) and, through W2, W2
    fn sender(&self, f: u16) -> ActorID {
        let mut all = self.accounts.clone();
        all.push(self.w2);
        all[pick(f, all.len())]
    }
    /// Name a principal in a parameter: by ID address, or (one selector in three, accounts only) by
    /// the account's key address, which the wallet must resolve before comparing with its records.
    fn name(&self, f: u16, id: ActorID) -> Address {
        if (f / 4) % 3 == 0 {
            if let Some((k, _)) = self.keys.iter().find(|(_, i)| *i == id) {
                return *k;
            }
        }
        Address::new_id(id)
    }
    fn principal(&self, f: u16) -> ActorID {
        // accounts, the wallet itself, the second multisig, and a non-existent id
        let mut all = self.accounts.clone();
        all.push(self.wallet);
        all.push(self.w2);
        all.push(self.ghost);
        all[pick(f, all.len())]
    }
}

fn frac(bal: &TokenAmount, pm: u16) -> TokenAmount {
    TokenAmount::from_atto((bal.atto() * BigInt::from(pm)) / BigInt::from(1000))
}

impl C12 {
    fn build_inner_call(&self, c: &Ctx, m: &Model, tx: &TxSpec) -> (Address, TokenAmount, u64, RawBytes) {
        let wbal = c.w.v.balance(c.wallet);
        let waddr = Address::new_id(c.wallet);
        let ser = |x: &dyn erased::Ser| x.ser();
        match tx {
            TxSpec::Send { to, value_pm } => {
                (Address::new_id(c.principal(*to)), frac(&wbal, *value_pm), METHOD_SEND, RawBytes::default())
            }
            TxSpec::Admin(a) => {
                let (method, p) = self.admin_params(c, m, a);
                (waddr, TokenAmount::zero(), method, p)
            }
            TxSpec::SelfPropose { to, value_pm } => {
                let p = ms::ProposeParams {
                    to: Address::new_id(c.principal(*to)),
                    value: frac(&wbal, *value_pm),
                    method: METHOD_SEND,
                    params: RawBytes::default(),
                };
                (waddr, TokenAmount::zero(), 2, ser(&p))
            }
            TxSpec::SelfApprove { tx_ref } | TxSpec::SelfCancel { tx_ref } => {
                let id = if *tx_ref == u16::MAX {
                    m.next_id
                } else {
                    let ids: Vec<i64> = m.pending.keys().copied().chain(std::iter::once(m.next_id + 1)).collect();
                    ids[pick(*tx_ref, ids.len())]
                };
                let p = ms::TxnIDParams { id: ms::TxnID(id), proposal_hash: vec![] };
                let method = if matches!(tx, TxSpec::SelfApprove { .. }) { 3 } else { 4 };
                (waddr, TokenAmount::zero(), method, ser(&p))
            }
            TxSpec::Failing { to } => {
                (Address::new_id(c.principal(*to)), TokenAmount::zero(), 99, RawBytes::default())
            }
        }
    }

    fn admin_params(&self, c: &Ctx, m: &Model, a: &Admin) -> (u64, RawBytes) {
        // low bit of the selector decides: pick among current signers (3/4) or among all principals
        let signerish = |f: u16| -> ActorID {
            if f % 4 != 0 && !m.signers.is_empty() { m.signers[pick(f, m.signers.len())] } else { c.principal(f) }
        };
        let ser = |x: &dyn erased::Ser| x.ser();
        match a {
            Admin::AddSigner { who, increase } => (
                5,
                ser(&ms::AddSignerParams { signer: c.name(*who, c.principal(*who)), increase: *increase }),
            ),
            Admin::RemoveSigner { who, decrease } => (
                6,
                ser(&ms::RemoveSignerParams { signer: c.name(*who, signerish(*who)), decrease: *decrease }),
            ),
            Admin::SwapSigner { from, to } => (
                7,
                ser(&ms::SwapSignerParams {
                    from: c.name(*from, signerish(*from)),
                    to: c.name(*to, c.principal(*to)),
                }),
            ),
            Admin::ChangeThreshold { n } => {
                (8, ser(&ms::ChangeNumApprovalsThresholdParams { new_threshold: *n as u64 }))
            }
            Admin::LockBalance { start_rel, duration, amount_pm } => {
                let bal = c.w.v.balance(c.wallet);
                (
                    9,
                    ser(&ms::LockBalanceParams {
                        start_epoch: c.w.v.epoch() + *start_rel as i64,
                        unlock_duration: *duration as i64,
                        amount: frac(&bal, *amount_pm),
                    }),
                )
            }
        }
    }
}

mod erased {
    use fvm_ipld_encoding::RawBytes;
    pub trait Ser {
        fn ser(&self) -> RawBytes;
    }
    impl<T: serde::Serialize> Ser for T {
        fn ser(&self) -> RawBytes {
            RawBytes::serialize(self).unwrap()
        }
    }
}

impl Engine for C12 {
    type Case = Case;
    fn id(&self) -> &'static str {
        "C12"
    }
    fn budget(&self, tier: Tier) -> (u32, u32) {
        match tier {
            Tier::Quick => (16, 20000),
            Tier::Thorough => (16, 60000),
        }
    }
    fn strategy(&self, tier: Tier) -> BoxedStrategy<Case> {
        let max_ops = if tier == Tier::Quick { 30 } else { 45 };
        (
            2u8..9,
            1u8..8,
            prop_oneof![1 => Just(1u8), 3 => 2u8..4, 2 => 4u8..7],
            any::<bool>(),
            prop_oneof![Just(0u16), 1u16..400],
            -40i16..40,
            0u8..30,
            proptest::collection::vec(op_strategy(), 0..max_ops),
        )
            .prop_map(|(n_accounts, n_signers, threshold, w2_is_signer, lock_duration, lock_start_rel, initial_whole, ops)| Case {
                n_accounts,
                n_signers,
                threshold,
                w2_is_signer,
                lock_duration,
                lock_start_rel,
                initial_whole,
                ops,
            })
            .boxed()
    }
    fn rule(&self) -> String {
        "case = wallet configuration (signers, threshold, lock-up) + ≤30/45 generated operations \
         (propose/approve/cancel by signers, outsiders, the wallet itself re-entrantly or a second \
         multisig; signer add/remove/swap, threshold and lock changes through the wallet; epoch \
         advances); non-trivial = at least one transaction was sent AND the history contains a \
         membership/threshold change while a transaction was pending, an approval purge, or a \
         re-entrant wallet call; distinct by structural hash of the case"
            .into()
    }
    fn assumptions(&self) -> Vec<String> {
        vec![
            "actors run natively on SimVM (no Wasm, no gas)".into(),
            "signer parameters are ID addresses or key addresses of existing accounts (no address auto-creation inside wallet methods)".into(),
            "an implementation that rejects a call the model would accept is labelled, not reported (the property states only safety)".into(),
        ]
    }
    fn required_labels(&self) -> Vec<(&'static str, f64)> {
        vec![("sent", 0.3), ("reentrant_wallet_call", 0.02), ("membership_change_with_pending", 0.005)]
    }

    fn run(&self, case: &Case, stats: &mut CaseStats) -> VResult {
        let w = World::new(Policy::default());
        let n_acc = case.n_accounts.max(2) as usize;
        let accounts: Vec<ActorID> =
            (0..n_acc).map(|i| w.account(100 + i as u16, &TokenAmount::from_whole(1000))).collect();
        let n_signers = (case.n_signers as usize).clamp(1, n_acc);
        let mut signers: Vec<ActorID> = accounts[..n_signers].to_vec();

        // second multisig (1-of-1, signer = accounts[0])
        let exec = |from: ActorID, ctor: &ms::ConstructorParams, value: &TokenAmount| {
            let r = w.call(
                from,
                INIT_ACTOR_ID,
                fil_actor_init::Method::Exec as u64,
                value,
                &fil_actor_init::ExecParams {
                    code_cid: *MULTISIG_ACTOR_CODE_ID,
                    constructor_params: RawBytes::serialize(ctor).unwrap(),
                },
            );
            r.de::<fil_actor_init::ExecReturn>().map(|x| x.id_address.id().unwrap()).ok_or(r)
        };
        let w2 = exec(
            accounts[0],
            &ms::ConstructorParams {
                signers: vec![Address::new_id(accounts[0])],
                num_approvals_threshold: 1,
                unlock_duration: 0,
                start_epoch: 0,
            },
            &TokenAmount::from_whole(5),
        )
        .expect("w2 creation");
        if case.w2_is_signer {
            signers.push(w2);
        }
        let threshold = (case.threshold as usize).clamp(1, signers.len()) as u64;
        w.v.set_epoch(100);
        let initial = TokenAmount::from_whole(case.initial_whole as i64);
        let lock_start = 100 + case.lock_start_rel as i64;
        let wallet = exec(
            accounts[0],
            &ms::ConstructorParams {
                signers: signers.iter().map(|s| Address::new_id(*s)).collect(),
                num_approvals_threshold: threshold,
                unlock_duration: case.lock_duration as i64,
                start_epoch: lock_start,
            },
            &initial,
        )
        .expect("wallet creation");
        let ghost = 90_000;
        let keys: Vec<(Address, ActorID)> =
            accounts.iter().enumerate().map(|(i, id)| (crate::world::key_addr(100 + i as u16), *id)).collect();
        let c = Ctx { w, accounts, wallet, w2, ghost, keys };
        let mut model = Model {
            w: wallet,
            signers: signers.clone(),
            threshold,
            next_id: 0,
            pending: BTreeMap::new(),
            lock_initial: if case.lock_duration != 0 { initial.atto().clone() } else { BigInt::zero() },
            lock_start: if case.lock_duration != 0 { lock_start } else { 0 },
            lock_duration: case.lock_duration as i64,
            balances: BTreeMap::new(),
            sent: vec![],
        };
        self.compare_state(&c, &model)?;

        for (i, op) in case.ops.iter().enumerate() {
            let zero = TokenAmount::zero();
            // (sender account, target, method, params, value)
            let mut via_w2 = false;
            let (by, method, p): (ActorID, u64, RawBytes) = match op {
                Op::Advance { epochs } => {
                    c.w.v.set_epoch(c.w.v.epoch() + *epochs as i64);
                    continue;
                }
                Op::Fund { whole } => {
                    let r = c.w.v.execute(c.w.faucet, &Address::new_id(wallet), &TokenAmount::from_whole(*whole as i64), METHOD_SEND, None);
                    assert!(r.ok());
                    continue;
                }
                Op::Propose { by, tx } => {
                    let (to, value, method, params) = self.build_inner_call(&c, &model, tx);
                    let p = ms::ProposeParams { to, value, method, params };
                    (c.sender(*by), 2, RawBytes::serialize(&p).unwrap())
                }
                Op::Approve { by, tx_ref, hash } | Op::Cancel { by, tx_ref, hash } => {
                    let ids: Vec<i64> = model.pending.keys().copied().chain(std::iter::once(model.next_id + 3)).collect();
                    let id = ids[pick(*tx_ref, ids.len())];
                    let h = match hash {
                        HashKind::Empty => vec![],
                        HashKind::Correct => model.pending.get(&id).map(Model::proposal_hash).unwrap_or_else(|| vec![1; 32]),
                        HashKind::Wrong => vec![7; 32],
                    };
                    let p = ms::TxnIDParams { id: ms::TxnID(id), proposal_hash: h };
                    let mut who = c.sender(*by);
                    if let Some(tx) = model.pending.get(&id) {
                        let is_approve = matches!(op, Op::Approve { .. });
                        let cands: Vec<ActorID> = if is_approve {
                            model.signers.iter().copied().filter(|s| !tx.approved.contains(s) && *s != c.wallet).collect()
                        } else {
                            tx.approved.iter().copied().filter(|s| *s != c.wallet).collect()
                        };
                        if *by % 4 != 0 && !cands.is_empty() {
                            who = cands[pick(*by, cands.len())];
                        }
                    }
                    (who, if matches!(op, Op::Approve { .. }) { 3 } else { 4 }, RawBytes::serialize(&p).unwrap())
                }
                Op::DirectAdmin { by, admin } => {
                    let (method, p) = self.admin_params(&c, &model, admin);
                    (c.sender(*by), method, p)
                }
            };
            // who actually originates the message
            let sender = if by == c.ghost {
                stats.count("skipped_ghost_sender", 1);
                continue;
            } else if by == c.wallet {
                // the wallet cannot originate messages; route through W2 is not possible either
                stats.count("skipped_wallet_sender", 1);
                continue;
            } else if by == c.w2 {
                via_w2 = true;
                c.accounts[0]
            } else {
                by
            };
            // balances before
            model.balances.clear();
            for (id, a) in c.w.v.tree().actors.iter() {
                model.balances.insert(*id, a.balance.atto().clone());
            }
            let total_before = c.w.v.total_balance();
            let r = if via_w2 {
                let outer = ms::ProposeParams { to: Address::new_id(wallet), value: zero.clone(), method, params: p };
                c.w.call(sender, c.w2, 2, &zero, &outer)
            } else {
                c.w.v.execute(sender, &Address::new_id(wallet), &zero, method, Some(fvm_ipld_encoding::ipld_block::IpldBlock { codec: fvm_ipld_encoding::DAG_CBOR, data: p.to_vec() }))
            };
            stats.say(|| format!("op {i}: {op:?} -> code {} {}\n{}", r.code.value(), r.message, r.trace.short()));
            let tree = c.w.v.tree();
            let exists = move |id: ActorID| tree.actors.contains_key(&id);
            // `exists` must reflect the state *during* the message; actors are never deleted in
            // this engine and accounts are pre-created, so the post-state is equivalent.
            let sends_before = stats.counters.get("sends").copied().unwrap_or(0);
            {
                let mut walker = Walker { epoch: c.w.v.epoch(), exists: &exists, keys: &c.keys, stats, depth_in_wallet_send: 0 };
                walker.walk(&mut model, &r.trace)?;
            }
            if stats.counters.get("sends").copied().unwrap_or(0) > sends_before && r.ok() {
                stats.label("sent");
            }
            vassert!(c.w.v.total_balance() == total_before, "conservation", "total FIL changed");
            self.compare_state(&c, &model)?;
        }
        let l = &stats.labels;
        stats.nontrivial = l.contains("sent")
            && (l.contains("membership_change_with_pending")
                || l.contains("threshold_change_with_pending")
                || l.contains("approval_purged")
                || l.contains("reentrant_wallet_call"));
        Ok(())
    }
}

impl C12 {
    fn compare_state(&self, c: &Ctx, m: &Model) -> VResult {
        let st: ms::State = c.w.v.get_state(c.wallet).expect("wallet state");
        let mut a: Vec<ActorID> = st.signers.iter().map(|s| s.id().unwrap()).collect();
        let mut b = m.signers.clone();
        a.sort();
        b.sort();
        vassert!(a == b, "signers-differ", "actor signers {:?} != model {:?}", a, b);
        vassert!(
            st.num_approvals_threshold >= 1 && st.num_approvals_threshold <= st.signers.len() as u64 && st.signers.len() <= 256,
            "threshold-range",
            "threshold {} signers {}",
            st.num_approvals_threshold,
            st.signers.len()
        );
        vassert!(st.num_approvals_threshold == m.threshold, "threshold-differs", "actor {} model {}", st.num_approvals_threshold, m.threshold);
        vassert!(st.next_tx_id.0 == m.next_id, "next-id-differs", "actor {} model {}", st.next_tx_id.0, m.next_id);
        vassert!(
            st.unlock_duration == m.lock_duration && (m.lock_duration == 0 || (st.start_epoch == m.lock_start && st.initial_balance.atto() == &m.lock_initial)),
            "lock-differs",
            "actor lock ({},{},{}) model ({},{},{})",
            st.start_epoch, st.unlock_duration, st.initial_balance, m.lock_start, m.lock_duration, m.lock_initial
        );
        let ptx = ms::PendingTxnMap::load(&*c.w.v.store, &st.pending_txs, ms::PENDING_TXN_CONFIG, "pending").expect("pending map");
        let mut actual: BTreeMap<i64, MTx> = BTreeMap::new();
        ptx.for_each(|k, tx: &ms::Transaction| {
            actual.insert(
                k.0,
                MTx {
                    to: tx.to,
                    value: tx.value.atto().clone(),
                    method: tx.method,
                    params: tx.params.to_vec(),
                    approved: tx.approved.iter().map(|a| a.id().unwrap()).collect(),
                },
            );
            Ok(())
        })
        .expect("iterate pending");
        for (id, tx) in &actual {
            for ap in &tx.approved {
                vassert!(a.contains(ap), "approval-of-non-signer-kept", "pending tx {} keeps approval of {} who is not a signer", id, ap);
            }
        }
        vassert!(actual == m.pending, "pending-differs", "actor pending {:?} != model {:?}", actual, m.pending);
        Ok(())
    }
}

#[allow(dead_code)]
fn _unused() {
    let _ = _sign;
}
