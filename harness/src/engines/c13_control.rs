//! C13 — control of a miner changes hands only by two-sided, delayed handover (DESIGN §3 C13).
//! Oracle: three reference state machines (owner, worker key, beneficiary) written from the
//! protocol rules + capability probes on snapshots.

use crate::common::*;
use crate::world::*;
use crate::{vassert, vfail};
use fil_actor_miner as mi;
use fil_actors_runtime::test_utils::make_sealed_cid;
use fvm_shared::ActorID;
use fvm_shared::address::Address;
use fvm_shared::bigint::BigInt;
use fvm_shared::econ::TokenAmount;
use fvm_shared::sector::{RegisteredPoStProof, RegisteredSealProof};
use num_traits::{Signed, Zero};
use proptest::prelude::*;
use serde::{Deserialize, Serialize};

const WORKER_DELAY: i64 = 900;

#[derive(Clone, Debug, Serialize, Deserialize)]
pub enum Op {
    ChangeOwner { by: u8, new: u8 },
    ChangeWorker { by: u8, new_worker: u8, controls: Vec<u8> },
    ConfirmWorker { by: u8 },
    /// quota_kind: 0 zero, 1 small, 2 large; exp_rel: epochs from now (negative = already expired, 0 with back-to-owner)
    ChangeBeneficiary { by: u8, new: u8, quota_kind: u8, exp_rel: i32, mirror_pending: bool },
    Withdraw { by: u8, milli: u32 },
    Fund { whole: u8 },
    Advance { epochs: u16 },
    AdvanceToWorkerEffective { rel: i8 },
    AdvanceToBeneficiaryExpiry { rel: i8 },
}

#[derive(Clone, Debug, Serialize, Deserialize)]
pub struct Case {
    pub cron_active: bool,
    pub multisig_owner: bool,
    pub ops: Vec<Op>,
}

fn op_strategy() -> impl Strategy<Value = Op> {
    prop_oneof![
        6 => (0u8..8, 0u8..8).prop_map(|(by, new)| Op::ChangeOwner { by, new }),
        5 => (0u8..8, 0u8..8, proptest::collection::vec(0u8..8, 0..3)).prop_map(|(by, new_worker, controls)| Op::ChangeWorker { by, new_worker, controls }),
        3 => (0u8..8).prop_map(|by| Op::ConfirmWorker { by }),
        8 => (0u8..8, 0u8..8, 0u8..3, prop_oneof![4 => 1i32..3000, 1 => -10i32..1], prop_oneof![2 => Just(true), 1 => Just(false)]).prop_map(|(by, new, quota_kind, exp_rel, mirror_pending)| Op::ChangeBeneficiary { by, new, quota_kind, exp_rel, mirror_pending }),
        4 => (0u8..8, 0u32..3_000_000).prop_map(|(by, milli)| Op::Withdraw { by, milli }),
        1 => (0u8..50).prop_map(|whole| Op::Fund { whole }),
        3 => (0u16..600).prop_map(|epochs| Op::Advance { epochs }),
        2 => (-1i8..2).prop_map(|rel| Op::AdvanceToWorkerEffective { rel }),
        2 => (-1i8..2).prop_map(|rel| Op::AdvanceToBeneficiaryExpiry { rel }),
    ]
}

#[derive(Clone, Debug, PartialEq, Eq)]
struct PendingBen {
    new: ActorID,
    quota: BigInt,
    expiration: i64,
    by_beneficiary: bool,
    by_nominee: bool,
}

#[derive(Clone, Debug)]
struct Model {
    owner: ActorID,
    pending_owner: Option<ActorID>,
    worker: ActorID,
    pending_worker: Option<(ActorID, i64)>,
    controls: Vec<ActorID>,
    beneficiary: ActorID,
    quota: BigInt,
    used: BigInt,
    expiration: i64,
    pending_ben: Option<PendingBen>,
}

impl Model {
    fn available(&self, now: i64) -> BigInt {
        if self.expiration > now { std::cmp::max(&self.quota - &self.used, BigInt::zero()) } else { BigInt::zero() }
    }
}

/// map a selector to a principal by its current role (so that handovers actually complete)
fn role(m: &Model, p: &[ActorID], sel: u8) -> ActorID {
    match sel % 8 {
        0 | 1 => m.owner,
        2 => m.pending_owner.unwrap_or(p[1]),
        3 => m.beneficiary,
        4 => m.pending_ben.as_ref().map(|b| b.new).unwrap_or(p[5]),
        5 => m.worker,
        6 => p[6],
        _ => p[7],
    }
}

pub struct C13;

impl Engine for C13 {
    type Case = Case;
    fn id(&self) -> &'static str {
        "C13"
    }
    fn budget(&self, tier: Tier) -> (u32, u32) {
        match tier {
            Tier::Quick => (16, 900),
            Tier::Thorough => (16, 6000),
        }
    }
    fn strategy(&self, tier: Tier) -> BoxedStrategy<Case> {
        let n = if tier == Tier::Quick { 25 } else { 40 };
        (any::<bool>(), prop_oneof![4 => Just(false), 1 => Just(true)], proptest::collection::vec(op_strategy(), 0..n)).prop_map(|(cron_active, multisig_owner, ops)| Case { cron_active, multisig_owner, ops }).boxed()
    }
    fn rule(&self) -> String {
        "case = a real miner (optionally cron-active through one pre-commit, every-epoch cron ticks) and 8 principals (owner, proposed owner, worker, new worker, control, beneficiary/nominee, two strangers) + ≤25/40 operations: ChangeOwnerAddress by anyone naming anyone, ChangeWorkerAddress with control sets, ConfirmChangeWorkerAddress, ChangeBeneficiary proposals/approvals with matching or mismatching quota/expiry incl. back-to-owner, withdrawals, funding, epoch advances around the worker-key delay and the beneficiary expiry. After every message GetOwner / ControlAddresses / GetBeneficiary must equal the three reference state machines, an accepted call the protocol forbids is a violation, and capability probes on a snapshot (worker-class, owner-only, withdraw) must succeed exactly for the model's right holders. non-trivial = two protocols in flight at once or a re-proposal while one is pending, with at least one completed handover; distinct by case hash".into()
    }
    fn assumptions(&self) -> Vec<String> {
        vec!["principals are BLS account actors (a multisig owner is optional); the miner runs on SimVM with the cron tick at every epoch".into(), "an implementation rejecting what the model allows is labelled, not reported".into()]
    }
    fn required_labels(&self) -> Vec<(&'static str, f64)> {
        vec![("owner_changed", 0.06), ("worker_changed", 0.03), ("beneficiary_changed", 0.1), ("two_protocols_in_flight", 0.2)]
    }

    fn run(&self, case: &Case, stats: &mut CaseStats) -> VResult {
        let w = World::new(policy_with_small_sectors());
        w.v.set_epoch(10);
        let p: Vec<ActorID> = (0..8).map(|i| w.account(700 + i, &TokenAmount::from_whole(10_000))).collect();
        let (miner, _) = w.create_miner(p[0], p[2], RegisteredPoStProof::StackedDRGWindow2KiBV1P1, &TokenAmount::from_whole(5_000)).map_err(|r| Violation::new("create-miner-failed", r.message.clone()))?;
        if case.cron_active {
            let pol = &w.v.policy;
            let exp = w.v.epoch() + pol.min_sector_expiration + mi::max_prove_commit_duration(pol, RegisteredSealProof::StackedDRG2KiBV1P1).unwrap() + 100;
            let r = w.call(p[2], miner, mi::Method::PreCommitSectorBatch2 as u64, &TokenAmount::zero(), &mi::PreCommitSectorBatchParams2 {
                sectors: vec![mi::SectorPreCommitInfo { seal_proof: RegisteredSealProof::StackedDRG2KiBV1P1, sector_number: 1, sealed_cid: make_sealed_cid(b"s"), seal_rand_epoch: w.v.epoch() - 1, deal_ids: vec![], expiration: exp, unsealed_cid: mi::CompactCommD::empty() }],
            });
            if r.ok() {
                stats.label("cron_active_miner");
            }
        }
        let mut m = Model { owner: p[0], pending_owner: None, worker: p[2], pending_worker: None, controls: vec![], beneficiary: p[0], quota: BigInt::zero(), used: BigInt::zero(), expiration: 0, pending_ben: None };
        let zero = TokenAmount::zero();
        let mut completed = 0;
        let mut in_flight_seen = false;
        compare(&w, miner, &m, &p, stats)?;
        for (i, op) in case.ops.iter().enumerate() {
            let now = w.v.epoch();
            let in_flight = m.pending_owner.is_some() as u8 + m.pending_worker.is_some() as u8 + m.pending_ben.is_some() as u8;
            if in_flight >= 2 {
                in_flight_seen = true;
                stats.label("two_protocols_in_flight");
            }
            match op {
                Op::Advance { .. } | Op::AdvanceToWorkerEffective { .. } | Op::AdvanceToBeneficiaryExpiry { .. } => {
                    let target = match op {
                        Op::Advance { epochs } => now + *epochs as i64,
                        Op::AdvanceToWorkerEffective { rel } => m.pending_worker.map(|(_, e)| e + *rel as i64).unwrap_or(now),
                        Op::AdvanceToBeneficiaryExpiry { rel } => if m.expiration > now { m.expiration + *rel as i64 } else { now },
                        _ => now,
                    };
                    while w.v.epoch() < target {
                        let r = w.cron_tick();
                        vassert!(r.ok(), "cron-tick-failed", "cron tick failed: {}", r.message);
                        // the deadline cron applies a due worker-key change
                        if let Some((nw, eff)) = m.pending_worker {
                            let mut ran = false;
                            r.trace.walk(&mut |t, _| {
                                if t.to_id == Some(miner) && t.method == mi::Method::OnDeferredCronEvent as u64 && t.ok() {
                                    ran = true;
                                }
                            });
                            if ran && w.v.epoch() >= eff {
                                // either outcome is the protocol's: the cron *may* apply it; follow the state
                                let mv = crate::engines::sys::view::read_miner(&w.v, miner);
                                if mv.worker == nw {
                                    m.worker = nw;
                                    m.pending_worker = None;
                                    stats.label("worker_changed");
                                    stats.label("worker_changed_by_cron");
                                    completed += 1;
                                }
                            }
                        }
                        w.v.set_epoch(w.v.epoch() + 1);
                    }
                    compare(&w, miner, &m, &p, stats)?;
                    continue;
                }
                Op::Fund { whole } => {
                    let r = w.v.execute(w.faucet, &Address::new_id(miner), &TokenAmount::from_whole(*whole as i64), 0, None);
                    assert!(r.ok());
                    continue;
                }
                Op::ChangeOwner { by, new } => {
                    let by_id = role(&m, &p, *by);
                    let mut new_id = p[*new as usize % 8];
                    if Some(by_id) == m.pending_owner && *new % 4 != 0 {
                        new_id = by_id; // the nominee confirms itself
                    }
                    let (by, new) = (by_id, new_id);
                    let r = w.call(by, miner, mi::Method::ChangeOwnerAddress as u64, &zero, &mi::ChangeOwnerAddressParams { new_owner: Address::new_id(new) });
                    // protocol verdict
                    let allowed = if by == m.owner {
                        true
                    } else {
                        m.pending_owner == Some(by) && new == by
                    };
                    stats.say(|| format!("op {i}: ChangeOwner by {by} new {new} (owner {} pending {:?}) -> {} {}", m.owner, m.pending_owner, r.code.value(), r.message));
                    if r.ok() {
                        vassert!(allowed, "owner-change-by-unauthorised", "ChangeOwnerAddress({}) by {} accepted with owner {} and proposed {:?}", new, by, m.owner, m.pending_owner);
                        if by == m.owner {
                            if m.pending_owner.is_some() {
                                stats.label("reproposal_while_pending");
                            }
                            m.pending_owner = if new == m.owner { None } else { Some(new) };
                        } else {
                            if m.beneficiary == m.owner {
                                m.beneficiary = new;
                            }
                            m.pending_ben = None;
                            m.owner = new;
                            m.pending_owner = None;
                            stats.label("owner_changed");
                            completed += 1;
                        }
                    } else if allowed {
                        stats.label("impl_stricter_than_model");
                    }
                }
                Op::ChangeWorker { by, new_worker, controls } => {
                    let by = role(&m, &p, *by);
                    let nw = p[*new_worker as usize % 8];
                    let ctl: Vec<ActorID> = controls.iter().map(|c| p[*c as usize % 8]).collect();
                    let r = w.call(by, miner, mi::Method::ChangeWorkerAddress as u64, &zero, &mi::ChangeWorkerAddressParams { new_worker: Address::new_id(nw), new_control_addresses: ctl.iter().map(|c| Address::new_id(*c)).collect() });
                    stats.say(|| format!("op {i}: ChangeWorker by {by} new {nw} controls {ctl:?} -> {} {}", r.code.value(), r.message));
                    if r.ok() {
                        vassert!(by == m.owner, "worker-change-by-non-owner", "ChangeWorkerAddress by {} accepted, owner is {}", by, m.owner);
                        m.controls = ctl;
                        if nw != m.worker && m.pending_worker.is_none() {
                            m.pending_worker = Some((nw, now + WORKER_DELAY));
                        } else if m.pending_worker.is_some() {
                            stats.label("reproposal_while_pending");
                        }
                    } else if by == m.owner {
                        stats.label("impl_stricter_than_model");
                    }
                }
                Op::ConfirmWorker { by } => {
                    let by = role(&m, &p, *by);
                    let r = w.call_raw(by, miner, mi::Method::ConfirmChangeWorkerAddress as u64, &zero, None);
                    stats.say(|| format!("op {i}: ConfirmWorker by {by} at {now} (pending {:?}) -> {} {}", m.pending_worker, r.code.value(), r.message));
                    if r.ok() {
                        vassert!(by == m.owner, "worker-confirm-by-non-owner", "ConfirmChangeWorkerAddress by {} accepted, owner is {}", by, m.owner);
                        if let Some((nw, eff)) = m.pending_worker {
                            if now >= eff {
                                m.worker = nw;
                                m.pending_worker = None;
                                stats.label("worker_changed");
                                completed += 1;
                            }
                        }
                    }
                }
                Op::ChangeBeneficiary { by, new, quota_kind, exp_rel, mirror_pending } => {
                    let by = role(&m, &p, *by);
                    let (mut new, mut quota, mut exp) = (
                        p[*new as usize % 8],
                        match quota_kind % 3 {
                            0 => BigInt::zero(),
                            1 => BigInt::from(10u64.pow(18)),
                            _ => BigInt::from(10u64.pow(18)) * 5000,
                        },
                        now + *exp_rel as i64,
                    );
                    if by != m.owner && *mirror_pending {
                        if let Some(pb) = &m.pending_ben {
                            new = pb.new;
                            quota = pb.quota.clone();
                            exp = pb.expiration;
                        }
                    }
                    if by == m.owner && new == m.owner && *mirror_pending {
                        quota = BigInt::zero();
                        exp = 0;
                    }
                    let r = w.call(by, miner, mi::Method::ChangeBeneficiary as u64, &zero, &mi::ChangeBeneficiaryParams { new_beneficiary: Address::new_id(new), new_quota: TokenAmount::from_atto(quota.clone()), new_expiration: exp });
                    // protocol verdict
                    let mut why: Option<&'static str> = None;
                    if by == m.owner {
                        if new != m.owner {
                            if !quota.is_positive() {
                                why = Some("quota must be positive");
                            }
                        } else if !quota.is_zero() || exp != 0 {
                            why = Some("handing back to the owner needs zero quota and expiry");
                        }
                    } else if let Some(pb) = &m.pending_ben {
                        if by != m.beneficiary && by != pb.new {
                            why = Some("caller is neither beneficiary nor nominee");
                        } else if pb.new != new || pb.quota != quota || pb.expiration != exp {
                            why = Some("approval does not match the proposal");
                        }
                    } else {
                        why = Some("no proposal to approve");
                    }
                    stats.say(|| format!("op {i}: ChangeBeneficiary by {by} new {new} quota {quota} exp {exp} at {now} (beneficiary {} pending {:?}) -> {} {} (model {:?})", m.beneficiary, m.pending_ben, r.code.value(), r.message, why));
                    if r.ok() {
                        if let Some(wy) = why {
                            vfail!("beneficiary-change-accepted", "ChangeBeneficiary by {} accepted although: {}", by, wy);
                        }
                        if by == m.owner {
                            if m.pending_ben.is_some() {
                                stats.label("reproposal_while_pending");
                            }
                            m.pending_ben = Some(PendingBen { new, quota: quota.clone(), expiration: exp, by_beneficiary: m.available(now).is_zero(), by_nominee: false });
                        }
                        let pb = m.pending_ben.as_mut().unwrap();
                        if by == m.beneficiary {
                            pb.by_beneficiary = true;
                        }
                        if by == new {
                            pb.by_nominee = true;
                        }
                        if pb.by_beneficiary && pb.by_nominee {
                            let pb = m.pending_ben.take().unwrap();
                            if pb.new != m.beneficiary {
                                m.used = BigInt::zero();
                            }
                            m.beneficiary = pb.new;
                            m.quota = pb.quota;
                            m.expiration = pb.expiration;
                            stats.label("beneficiary_changed");
                            completed += 1;
                        }
                    } else if why.is_none() {
                        stats.label("impl_stricter_than_model");
                    }
                }
                Op::Withdraw { by, milli } => {
                    let by = role(&m, &p, *by);
                    let amount = BigInt::from(*milli) * BigInt::from(10u64.pow(15));
                    let ben_before = w.v.balance(m.beneficiary);
                    let r = w.call(by, miner, mi::Method::WithdrawBalance as u64, &zero, &mi::WithdrawBalanceParams { amount_requested: TokenAmount::from_atto(amount.clone()) });
                    stats.say(|| format!("op {i}: Withdraw by {by} {amount} -> {} {}", r.code.value(), r.message));
                    if r.ok() {
                        vassert!(by == m.owner || by == m.beneficiary, "withdraw-by-unauthorised", "WithdrawBalance by {} accepted; owner {} beneficiary {}", by, m.owner, m.beneficiary);
                        let ret: mi::WithdrawBalanceReturn = r.de().unwrap();
                        let paid = ret.amount_withdrawn.atto().clone();
                        if m.beneficiary != m.owner {
                            let avail = m.available(now);
                            vassert!(avail.is_positive() && paid <= avail, "withdraw-beyond-quota", "withdrew {} with remaining quota {}", paid, avail);
                            m.used += &paid;
                        }
                        // paid only to the beneficiary
                        let sends: Vec<_> = r.trace.subs.iter().filter(|s| s.method == 0 && s.ok() && s.to_id != Some(fil_actors_runtime::BURNT_FUNDS_ACTOR_ID) && !s.value.is_zero()).collect();
                        for s in &sends {
                            vassert!(s.to_id == Some(m.beneficiary), "withdraw-paid-to-other", "withdrawal sent {} to {:?}, beneficiary is {}", s.value, s.to_id, m.beneficiary);
                        }
                        let gained = w.v.balance(m.beneficiary).atto() - ben_before.atto();
                        if by != m.beneficiary {
                            vassert!(gained == paid, "withdraw-amount", "beneficiary gained {} but {} was reported", gained, paid);
                        }
                        if paid.is_positive() {
                            stats.label("withdrawn");
                        }
                    }
                }
            }
            compare(&w, miner, &m, &p, stats)?;
            probes(&w, miner, &m, &p, stats)?;
        }
        stats.nontrivial = completed >= 1 && (in_flight_seen || stats.labels.contains("reproposal_while_pending"));
        Ok(())
    }
}

fn compare(w: &World, miner: ActorID, m: &Model, p: &[ActorID], _stats: &mut CaseStats) -> VResult {
    let z = TokenAmount::zero();
    let asker = p[7];
    let r = w.call_raw(asker, miner, mi::Method::GetOwnerExported as u64, &z, None);
    let o: mi::GetOwnerReturn = r.de().ok_or_else(|| Violation::new("get-owner", "GetOwner failed"))?;
    vassert!(o.owner.id().unwrap() == m.owner && o.proposed.map(|a| a.id().unwrap()) == m.pending_owner, "owner-differs", "GetOwner = ({}, {:?}) model ({}, {:?})", o.owner, o.proposed, m.owner, m.pending_owner);
    let r = w.call_raw(asker, miner, mi::Method::ControlAddresses as u64, &z, None);
    let c: mi::GetControlAddressesReturn = r.de().ok_or_else(|| Violation::new("control-addresses", "ControlAddresses failed"))?;
    let ctl: Vec<ActorID> = c.control_addresses.iter().map(|a| a.id().unwrap()).collect();
    vassert!(c.owner.id().unwrap() == m.owner && c.worker.id().unwrap() == m.worker && ctl == m.controls, "control-differs", "ControlAddresses = ({}, {}, {:?}) model ({}, {}, {:?})", c.owner, c.worker, ctl, m.owner, m.worker, m.controls);
    let r = w.call_raw(asker, miner, mi::Method::GetBeneficiary as u64, &z, None);
    let b: mi::GetBeneficiaryReturn = r.de().ok_or_else(|| Violation::new("get-beneficiary", "GetBeneficiary failed"))?;
    let proposed = b.proposed.as_ref().map(|x| PendingBen { new: x.new_beneficiary.id().unwrap(), quota: x.new_quota.atto().clone(), expiration: x.new_expiration, by_beneficiary: x.approved_by_beneficiary, by_nominee: x.approved_by_nominee });
    vassert!(
        b.active.beneficiary.id().unwrap() == m.beneficiary && b.active.term.quota.atto() == &m.quota && b.active.term.used_quota.atto() == &m.used && b.active.term.expiration == m.expiration && proposed == m.pending_ben,
        "beneficiary-differs",
        "GetBeneficiary = ({}, {}, {}, {}, {:?}) model ({}, {}, {}, {}, {:?})",
        b.active.beneficiary, b.active.term.quota, b.active.term.used_quota, b.active.term.expiration, proposed, m.beneficiary, m.quota, m.used, m.expiration, m.pending_ben
    );
    // pending worker key
    let mv = crate::engines::sys::view::read_miner(&w.v, miner);
    vassert!(mv.pending_worker == m.pending_worker, "pending-worker-differs", "pending worker {:?} model {:?}", mv.pending_worker, m.pending_worker);
    Ok(())
}

/// Who can actually exercise which right (on a snapshot).
fn probes(w: &World, miner: ActorID, m: &Model, p: &[ActorID], stats: &mut CaseStats) -> VResult {
    let z = TokenAmount::zero();
    let now = w.v.epoch();
    for who in p {
        let snap = w.v.snapshot();
        let r = w.call(*who, miner, mi::Method::ChangePeerID as u64, &z, &mi::ChangePeerIDParams { new_id: b"probe".to_vec() });
        w.v.restore(&snap);
        let may = *who == m.owner || *who == m.worker || m.controls.contains(who);
        vassert!(r.ok() == may, "worker-class-right", "ChangePeerID by {} -> ok={} but the model says {} (owner {} worker {} controls {:?})", who, r.ok(), may, m.owner, m.worker, m.controls);
        let snap = w.v.snapshot();
        let r = w.call(*who, miner, mi::Method::ChangeWorkerAddress as u64, &z, &mi::ChangeWorkerAddressParams { new_worker: Address::new_id(m.worker), new_control_addresses: m.controls.iter().map(|c| Address::new_id(*c)).collect() });
        w.v.restore(&snap);
        vassert!(r.ok() == (*who == m.owner), "owner-only-right", "ChangeWorkerAddress by {} -> ok={} but the owner is {}", who, r.ok(), m.owner);
        let snap = w.v.snapshot();
        let r = w.call(*who, miner, mi::Method::WithdrawBalance as u64, &z, &mi::WithdrawBalanceParams { amount_requested: TokenAmount::zero() });
        w.v.restore(&snap);
        let entitled = *who == m.owner || *who == m.beneficiary;
        if r.ok() {
            vassert!(entitled, "withdraw-right", "WithdrawBalance(0) by {} succeeded; owner {} beneficiary {}", who, m.owner, m.beneficiary);
        } else if entitled && (m.beneficiary == m.owner || m.available(now).is_positive()) {
            stats.label("withdraw_probe_refused");
        }
    }
    Ok(())
}
