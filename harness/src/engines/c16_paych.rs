//! C16 — payment channel: vouchers redeem once, payout exact (DESIGN §3 C16).
//! Oracle: reference channel model written from the protocol rules; the actor's state is only
//! decoded, never used to predict.

use crate::common::*;
use crate::simvm::sign;
use crate::world::*;
use crate::{vassert, vfail};
use fil_actor_paych as pc;
use fil_actors_runtime::INIT_ACTOR_ID;
use fil_actors_runtime::runtime::Policy;
use fil_actors_runtime::test_utils::PAYCH_ACTOR_CODE_ID;
use fvm_ipld_amt::Amt;
use fvm_ipld_encoding::RawBytes;
use fvm_shared::address::Address;
use fvm_shared::bigint::BigInt;
use fvm_shared::crypto::signature::{Signature, SignatureType};
use fvm_shared::econ::TokenAmount;
use fvm_shared::{ActorID, METHOD_SEND};
use num_traits::{Signed, Zero};
use proptest::prelude::*;
use serde::{Deserialize, Serialize};
use std::collections::BTreeMap;

const SETTLE_DELAY: i64 = 12 * 120; // twelve hours of 30-second epochs

#[derive(Clone, Debug, Serialize, Deserialize)]
pub enum Signer {
    CounterParty,
    Submitter,
    Outsider,
    Nobody,
}

#[derive(Clone, Debug, Serialize, Deserialize)]
pub enum ExtraKind {
    None,
    Succeeds,
    Fails,
    ReentersChannel,
}

#[derive(Clone, Debug, Serialize, Deserialize)]
pub struct Voucher {
    pub submitter: u8, // 0 payer, 1 payee, 2 outsider
    pub signer: Signer,
    pub other_channel: bool,
    pub lane: u8,
    /// nonce relative to the lane's current nonce: -1, 0, +1, +k
    pub nonce_rel: i8,
    /// amount in per-mille of the channel balance (can exceed 1000), or negative
    pub amount_pm: i16,
    /// merges: (lane, nonce_rel)
    pub merges: Vec<(u8, i8)>,
    pub time_lock_min_rel: i16,
    pub time_lock_max_rel: Option<i16>,
    pub secret: u8, // 0 none, 1 right, 2 wrong, 3 too long, 4 locked but EMPTY secret submitted, 5 right secret with a trailing byte, 6 secret submitted for an unlocked voucher
    pub min_settle_rel: Option<i16>,
    pub extra: ExtraKind,
}

#[derive(Clone, Debug, Serialize, Deserialize)]
pub enum Op {
    Voucher(Voucher),
    Settle { by: u8 },
    Collect { by: u8 },
    Advance { epochs: u16 },
    /// jump to settling_at + rel (if settling)
    AdvanceToSettle { rel: i8 },
    TopUp { whole: u8 },
}

#[derive(Clone, Debug, Serialize, Deserialize)]
pub struct Case {
    pub initial_whole: u8,
    pub ops: Vec<Op>,
}

fn voucher_strategy() -> impl Strategy<Value = Voucher> {
    (
        (
            prop_oneof![8 => Just(1u8), 6 => Just(0u8), 1 => Just(2u8)],
            prop_oneof![30 => Just(Signer::CounterParty), 1 => Just(Signer::Submitter), 1 => Just(Signer::Outsider), 1 => Just(Signer::Nobody)],
            prop_oneof![40 => Just(false), 1 => Just(true)],
            0u8..4,
            prop_oneof![8 => Just(1i8), 2 => Just(0i8), 1 => Just(-1i8), 2 => 2i8..5],
            prop_oneof![12 => 0i16..400, 1 => 400i16..1400, 1 => -20i16..0],
        ),
        (
            prop_oneof![
                6 => Just(vec![]),
                4 => proptest::collection::vec((0u8..4, prop_oneof![8 => Just(1i8), 1 => Just(0i8), 1 => Just(-1i8), 1 => 2i8..4]), 1..2),
                1 => proptest::collection::vec((0u8..4, prop_oneof![8 => Just(1i8), 1 => Just(0i8), 1 => 2i8..4]), 2..4),
            ],
            prop_oneof![20 => Just(-5i16), 2 => Just(0i16), 1 => 1i16..50],
            prop_oneof![12 => Just(None), 3 => (0i16..50).prop_map(Some), 1 => (-20i16..0).prop_map(Some)],
            prop_oneof![16 => Just(0u8), 6 => Just(1u8), 1 => Just(2u8), 1 => Just(3u8), 1 => Just(4u8), 1 => Just(5u8), 1 => Just(6u8)],
            prop_oneof![6 => Just(None), 3 => (-100i16..3000).prop_map(Some)],
            prop_oneof![16 => Just(ExtraKind::None), 4 => Just(ExtraKind::Succeeds), 1 => Just(ExtraKind::Fails), 1 => Just(ExtraKind::ReentersChannel)],
        ),
    )
        .prop_map(|((submitter, signer, other_channel, lane, nonce_rel, amount_pm), (merges, tlmin, tlmax, secret, msh, extra))| Voucher {
            submitter,
            signer,
            other_channel,
            lane,
            nonce_rel,
            amount_pm,
            merges,
            time_lock_min_rel: tlmin,
            time_lock_max_rel: tlmax,
            secret,
            min_settle_rel: msh,
            extra,
        })
}

fn op_strategy() -> impl Strategy<Value = Op> {
    prop_oneof![
        12 => voucher_strategy().prop_map(Op::Voucher),
        1 => (0u8..3).prop_map(|by| Op::Settle { by }),
        2 => (0u8..3).prop_map(|by| Op::Collect { by }),
        1 => (0u16..800).prop_map(|epochs| Op::Advance { epochs }),
        2 => (-2i8..3).prop_map(|rel| Op::AdvanceToSettle { rel }),
        1 => (0u8..10).prop_map(|whole| Op::TopUp { whole }),
    ]
}

#[derive(Clone, Debug, Default, PartialEq, Eq)]
struct Lane {
    redeemed: BigInt,
    nonce: u64,
}

#[derive(Clone, Debug, Default)]
struct Model {
    lanes: BTreeMap<u64, Lane>,
    to_send: BigInt,
    settling_at: i64,
    min_settle_height: i64,
}

pub struct C16;

impl Engine for C16 {
    type Case = Case;
    fn id(&self) -> &'static str {
        "C16"
    }
    fn budget(&self, tier: Tier) -> (u32, u32) {
        match tier {
            Tier::Quick => (16, 20000),
            Tier::Thorough => (16, 60000),
        }
    }
    fn strategy(&self, tier: Tier) -> BoxedStrategy<Case> {
        let n = if tier == Tier::Quick { 25 } else { 40 };
        (1u8..50, proptest::collection::vec(op_strategy(), 0..n))
            .prop_map(|(initial_whole, ops)| Case { initial_whole, ops })
            .boxed()
    }
    fn rule(&self) -> String {
        "case = channel funding + ≤25/40 operations (vouchers over 4 lanes with relative nonces, \
         amounts incl. decreasing/negative/over-balance, merges incl. own/unknown/stale lanes, time \
         locks, secrets, min settle heights, extra calls, good/foreign/missing signatures, submitted \
         by payer, payee or outsider; settle, collect, epoch jumps around settling_at, top-ups); \
         non-trivial = at least two vouchers were accepted and a voucher was replayed or superseded \
         (nonce ≤ lane nonce) on a lane that had been merged or redeemed before; distinct by case hash"
            .into()
    }
    fn assumptions(&self) -> Vec<String> {
        vec![
            "signatures are faked but bound to the signer's key address (blake2b(signer ‖ voucher bytes))".into(),
            "parties are account actors".into(),
            "an implementation that rejects a voucher the model accepts is labelled, not reported".into(),
        ]
    }
    fn required_labels(&self) -> Vec<(&'static str, f64)> {
        vec![("voucher_accepted", 0.5), ("merge_accepted", 0.05), ("collected", 0.03), ("replay_on_touched_lane", 0.05)]
    }

    fn run(&self, case: &Case, stats: &mut CaseStats) -> VResult {
        let w = World::new(Policy::default());
        let payer = w.account(1, &TokenAmount::from_whole(10_000));
        let payee = w.account(2, &TokenAmount::from_whole(10));
        let outsider = w.account(3, &TokenAmount::from_whole(10));
        let target = w.account(4, &TokenAmount::from_whole(1));
        w.v.set_epoch(1000);
        let mk = |value: &TokenAmount| -> ActorID {
            let r = w.call(
                payer,
                INIT_ACTOR_ID,
                fil_actor_init::Method::Exec as u64,
                value,
                &fil_actor_init::ExecParams {
                    code_cid: *PAYCH_ACTOR_CODE_ID,
                    constructor_params: RawBytes::serialize(&pc::ConstructorParams {
                        from: Address::new_id(payer),
                        to: Address::new_id(payee),
                    })
                    .unwrap(),
                },
            );
            assert!(r.ok(), "{}", r.message);
            r.de::<fil_actor_init::ExecReturn>().unwrap().id_address.id().unwrap()
        };
        let ch = mk(&TokenAmount::from_whole(case.initial_whole as i64));
        let other_ch = mk(&TokenAmount::from_whole(1));
        let parties = [payer, payee, outsider];
        let mut m = Model::default();
        let mut accepted = 0u32;
        let mut touched_lanes: std::collections::BTreeSet<u64> = Default::default();
        let mut collected = false;

        for (i, op) in case.ops.iter().enumerate() {
            if collected {
                break;
            }
            let epoch = w.v.epoch();
            let bal = w.v.balance(ch);
            match op {
                Op::Advance { epochs } => {
                    w.v.set_epoch(epoch + *epochs as i64);
                }
                Op::AdvanceToSettle { rel } => {
                    if m.settling_at != 0 && m.settling_at + (*rel as i64) > epoch {
                        w.v.set_epoch(m.settling_at + *rel as i64);
                        stats.label("jump_to_settling_boundary");
                    }
                }
                Op::TopUp { whole } => {
                    let r = w.v.execute(w.faucet, &Address::new_id(ch), &TokenAmount::from_whole(*whole as i64), METHOD_SEND, None);
                    assert!(r.ok());
                }
                Op::Settle { by } => {
                    let caller = parties[*by as usize % 3];
                    let r = w.call_raw(caller, ch, pc::Method::Settle as u64, &TokenAmount::zero(), None);
                    let expect_ok = caller != outsider && m.settling_at == 0;
                    stats.say(|| format!("op {i}: Settle by {caller} -> {}", r.code.value()));
                    if r.ok() {
                        vassert!(expect_ok, "settle-accepted", "Settle accepted from {} with settling_at {}", caller, m.settling_at);
                        m.settling_at = std::cmp::max(epoch + SETTLE_DELAY, m.min_settle_height);
                        stats.label("settled");
                    } else if expect_ok {
                        stats.label("impl_stricter_than_model");
                    }
                }
                Op::Collect { by } => {
                    let caller = parties[*by as usize % 3];
                    let payee_before = w.v.balance(payee);
                    let payer_before = w.v.balance(payer);
                    let r = w.call_raw(caller, ch, pc::Method::Collect as u64, &TokenAmount::zero(), None);
                    let expect_ok = caller != outsider && m.settling_at != 0 && epoch >= m.settling_at;
                    stats.say(|| format!("op {i}: Collect by {caller} at {epoch} (settling_at {}) -> {}", m.settling_at, r.code.value()));
                    if r.ok() {
                        vassert!(expect_ok, "collect-too-early-or-foreign", "Collect accepted from {} at epoch {} with settling_at {}", caller, epoch, m.settling_at);
                        // exactly two sends: to_send to payee, remainder to payer; actor deleted
                        let sends: Vec<_> = r.trace.subs.iter().filter(|s| s.ok()).collect();
                        vassert!(sends.len() == 2, "collect-sends", "expected two sends, saw {}", sends.len());
                        vassert!(
                            sends[0].to_id == Some(payee) && sends[0].value.atto() == &m.to_send,
                            "collect-payee-amount",
                            "payee got {} but is owed {}",
                            sends[0].value, m.to_send
                        );
                        vassert!(
                            sends[1].to_id == Some(payer) && sends[1].value.atto() == &(bal.atto() - &m.to_send),
                            "collect-payer-remainder",
                            "payer got {} but remainder is {}",
                            sends[1].value, bal.atto() - &m.to_send
                        );
                        vassert!(w.v.actor(ch).is_none(), "collect-not-deleted", "channel still exists after Collect");
                        vassert!(
                            w.v.balance(payee).atto() - payee_before.atto() == m.to_send
                                && w.v.balance(payer).atto() - payer_before.atto() == bal.atto() - &m.to_send,
                            "collect-balances",
                            "balances after collect do not match owed/remainder"
                        );
                        collected = true;
                        stats.label("collected");
                    } else if expect_ok {
                        stats.label("impl_stricter_than_model");
                    }
                }
                Op::Voucher(vs) => {
                    let submitter = parties[vs.submitter as usize % 3];
                    let lane = vs.lane as u64;
                    let lane_nonce = m.lanes.get(&lane).map(|l| l.nonce).unwrap_or(0);
                    let nonce = (lane_nonce as i64 + vs.nonce_rel as i64).max(0) as u64;
                    let amount = TokenAmount::from_atto(bal.atto() * BigInt::from(vs.amount_pm) / BigInt::from(1000));
                    let merges: Vec<pc::Merge> = vs
                        .merges
                        .iter()
                        .map(|(l, rel)| {
                            let l = *l as u64;
                            let n = m.lanes.get(&l).map(|x| x.nonce).unwrap_or(0);
                            pc::Merge { lane: l, nonce: (n as i64 + *rel as i64).max(0) as u64 }
                        })
                        .collect();
                    let secret: Vec<u8> = match vs.secret {
                        0 => vec![],
                        1 | 2 | 6 => b"open sesame".to_vec(),
                        4 => vec![],
                        5 => b"open sesame\0".to_vec(),
                        _ => vec![9u8; 257],
                    };
                    let pre_image: Vec<u8> = match vs.secret {
                        0 | 6 => vec![],
                        1 | 3 => blake2b_simd::Params::new().hash_length(32).hash(&secret).as_bytes().to_vec(),
                        4 | 5 => blake2b_simd::Params::new().hash_length(32).hash(b"open sesame").as_bytes().to_vec(),
                        _ => vec![3u8; 32],
                    };
                    let extra = match vs.extra {
                        ExtraKind::None => None,
                        ExtraKind::Succeeds => Some(pc::ModVerifyParams { actor: Address::new_id(target), method: 1 << 25, data: RawBytes::default() }),
                        ExtraKind::Fails => Some(pc::ModVerifyParams { actor: Address::new_id(target), method: 77, data: RawBytes::default() }),
                        ExtraKind::ReentersChannel => Some(pc::ModVerifyParams { actor: Address::new_id(ch), method: pc::Method::Collect as u64, data: RawBytes::default() }),
                    };
                    let mut sv = pc::SignedVoucher {
                        channel_addr: Address::new_id(if vs.other_channel { other_ch } else { ch }),
                        time_lock_min: epoch + vs.time_lock_min_rel as i64,
                        time_lock_max: vs.time_lock_max_rel.map(|r| (epoch + r as i64).max(1)).unwrap_or(0),
                        secret_pre_image: pre_image,
                        extra,
                        lane,
                        nonce,
                        amount: amount.clone(),
                        min_settle_height: vs.min_settle_rel.map(|r| (epoch + r as i64).max(0)).unwrap_or(0),
                        merges: merges.clone(),
                        signature: None,
                    };
                    let counterparty = if submitter == payer { payee } else { payer };
                    let signer_id = match vs.signer {
                        Signer::CounterParty => Some(counterparty),
                        Signer::Submitter => Some(submitter),
                        Signer::Outsider => Some(outsider),
                        Signer::Nobody => None,
                    };
                    if let Some(sid) = signer_id {
                        let st: fil_actor_account::State = w.v.get_state(sid).unwrap();
                        sv.signature = Some(Signature {
                            sig_type: SignatureType::BLS,
                            bytes: sign(&st.address, &sv.signing_bytes().unwrap()),
                        });
                    }
                    // ---- model verdict (protocol rules)
                    let mut reject: Option<&'static str> = None;
                    let mut set = |r: &'static str| {
                        if reject.is_none() {
                            reject = Some(r)
                        }
                    };
                    if submitter == outsider {
                        set("submitter is not a party");
                    }
                    if signer_id != Some(counterparty) || submitter == outsider {
                        set("not signed by the other party");
                    }
                    if m.settling_at != 0 && epoch >= m.settling_at {
                        set("channel settled");
                    }
                    if secret.len() > 256 {
                        set("secret too long");
                    }
                    if vs.other_channel {
                        set("voucher names another channel");
                    }
                    if epoch < sv.time_lock_min {
                        set("before time lock");
                    }
                    if sv.time_lock_max != 0 && epoch > sv.time_lock_max {
                        set("after time lock");
                    }
                    if amount.is_negative() {
                        set("negative amount");
                    }
                    if matches!(vs.secret, 2 | 4 | 5) {
                        set("wrong secret");
                    }
                    if matches!(vs.extra, ExtraKind::Fails | ExtraKind::ReentersChannel) {
                        set("extra call fails");
                    }
                    if let Some(l) = m.lanes.get(&lane) {
                        if nonce <= l.nonce {
                            set("stale nonce");
                            if touched_lanes.contains(&lane) {
                                stats.label("replay_on_touched_lane");
                            }
                        }
                    }
                    let mut dup_merge = false;
                    let mut seen = std::collections::BTreeSet::new();
                    let mut redeemed_others = BigInt::zero();
                    // nonces as raised by earlier entries of this very merge list
                    let mut raised: BTreeMap<u64, u64> = BTreeMap::new();
                    for mg in &merges {
                        let first = seen.insert(mg.lane);
                        if !first {
                            dup_merge = true;
                        }
                        if mg.lane == lane {
                            set("merges own lane");
                        }
                        match m.lanes.get(&mg.lane) {
                            None => set("merges unknown lane"),
                            Some(l) => {
                                let cur = raised.get(&mg.lane).copied().unwrap_or(l.nonce);
                                if mg.nonce <= cur {
                                    set("stale merge nonce");
                                }
                                raised.insert(mg.lane, mg.nonce);
                                // "the lanes it merges" is a set: a lane's redeemed amount is deducted once per voucher
                                if first {
                                    redeemed_others += &l.redeemed;
                                }
                            }
                        }
                    }
                    let own_redeemed = m.lanes.get(&lane).map(|l| l.redeemed.clone()).unwrap_or_default();
                    let new_to_send = &m.to_send + amount.atto() - &own_redeemed - &redeemed_others;
                    if new_to_send.is_negative() {
                        set("owed would be negative");
                    }
                    if &new_to_send > bal.atto() {
                        set("owed would exceed balance");
                    }
                    let p = pc::UpdateChannelStateParams { sv: sv.clone(), secret };
                    let r = w.call(submitter, ch, pc::Method::UpdateChannelState as u64, &TokenAmount::zero(), &p);
                    stats.say(|| format!("op {i}: voucher lane {lane} nonce {nonce} amount {amount} merges {merges:?} by {submitter} signer {:?} -> {} {} (model: {:?})", vs.signer, r.code.value(), r.message, reject));
                    if dup_merge {
                        stats.label("duplicate_merge_lane");
                    }
                    if r.ok() {
                        if let Some(why) = reject {
                            vfail!("voucher-accepted", "voucher accepted although: {} (lane {} nonce {} amount {} merges {:?})", why, lane, nonce, amount, merges);
                        }
                        accepted += 1;
                        stats.label("voucher_accepted");
                        if !merges.is_empty() {
                            stats.label("merge_accepted");
                        }
                        for mg in &merges {
                            m.lanes.get_mut(&mg.lane).unwrap().nonce = mg.nonce;
                            touched_lanes.insert(mg.lane);
                        }
                        m.lanes.insert(lane, Lane { redeemed: amount.atto().clone(), nonce });
                        touched_lanes.insert(lane);
                        m.to_send = new_to_send;
                        if sv.min_settle_height != 0 {
                            if m.settling_at != 0 && m.settling_at < sv.min_settle_height {
                                m.settling_at = sv.min_settle_height;
                                stats.label("settling_extended");
                            }
                            if m.min_settle_height < sv.min_settle_height {
                                m.min_settle_height = sv.min_settle_height;
                            }
                        }
                    } else if reject.is_none() {
                        stats.label("impl_stricter_than_model");
                    }
                }
            }
            if !collected {
                let actual = read_model(&w, ch);
                let bal = w.v.balance(ch);
                vassert!(actual.to_send == m.to_send, "owed-differs", "actor to_send {} model {}", actual.to_send, m.to_send);
                vassert!(!actual.to_send.is_negative() && &actual.to_send <= bal.atto(), "owed-out-of-range", "to_send {} balance {}", actual.to_send, bal);
                vassert!(actual.lanes == m.lanes, "lanes-differ", "actor lanes {:?} model {:?}", actual.lanes, m.lanes);
                vassert!(
                    actual.settling_at == m.settling_at && actual.min_settle_height == m.min_settle_height,
                    "settle-differs",
                    "actor settling_at {} msh {} model {} {}",
                    actual.settling_at, actual.min_settle_height, m.settling_at, m.min_settle_height
                );
            }
        }
        stats.nontrivial = accepted >= 2 && stats.labels.contains("replay_on_touched_lane");
        Ok(())
    }
}

fn read_model(w: &World, ch: ActorID) -> Model {
    let st: pc::State = w.v.get_state(ch).expect("channel state");
    let amt: Amt<pc::LaneState, _> = Amt::load(&st.lane_states, &*w.v.store).expect("lanes");
    let mut lanes = BTreeMap::new();
    amt.for_each(|k, l| {
        lanes.insert(k, Lane { redeemed: l.redeemed.atto().clone(), nonce: l.nonce });
        Ok(())
    })
    .expect("iterate lanes");
    Model { lanes, to_send: st.to_send.atto().clone(), settling_at: st.settling_at, min_settle_height: st.min_settle_height }
}
