//! C17 — EVM instructions compute what Ethereum specifies (DESIGN §3 C17).
//! Differential: real EVM actor (deployed through EAM, invoked through InvokeContract) versus the
//! independent reference interpreter in `evmref`.

use crate::common::*;
use crate::evmfix::*;
use crate::evmref::{self, Outcome, U};
use crate::{vassert, vfail};
use fvm_shared::econ::TokenAmount;
use num_traits::{One, Zero};
use proptest::prelude::*;
use serde::{Deserialize, Serialize};
use std::collections::BTreeMap;

#[derive(Clone, Debug, Serialize, Deserialize)]
pub enum V {
    Small(u16),
    Pow2(u16),
    Pow2m1(u16),
    Pow2p(u16, u8),
    Max,
    MaxMinus(u8),
    Rand(Vec<u8>),
}

impl V {
    pub fn val(&self) -> U {
        match self {
            V::Small(x) => U::from(*x),
            V::Pow2(k) => U::one() << (*k % 256) as u64,
            V::Pow2m1(k) => (U::one() << (*k % 257) as u64) - U::one(),
            V::Pow2p(k, d) => ((U::one() << (*k % 256) as u64) + U::from(*d)) % evmref::two256(),
            V::Max => evmref::max256(),
            V::MaxMinus(d) => evmref::max256() - U::from(*d),
            V::Rand(b) => evmref::from_be(&b[..std::cmp::min(32, b.len())]),
        }
    }
    fn boundary(&self) -> bool {
        !matches!(self, V::Rand(_) | V::Small(_))
    }
}

fn v_strategy() -> impl Strategy<Value = V> {
    prop_oneof![
        4 => (0u16..300).prop_map(V::Small),
        3 => (0u16..256).prop_map(V::Pow2),
        2 => (0u16..257).prop_map(V::Pow2m1),
        3 => (prop_oneof![Just(8u16), Just(16), Just(31), Just(32), Just(63), Just(64), Just(65), Just(127), Just(128), Just(129), Just(255), 0u16..256], 0u8..40).prop_map(|(k, d)| V::Pow2p(k, d)),
        2 => Just(V::Max),
        2 => (0u8..40).prop_map(V::MaxMinus),
        3 => proptest::collection::vec(any::<u8>(), 1..33).prop_map(V::Rand),
    ]
}

#[derive(Clone, Debug, Serialize, Deserialize)]
pub enum Arg {
    Const(V),
    Top,
}

#[derive(Clone, Debug, Serialize, Deserialize)]
pub enum Off {
    Small(u16),
    /// 2^32 - k
    Below32(u8),
    /// 2^32 + k
    Above32(u8),
    Huge(V),
}
impl Off {
    pub fn val_pub(&self) -> U {
        self.val()
    }
    fn val(&self) -> U {
        match self {
            Off::Small(x) => U::from(*x % 700),
            Off::Below32(k) => (U::one() << 32u32) - U::from(*k),
            Off::Above32(k) => (U::one() << 32u32) + U::from(*k),
            Off::Huge(v) => v.val(),
        }
    }
}
pub fn off_strategy_pub() -> impl Strategy<Value = Off> {
    off_strategy()
}
pub fn len_strategy_pub() -> impl Strategy<Value = Off> {
    len_strategy()
}
fn off_strategy() -> impl Strategy<Value = Off> {
    prop_oneof![
        20 => (0u16..700).prop_map(Off::Small),
        1 => (0u8..70).prop_map(Off::Below32),
        1 => (0u8..70).prop_map(Off::Above32),
        1 => v_strategy().prop_map(Off::Huge),
    ]
}
fn len_strategy() -> impl Strategy<Value = Off> {
    prop_oneof![
        4 => Just(Off::Small(0)),
        16 => (0u16..100).prop_map(Off::Small),
        1 => (0u8..70).prop_map(Off::Below32),
        1 => (0u8..70).prop_map(Off::Above32),
        1 => v_strategy().prop_map(Off::Huge),
    ]
}

#[derive(Clone, Debug, Serialize, Deserialize)]
pub enum EndKind {
    Return,
    Revert,
    Stop,
    Invalid,
    FallOff,
}

#[derive(Clone, Debug, Serialize, Deserialize)]
pub enum FakeJump {
    IntoPushData,
    NonJumpdest,
    OutOfRange,
    Huge(V),
}

#[derive(Clone, Debug, Serialize, Deserialize)]
pub enum Stmt {
    Compute { op: u8, args: Vec<Arg> },
    Push(V),
    Pop,
    Dup(u8),
    Swap(u8),
    MStore { off: Off, val: Arg, byte: bool },
    MLoad { off: Off },
    MCopy { dst: Off, src: Off, len: Off },
    Keccak { off: Off, len: Off },
    DataCopy { code: bool, dst: Off, src: Off, len: Off },
    ReturnDataCopy { dst: Off, src: Off, len: Off },
    CalldataLoad { off: Off },
    Nullary(u8),
    Store { transient: bool, key: u8, val: Arg },
    Load { transient: bool, key: u8 },
    Loop { count: u8, body: Vec<Stmt> },
    IfSkip { cond: Arg, body: Vec<Stmt> },
    Fake(FakeJump, Arg),
    Raw(Vec<u8>),
}

const BINOPS: &[u8] = &[0x01, 0x02, 0x03, 0x04, 0x05, 0x06, 0x07, 0x0a, 0x0b, 0x10, 0x11, 0x12, 0x13, 0x14, 0x16, 0x17, 0x18, 0x1a, 0x1b, 0x1c, 0x1d];
const UNOPS: &[u8] = &[0x15, 0x19, 0x1e];
const TEROPS: &[u8] = &[0x08, 0x09];
const NULLARY: &[u8] = &[0x30, 0x32, 0x33, 0x34, 0x36, 0x38, 0x3d, 0x42, 0x43, 0x46, 0x47, 0x58, 0x59];

fn arity(op: u8) -> usize {
    if UNOPS.contains(&op) { 1 } else if TEROPS.contains(&op) { 3 } else { 2 }
}

fn arg_strategy() -> impl Strategy<Value = Arg> {
    prop_oneof![3 => v_strategy().prop_map(Arg::Const), 1 => Just(Arg::Top)]
}

fn compute_strategy() -> impl Strategy<Value = Stmt> {
    let ops: Vec<u8> = BINOPS.iter().chain(UNOPS).chain(TEROPS).copied().collect();
    (proptest::sample::select(ops), proptest::collection::vec(arg_strategy(), 3)).prop_map(|(op, mut args)| {
        args.truncate(arity(op));
        Stmt::Compute { op, args }
    })
}

fn leaf_stmt() -> impl Strategy<Value = Stmt> {
    prop_oneof![
        10 => compute_strategy(),
        2 => v_strategy().prop_map(Stmt::Push),
        1 => Just(Stmt::Pop),
        1 => (1u8..17).prop_map(Stmt::Dup),
        1 => (1u8..17).prop_map(Stmt::Swap),
        3 => (off_strategy(), arg_strategy(), any::<bool>()).prop_map(|(off, val, byte)| Stmt::MStore { off, val, byte }),
        2 => off_strategy().prop_map(|off| Stmt::MLoad { off }),
        2 => (off_strategy(), off_strategy(), len_strategy()).prop_map(|(dst, src, len)| Stmt::MCopy { dst, src, len }),
        2 => (off_strategy(), len_strategy()).prop_map(|(off, len)| Stmt::Keccak { off, len }),
        2 => (any::<bool>(), off_strategy(), off_strategy(), len_strategy()).prop_map(|(code, dst, src, len)| Stmt::DataCopy { code, dst, src, len }),
        1 => (off_strategy(), prop_oneof![4 => Just(Off::Small(0)), 1 => off_strategy()], prop_oneof![4 => Just(Off::Small(0)), 1 => len_strategy()]).prop_map(|(dst, src, len)| Stmt::ReturnDataCopy { dst, src, len }),
        2 => off_strategy().prop_map(|off| Stmt::CalldataLoad { off }),
        2 => proptest::sample::select(NULLARY.to_vec()).prop_map(Stmt::Nullary),
        5 => (any::<bool>(), 0u8..4, arg_strategy()).prop_map(|(transient, key, val)| Stmt::Store { transient, key, val }),
        2 => (any::<bool>(), 0u8..4).prop_map(|(transient, key)| Stmt::Load { transient, key }),
        1 => (prop_oneof![Just(FakeJump::IntoPushData), Just(FakeJump::NonJumpdest), Just(FakeJump::OutOfRange), v_strategy().prop_map(FakeJump::Huge)], arg_strategy()).prop_map(|(f, c)| Stmt::Fake(f, c)),
        1 => proptest::collection::vec(proptest::sample::select((0u8..=255).filter(|b| evmref::in_subset(*b)).collect::<Vec<u8>>()), 1..4).prop_map(Stmt::Raw),
    ]
}

fn stmt_strategy() -> impl Strategy<Value = Stmt> {
    leaf_stmt().prop_recursive(2, 24, 6, |inner| {
        prop_oneof![
            1 => (0u8..5, proptest::collection::vec(inner.clone(), 0..6)).prop_map(|(count, body)| Stmt::Loop { count, body }),
            1 => (arg_strategy(), proptest::collection::vec(inner, 0..6)).prop_map(|(cond, body)| Stmt::IfSkip { cond, body }),
        ]
    })
}

#[derive(Clone, Debug, Serialize, Deserialize)]
pub enum Case {
    Single { op: u8, args: Vec<V>, calldata: Vec<u8> },
    Program { stmts: Vec<Stmt>, end: EndKind, ret_off: Off, ret_len: Off, store_top: u8, calldatas: Vec<Vec<u8>>, value_atto: u16 },
}

fn emit_arg(a: &mut Asm, arg: &Arg) {
    match arg {
        Arg::Const(v) => {
            a.push(&v.val());
        }
        Arg::Top => {
            if a.depth > 0 {
                a.op(0x80);
            } else {
                a.push_u(7);
            }
        }
    }
    a.depth += 1;
}

fn emit(a: &mut Asm, s: &Stmt) {
    match s {
        Stmt::Compute { op, args } => {
            for x in args.iter().rev() {
                emit_arg(a, x);
            }
            a.op(*op);
            a.depth -= args.len() as i32 - 1;
        }
        Stmt::Push(v) => {
            a.push32(&v.val());
            a.depth += 1;
        }
        Stmt::Pop => {
            if a.depth > 0 {
                a.op(0x50);
                a.depth -= 1;
            }
        }
        Stmt::Dup(n) => {
            let n = std::cmp::min(*n as i32, a.depth);
            if n >= 1 {
                a.op(0x7f + n as u8);
                a.depth += 1;
            }
        }
        Stmt::Swap(n) => {
            let n = std::cmp::min(*n as i32, a.depth - 1);
            if n >= 1 {
                a.op(0x8f + n as u8);
            }
        }
        Stmt::MStore { off, val, byte } => {
            emit_arg(a, val);
            a.push(&off.val());
            a.op(if *byte { 0x53 } else { 0x52 });
            a.depth -= 1;
        }
        Stmt::MLoad { off } => {
            a.push(&off.val());
            a.op(0x51);
            a.depth += 1;
        }
        Stmt::MCopy { dst, src, len } => {
            a.push(&len.val()).push(&src.val()).push(&dst.val());
            a.op(0x5e);
        }
        Stmt::Keccak { off, len } => {
            a.push(&len.val()).push(&off.val());
            a.op(0x20);
            a.depth += 1;
        }
        Stmt::DataCopy { code, dst, src, len } => {
            a.push(&len.val()).push(&src.val()).push(&dst.val());
            a.op(if *code { 0x39 } else { 0x37 });
        }
        Stmt::ReturnDataCopy { dst, src, len } => {
            a.push(&len.val()).push(&src.val()).push(&dst.val());
            a.op(0x3e);
        }
        Stmt::CalldataLoad { off } => {
            a.push(&off.val());
            a.op(0x35);
            a.depth += 1;
        }
        Stmt::Nullary(op) => {
            a.op(*op);
            a.depth += 1;
        }
        Stmt::Store { transient, key, val } => {
            emit_arg(a, val);
            a.push_u(*key as u64);
            a.op(if *transient { 0x5d } else { 0x55 });
            a.depth -= 1;
        }
        Stmt::Load { transient, key } => {
            a.push_u(*key as u64);
            a.op(if *transient { 0x5c } else { 0x54 });
            a.depth += 1;
        }
        Stmt::Loop { count, body } => {
            // PUSH count; top: JUMPDEST; DUP1; ISZERO; PUSH exit; JUMPI; body; PUSH 1; SWAP1; SUB; PUSH top; JUMP; exit: JUMPDEST; POP
            let top = a.new_label();
            let exit = a.new_label();
            a.push_u(*count as u64);
            a.bind(top);
            a.op(0x80).op(0x15).push_label(exit).op(0x57);
            let d0 = a.depth;
            // the body runs with its own (empty) stack estimate above the counter, and is made
            // stack-neutral so that the counter is on top again
            a.depth = 0;
            for b in body {
                emit(a, b);
            }
            while a.depth > 0 {
                a.op(0x50);
                a.depth -= 1;
            }
            a.depth = d0;
            a.push_u(1).op(0x90).op(0x03).push_label(top).op(0x56);
            a.bind(exit);
            a.op(0x50);
        }
        Stmt::IfSkip { cond, body } => {
            let after = a.new_label();
            emit_arg(a, cond);
            a.push_label(after).op(0x57);
            a.depth -= 1;
            let d0 = a.depth;
            a.depth = 0;
            for b in body {
                emit(a, b);
            }
            while a.depth > 0 {
                a.op(0x50);
                a.depth -= 1;
            }
            a.depth = d0;
            a.bind(after);
        }
        Stmt::Fake(kind, cond) => {
            emit_arg(a, cond);
            a.depth -= 1;
            match kind {
                FakeJump::IntoPushData => {
                    // target = the 0x5b byte inside the following PUSH2's immediate
                    let l = a.new_label();
                    a.push_label(l).op(0x57);
                    a.op(0x61);
                    a.bind_nojumpdest(l);
                    a.raw(&[0x5b, 0x5b]).op(0x50);
                }
                FakeJump::NonJumpdest => {
                    let l = a.new_label();
                    a.push_label(l).op(0x57);
                    a.bind_nojumpdest(l);
                    a.op(0x58).op(0x50);
                }
                FakeJump::OutOfRange => {
                    a.push_u(0xfff0).op(0x57);
                }
                FakeJump::Huge(v) => {
                    a.push(&v.val()).op(0x57);
                }
            }
        }
        Stmt::Raw(b) => {
            a.raw(b);
        }
    }
}

pub fn assemble(case: &Case) -> (Vec<u8>, Vec<Vec<u8>>, u16) {
    match case {
        Case::Single { op, args, calldata } => {
            let mut a = Asm::new();
            for v in args.iter().rev() {
                a.push32(&v.val());
            }
            a.op(*op);
            a.op(0x5f).op(0x52); // MSTORE(0, result)
            a.push_u(32).op(0x5f).op(0xf3);
            (a.finish(), vec![calldata.clone()], 0)
        }
        Case::Program { stmts, end, ret_off, ret_len, store_top, calldatas, value_atto } => {
            let mut a = Asm::new();
            for s in stmts {
                emit(&mut a, s);
            }
            // expose up to `store_top` stack values through memory
            for k in 0..(*store_top % 4) {
                if a.depth > 0 {
                    a.push_u(0x200 + 32 * k as u64).op(0x52);
                    a.depth -= 1;
                }
            }
            match end {
                EndKind::Return | EndKind::Revert => {
                    a.push(&ret_len.val()).push(&ret_off.val());
                    a.op(if matches!(end, EndKind::Return) { 0xf3 } else { 0xfd });
                }
                EndKind::Stop => {
                    a.op(0x00);
                }
                EndKind::Invalid => {
                    a.op(0xfe);
                }
                EndKind::FallOff => {}
            }
            (a.finish(), calldatas.clone(), *value_atto)
        }
    }
}

pub struct C17;

fn single_strategy() -> impl Strategy<Value = Case> {
    let ops: Vec<u8> = BINOPS.iter().chain(UNOPS).chain(TEROPS).copied().collect();
    (proptest::sample::select(ops), proptest::collection::vec(v_strategy(), 3), proptest::collection::vec(any::<u8>(), 0..8)).prop_map(|(op, mut args, calldata)| {
        args.truncate(arity(op));
        Case::Single { op, args, calldata }
    })
}

fn program_strategy(max: usize) -> impl Strategy<Value = Case> {
    (
        proptest::collection::vec(stmt_strategy(), 0..max),
        prop_oneof![6 => Just(EndKind::Return), 2 => Just(EndKind::Revert), 1 => Just(EndKind::Stop), 1 => Just(EndKind::Invalid), 1 => Just(EndKind::FallOff)],
        prop_oneof![3 => Just(Off::Small(0x200)), 1 => off_strategy()],
        prop_oneof![3 => Just(Off::Small(128)), 1 => len_strategy()],
        0u8..4,
        proptest::collection::vec(proptest::collection::vec(any::<u8>(), 0..70), 1..3),
        prop_oneof![3 => Just(0u16), 1 => any::<u16>()],
    )
        .prop_map(|(stmts, end, ret_off, ret_len, store_top, calldatas, value_atto)| Case::Program { stmts, end, ret_off, ret_len, store_top, calldatas, value_atto })
}

pub fn compare_program(code: &[u8], calldatas: &[Vec<u8>], value_atto: u16, stats: &mut CaseStats, boundary_operands: bool) -> VResult {
    let ew = EvmWorld::new();
    if code.first() == Some(&0xef) || code.len() > (24 << 10) {
        stats.label("undeployable_code");
        return Ok(());
    }
    let c = match ew.deploy(code) {
        Ok(c) => c,
        Err(r) => vfail!("deploy-failed", "deployment of {} bytes of runtime code failed: {} {}", code.len(), r.code.value(), r.message),
    };
    let mut storage: BTreeMap<U, U> = BTreeMap::new();
    let mut nontrivial = false;
    for (n, cd) in calldatas.iter().enumerate() {
        let value = TokenAmount::from_atto(value_atto);
        let bal_before = ew.w.v.balance(c.id);
        let env = ew.env_for(&c, ew.user, &value, &bal_before);
        let r = evmref::run(code, cd, &env, &storage, &BTreeMap::new(), FUEL / 2, MEM_CAP);
        let (got, msg) = ew.invoke(ew.user, c.id, cd, &value);
        stats.say(|| format!("invocation {n}: calldata {} bytes; reference {:?} after {} steps; implementation {:?} ({})", cd.len(), r.outcome, r.steps, got, msg.message));
        if ew.exhausted() {
            stats.label("out_of_fuel_discarded");
            return Ok(());
        }
        match &r.outcome {
            Outcome::Budget => {
                stats.label("reference_budget_discarded");
                return Ok(());
            }
            Outcome::OutOfSubset { .. } => {
                stats.label("left_reference_subset");
                return Ok(());
            }
            Outcome::Return(d) => {
                vassert!(got == CallOutcome::Return(d.clone()), "outcome-differs", "reference returns {} but the actor gives {:?} (code {}, calldata {})", hex::encode(d), got, hex::encode(code), hex::encode(cd));
                stats.label("returned");
            }
            Outcome::Revert(d) => {
                vassert!(got == CallOutcome::Revert(d.clone()), "outcome-differs", "reference reverts with {} but the actor gives {:?} (code {}, calldata {})", hex::encode(d), got, hex::encode(code), hex::encode(cd));
                stats.label("reverted");
            }
            Outcome::Failure(f) => {
                vassert!(matches!(got, CallOutcome::Failure(_)), "outcome-differs", "reference fails with {:?} but the actor gives {:?} (code {}, calldata {})", f, got, hex::encode(code), hex::encode(cd));
                stats.label("failed");
                stats.label(&format!("fail_{f:?}"));
            }
        }
        // final storage of every slot the program may have touched
        let mut keys: Vec<U> = storage.keys().chain(r.storage.keys()).cloned().collect();
        keys.sort();
        keys.dedup();
        for k in keys {
            let want = r.storage.get(&k).cloned().unwrap_or_default();
            let have = ew.storage_at(c.id, &k);
            vassert!(want == have, "storage-differs", "slot {} holds {} but the reference says {} (code {}, calldata {})", k, have, want, hex::encode(code), hex::encode(cd));
        }
        if !r.storage.is_empty() {
            stats.label("storage_used");
        }
        storage = r.storage.clone();
        let interesting = r.ops.iter().any(|o| matches!(o, 0x01..=0x0b | 0x10..=0x1e | 0x20 | 0x51..=0x57 | 0x5c..=0x5e | 0x37 | 0x39));
        if interesting && r.steps >= 3 {
            nontrivial = true;
        }
        if r.steps > 40 {
            stats.label("long_run");
        }
        if r.ops.contains(&0x56) || r.ops.contains(&0x57) {
            stats.label("jumped");
        }
        if r.mem_words > 0 {
            stats.label("memory_used");
        }
    }
    stats.nontrivial = nontrivial && boundary_operands;
    Ok(())
}

impl Engine for C17 {
    type Case = Case;
    fn id(&self) -> &'static str {
        "C17"
    }
    fn budget(&self, tier: Tier) -> (u32, u32) {
        match tier {
            Tier::Quick => (16, 20000),
            Tier::Thorough => (16, 600000),
        }
    }
    fn strategy(&self, tier: Tier) -> BoxedStrategy<Case> {
        let max = if tier == Tier::Quick { 14 } else { 24 };
        prop_oneof![1 => single_strategy(), 1 => program_strategy(max)].boxed()
    }
    fn rule(&self) -> String {
        "case = either one instruction applied to operands from a boundary-biased 256-bit distribution (0,1,2^k,2^k±d around limb/byte boundaries, 2^256−1−d, random words) returned through memory, or a grammar program (computations, stack shuffles, memory/keccak/copy statements with small and 32-bit-boundary offsets, persistent and transient storage, counted loops, conditional forward jumps, jumps into PUSH data / non-JUMPDEST / out of range, raw subset opcodes; RETURN/REVERT/STOP/INVALID/fall-off endings) invoked 1–2 times with random call data and value; outcome class, return/revert data and final storage are compared with the reference interpreter. non-trivial = the reference executed ≥3 instructions including arithmetic/bitwise/memory/storage/jump instructions, and (single-instruction cases) an operand is a boundary value; distinct by case hash".into()
    }
    fn assumptions(&self) -> Vec<String> {
        vec![
            "the reference interpreter (harness/src/evmref.rs, num-bigint, written from the Yellow Paper and EIPs 145/211/1153/3855/5656/7939) is the oracle".into(),
            "fuel (200k instructions) and a 1 MiB memory cap replace gas via the verif-hooks feature; cases hitting either are discarded and counted".into(),
            "failure sub-codes are not compared, only the failure class".into(),
            "contracts are deployed through EAM.CreateExternal with a copier init code and called through InvokeContract on SimVM".into(),
        ]
    }
    fn required_labels(&self) -> Vec<(&'static str, f64)> {
        vec![("returned", 0.4), ("failed", 0.1), ("storage_used", 0.02), ("jumped", 0.1)]
    }
    fn run(&self, case: &Case, stats: &mut CaseStats) -> VResult {
        let (code, calldatas, value) = assemble(case);
        let boundary = match case {
            Case::Single { args, .. } => args.iter().any(|a| a.boundary()),
            _ => true,
        };
        if matches!(case, Case::Single { .. }) {
            stats.label("single_instruction");
        }
        compare_program(&code, &calldatas, value, stats, boundary)
    }
}
