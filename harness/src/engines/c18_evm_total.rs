//! C18 — EVM execution is total, bounded and respects read-only mode (DESIGN §3 C18).
//! Three generators share one check: (a) arbitrary bytes as runtime / init code / call data, run
//! directly and beneath 1–3 nested STATICCALLs; (b) limit programs (stack depth around 1024, jump
//! targets, memory beyond 32 bits) compared with the reference interpreter; (c) static-heavy
//! multi-contract scripts compared with the journal model.

use crate::common::*;
use crate::engines::c17_evm_diff as c17;
use crate::engines::evmsys;
use crate::evmfix::*;
use crate::evmref::{self, U};
use crate::simvm::Trace;
use crate::{vassert, vfail};
use fvm_shared::ActorID;
use fvm_shared::econ::TokenAmount;
use num_traits::Zero;
use proptest::prelude::*;
use serde::{Deserialize, Serialize};

#[derive(Clone, Debug, Serialize, Deserialize)]
pub enum Tok {
    Op(u8),
    PushSmall(u8),
    PushWord(Vec<u8>),
    /// push the address of: 0 self, 1 the other contract, 2 an account, 3..=12 precompile n-2, 13 native precompile, 14 null, 15 random id
    PushAddr(u8),
    Raw(Vec<u8>),
}

#[derive(Clone, Debug, Serialize, Deserialize)]
pub enum Case {
    Bytes { code: Vec<Tok>, as_init: bool, calldata: Vec<u8>, static_depth: u8, value: u8 },
    Limit { fill: u16, fill_op: u8, then: Vec<u8>, jump_kind: u8, mem: Option<(c17::Off, c17::Off, u8)>, calldata: Vec<u8> },
    Script(evmsys::Script),
}

const INTERESTING_OPS: &[u8] = &[
    0x00, 0x01, 0x02, 0x03, 0x04, 0x05, 0x06, 0x07, 0x08, 0x09, 0x0a, 0x0b, 0x10, 0x14, 0x15, 0x16, 0x19, 0x1a, 0x1b, 0x1c, 0x1d, 0x1e, 0x20, 0x30, 0x31, 0x32, 0x33,
    0x34, 0x35, 0x36, 0x37, 0x38, 0x39, 0x3a, 0x3b, 0x3c, 0x3d, 0x3e, 0x3f, 0x40, 0x41, 0x42, 0x43, 0x44, 0x45, 0x46, 0x47, 0x48, 0x50, 0x51, 0x52, 0x53, 0x54, 0x55, 0x56,
    0x57, 0x58, 0x59, 0x5a, 0x5b, 0x5c, 0x5d, 0x5e, 0x5f, 0x80, 0x81, 0x82, 0x90, 0x91, 0xa0, 0xa1, 0xa2, 0xa3, 0xa4, 0xf0, 0xf1, 0xf3, 0xf4, 0xf5, 0xfa, 0xfd, 0xfe, 0xff,
];

fn tok_strategy() -> impl Strategy<Value = Tok> {
    prop_oneof![
        10 => proptest::sample::select(INTERESTING_OPS.to_vec()).prop_map(Tok::Op),
        2 => any::<u8>().prop_map(Tok::Op),
        8 => (0u8..=255).prop_map(Tok::PushSmall),
        3 => proptest::collection::vec(any::<u8>(), 1..33).prop_map(Tok::PushWord),
        4 => (0u8..16).prop_map(Tok::PushAddr),
        1 => proptest::collection::vec(any::<u8>(), 1..8).prop_map(Tok::Raw),
    ]
}

pub struct C18;

fn assemble_tokens(toks: &[Tok], me: &U, other: &U, acct: &U) -> Vec<u8> {
    let mut a = Asm::new();
    for t in toks {
        match t {
            Tok::Op(o) => {
                a.op(*o);
            }
            Tok::PushSmall(v) => {
                a.push_u(*v as u64);
            }
            Tok::PushWord(b) => {
                a.push(&evmref::from_be(b));
            }
            Tok::PushAddr(k) => {
                let v = match k {
                    0 => me.clone(),
                    1 => other.clone(),
                    2 => acct.clone(),
                    3..=12 => U::from((*k - 2) as u64),
                    13 => (U::from(0xfeu64) << 152) + U::from(3u64),
                    14 => U::zero(),
                    _ => id_word(1000 + *k as u64),
                };
                a.push(&v);
            }
            Tok::Raw(b) => {
                a.raw(b);
            }
        }
    }
    a.finish()
}

/// wrapper: STATICCALL(addr = calldata[0..20], input = calldata[20..]) and return (success ‖ returndata)
fn static_wrapper() -> Vec<u8> {
    let mut a = Asm::new();
    // size = CALLDATASIZE - 20 (or 0)
    // CALLDATACOPY(0x40, 20, size)
    a.push_u(20).op(0x36).op(0x03); // size (wraps if calldatasize < 20; harness always passes >= 20)
    a.op(0x80).push_u(20).push_u(0x40).op(0x37); // copy
    // STATICCALL(gas, addr, in=0x40, insize=size, out=0, outsize=0)
    a.op(0x5f).op(0x5f); // outsize, out
    a.op(0x82); // DUP3 -> size
    a.push_u(0x40); // in
    a.op(0x5f).op(0x35).push_u(96).op(0x1c); // addr = calldata[0..32] >> 96
    a.push_u(0xffff_ffff);
    a.op(0xfa);
    // mem[0] = success; returndatacopy(0x20, 0, rds); return(0, 0x20+rds)
    a.op(0x5f).op(0x52);
    a.op(0x3d).op(0x5f).push_u(0x20).op(0x3e);
    a.op(0x3d).push_u(0x20).op(0x01).op(0x5f).op(0xf3);
    a.finish()
}

fn scan_trace(t: &Trace) -> VResult {
    let mut bad: Option<String> = None;
    t.walk(&mut |x, _| {
        if let Some(p) = &x.panicked {
            bad.get_or_insert(format!("invocation {}->{:?} method {} panicked: {}", x.from, x.to_id, x.method, p));
        }
    });
    if let Some(b) = bad {
        return Err(Violation::new("panic", b));
    }
    Ok(())
}

fn allowed_code(c: u32) -> bool {
    // success, revert, the EVM failure codes, fuel exhaustion, and the documented actor/system
    // error codes an EVM actor can legitimately return; 4 is SimVM's marker for a panic
    !matches!(c, 4)
}

fn state_fingerprint(ew: &EvmWorld, except: ActorID) -> Vec<(ActorID, String, String)> {
    ew.w.v.tree().actors.iter().filter(|(id, _)| **id != except).map(|(id, a)| (*id, a.state.to_string(), a.balance.atto().to_string())).collect()
}

impl Engine for C18 {
    type Case = Case;
    fn id(&self) -> &'static str {
        "C18"
    }
    fn budget(&self, tier: Tier) -> (u32, u32) {
        match tier {
            Tier::Quick => (16, 12000),
            Tier::Thorough => (16, 100000),
        }
    }
    fn strategy(&self, _tier: Tier) -> BoxedStrategy<Case> {
        let bytes = (proptest::collection::vec(tok_strategy(), 0..40), prop_oneof![3 => Just(false), 1 => Just(true)], proptest::collection::vec(any::<u8>(), 0..40), prop_oneof![2 => Just(0u8), 1 => 1u8..4], 0u8..3)
            .prop_map(|(code, as_init, calldata, static_depth, value)| Case::Bytes { code, as_init, calldata, static_depth, value });
        let env_ops: Vec<u8> = vec![0x30, 0x32, 0x33, 0x34, 0x36, 0x38, 0x3d, 0x42, 0x43, 0x46, 0x47, 0x58, 0x59, 0x5f, 0x80, 0x35, 0x54, 0x51];
        let limit = (
            prop_oneof![4 => 1018u16..1030, 1 => 0u16..40],
            prop_oneof![Just(0x5fu8), Just(0x30), Just(0x58), Just(0x36)],
            proptest::collection::vec(proptest::sample::select(env_ops), 0..6),
            0u8..6,
            prop_oneof![1 => Just(None), 1 => (c17::off_strategy_pub(), c17::len_strategy_pub(), 0u8..5).prop_map(Some)],
            proptest::collection::vec(any::<u8>(), 0..8),
        )
            .prop_map(|(fill, fill_op, then, jump_kind, mem, calldata)| Case::Limit { fill, fill_op, then, jump_kind, mem, calldata });
        let script = evmsys::script_strategy(3).prop_map(Case::Script);
        prop_oneof![5 => bytes, 3 => limit, 2 => script].boxed()
    }
    fn rule(&self) -> String {
        "case = (a) a token string (interesting opcodes, arbitrary bytes, pushes of small/random words and of addresses of itself, another contract, an account, precompiles, reserved and unknown addresses, raw bytes) used as runtime code or as init code, invoked with random call data directly and beneath 1–3 nested STATICCALL wrappers; or (b) a limit program: a fill of 1018–1029 stack pushes followed by zero-operand/one-operand opcodes, a jump to a JUMPDEST / PUSH data / non-JUMPDEST / out of range / beyond 32 bits, a memory access with offsets around 2^32, compared with the reference interpreter; or (c) a static-heavy multi-contract script compared with the journal model. Oracle: no invocation panics, every exit code is success/revert/defined failure, a message consisting only of static calls changes no actor's state or balance, reference and journal model agree. non-trivial = ≥3 instructions executed or a state-changing opcode reached in static context; distinct by case hash".into()
    }
    fn assumptions(&self) -> Vec<String> {
        vec![
            "panics are caught by SimVM and reported as violations; the real FVM would abort the message".into(),
            "fuel/memory cap via verif-hooks stand in for gas; exhaustion is an allowed outcome".into(),
            "SimVM refuses writes, transfers, creations and events in read-only mode at the syscall layer exactly as the FVM does".into(),
        ]
    }
    fn required_labels(&self) -> Vec<(&'static str, f64)> {
        vec![("bytes_case", 0.3), ("limit_case", 0.2), ("beneath_staticcall", 0.1), ("stack_at_limit", 0.1)]
    }

    fn run(&self, case: &Case, stats: &mut CaseStats) -> VResult {
        match case {
            Case::Script(s) => {
                stats.label("script_case");
                let out = evmsys::run_script(s, stats)?;
                for l in &out.labels {
                    stats.label(l);
                }
                stats.nontrivial = out.labels.contains("static_write_blocked");
                Ok(())
            }
            Case::Limit { fill, fill_op, then, jump_kind, mem, calldata } => {
                stats.label("limit_case");
                let mut a = Asm::new();
                for _ in 0..*fill {
                    a.op(*fill_op);
                }
                if (1020..=1026).contains(fill) {
                    stats.label("stack_at_limit");
                }
                for o in then {
                    if matches!(o, 0x35 | 0x54 | 0x51) {
                        // one-operand ops: replace the top
                    }
                    a.op(*o);
                }
                // make room so that the rest of the program cannot itself overflow
                if *fill > 8 {
                    for _ in 0..8 {
                        a.op(0x50);
                    }
                }
                if let Some((off, len, kind)) = mem {
                    match kind {
                        0 => {
                            a.push(&off.val_pub()).op(0x51).op(0x50);
                        }
                        1 => {
                            a.push_u(1).push(&off.val_pub()).op(0x52);
                        }
                        2 => {
                            a.push(&len.val_pub()).push(&off.val_pub()).op(0x20).op(0x50);
                        }
                        3 => {
                            a.push(&len.val_pub()).push_u(0).push(&off.val_pub()).op(0x37);
                        }
                        _ => {
                            a.push(&len.val_pub()).push(&off.val_pub()).push_u(0).op(0x5e);
                        }
                    }
                }
                match jump_kind {
                    0 => {}
                    1 => {
                        let l = a.new_label();
                        a.push_label(l).op(0x56).op(0xfe);
                        a.bind(l);
                    }
                    2 => {
                        let l = a.new_label();
                        a.push_label(l).op(0x56);
                        a.op(0x61);
                        a.bind_nojumpdest(l);
                        a.raw(&[0x5b, 0x5b]);
                    }
                    3 => {
                        let l = a.new_label();
                        a.push_label(l).op(0x56);
                        a.bind_nojumpdest(l);
                        a.op(0x58).op(0x50);
                    }
                    4 => {
                        a.push_u(0xffee).op(0x56);
                    }
                    _ => {
                        a.push(&((U::from(1u8) << 32u32) + U::from(5u8))).op(0x56);
                    }
                }
                a.push_u(1).op(0x5f).op(0x52).push_u(32).op(0x5f).op(0xf3);
                let code = a.finish();
                c17::compare_program(&code, std::slice::from_ref(calldata), 0, stats, true)
            }
            Case::Bytes { code, as_init, calldata, static_depth, value } => {
                stats.label("bytes_case");
                let ew = EvmWorld::new();
                let acct = ew.w.account(300, &TokenAmount::from_atto(5));
                // a small "other" contract that stores and returns
                let other = ew.deploy(&[0x60, 0x07, 0x5f, 0x55, 0x60, 0x20, 0x5f, 0xf3]).map_err(|r| Violation::new("deploy-failed", r.message.clone()))?;
                let other_w = evmref::from_be(&other.eth);
                let acct_w = id_word(acct);
                // the contract's own address is only known after deployment; use a first pass with zero
                let bytes0 = assemble_tokens(code, &U::zero(), &other_w, &acct_w);
                let v = TokenAmount::from_atto(*value as u64);
                if *as_init {
                    stats.label("as_init_code");
                    ew.arm();
                    let r = ew.w.call(ew.user, fil_actors_runtime::EAM_ACTOR_ID, fil_actor_eam::Method::CreateExternal as u64, &v, &fil_actor_eam::CreateExternalParams(bytes0.clone()));
                    stats.say(|| format!("init code {} -> {} {}\n{}", hex::encode(&bytes0), r.code.value(), r.message, r.trace.short()));
                    scan_trace(&r.trace)?;
                    vassert!(allowed_code(r.code.value()), "undefined-exit-code", "init code ended with exit code {}", r.code.value());
                    let steps = fil_actor_evm::verif_hooks::steps();
                    stats.nontrivial = steps >= 3;
                    return Ok(());
                }
                if bytes0.first() == Some(&0xef) || bytes0.len() > (24 << 10) {
                    stats.label("undeployable_code");
                    return Ok(());
                }
                let c = match ew.deploy(&bytes0) {
                    Ok(c) => c,
                    Err(r) => {
                        scan_trace(&r.trace)?;
                        vfail!("deploy-failed", "copier deployment failed: {} {}", r.code.value(), r.message)
                    }
                };
                if *static_depth == 0 {
                    let r = ew.invoke_raw(ew.user, c.id, calldata, &v);
                    stats.say(|| format!("code {} calldata {} -> {} {}\n{}", hex::encode(&bytes0), hex::encode(calldata), r.code.value(), r.message, r.trace.short()));
                    scan_trace(&r.trace)?;
                    vassert!(allowed_code(r.code.value()), "undefined-exit-code", "invocation ended with exit code {}", r.code.value());
                    let code = r.code.value();
                    vassert!(code == 0 || code == 33 || (34..=40).contains(&code) || ew.exhausted() || (16..=32).contains(&code) || code == 7 || code == 6 || code == 5, "undefined-exit-code", "invocation ended with undocumented exit code {}", code);
                } else {
                    stats.label("beneath_staticcall");
                    let w = ew.deploy(&static_wrapper()).map_err(|r| Violation::new("deploy-failed", r.message.clone()))?;
                    let mut cd: Vec<u8> = vec![];
                    for _ in 1..*static_depth {
                        cd.extend_from_slice(&w.eth);
                    }
                    cd.extend_from_slice(&c.eth);
                    cd.extend_from_slice(calldata);
                    let before = state_fingerprint(&ew, ew.user);
                    let n_before = ew.w.v.tree().actors.len();
                    let r = ew.invoke_raw(ew.user, w.id, &cd, &TokenAmount::zero());
                    stats.say(|| format!("static depth {static_depth}: code {} -> {} {}\n{}", hex::encode(&bytes0), r.code.value(), r.message, r.trace.short()));
                    scan_trace(&r.trace)?;
                    if !ew.exhausted() {
                        vassert!(r.ok(), "static-wrapper-failed", "the STATICCALL wrapper itself failed with {} {}", r.code.value(), r.message);
                    }
                    let after = state_fingerprint(&ew, ew.user);
                    vassert!(before == after && n_before == ew.w.v.tree().actors.len(), "static-call-changed-state", "a message made only of static calls changed the state tree");
                    let mut events = 0;
                    r.trace.walk(&mut |t, _| {
                        if t.ok() {
                            events += t.events.len()
                        }
                    });
                    vassert!(events == 0, "static-call-emitted-event", "{} events emitted beneath STATICCALL", events);
                    let mut reached_write = false;
                    r.trace.walk(&mut |t, _| {
                        if t.read_only && t.code.value() == 25 {
                            reached_write = true;
                        }
                    });
                    if reached_write {
                        stats.label("static_write_blocked");
                    }
                }
                stats.nontrivial = fil_actor_evm::verif_hooks::steps() >= 3;
                Ok(())
            }
        }
    }
}
