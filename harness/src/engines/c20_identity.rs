//! C20 — actor identities are unique, stable and derived as specified (DESIGN §3 C20).
//! Oracle: a registry model (ever-used ids, address→id map, code per id, contract nonces) checked
//! after every message, plus the harness's own CREATE/CREATE2 address formulas.

use crate::common::*;
use crate::engines::evmsys::{self, Addr, InitEnd, create2_addr, id_addr, init_code, rlp_create};
use crate::evmfix::*;
use crate::evmref::keccak;
use crate::simvm::MsgResult;
use crate::world::*;
use crate::{vassert, vfail};
use cid::Cid;
use fil_actor_eam as eam;
use fil_actor_init as init;
use fil_actors_runtime::test_utils::*;
use fil_actors_runtime::{EAM_ACTOR_ID, INIT_ACTOR_ID, STORAGE_POWER_ACTOR_ID};
use fvm_ipld_encoding::RawBytes;
use fvm_shared::address::{Address, Payload};
use fvm_shared::econ::TokenAmount;
use fvm_shared::sector::RegisteredPoStProof;
use fvm_shared::{ActorID, METHOD_SEND};
use num_traits::Zero;
use proptest::prelude::*;
use serde::{Deserialize, Serialize};
use std::collections::{BTreeMap, BTreeSet};

#[derive(Clone, Debug, Default)]
pub struct Registry {
    pub ever_ids: BTreeSet<ActorID>,
    pub addr_map: BTreeMap<Address, ActorID>,
    pub codes: BTreeMap<ActorID, Cid>,
    pub delegated: BTreeMap<ActorID, Address>,
    pub next_id: ActorID,
    pub evm_nonce: BTreeMap<ActorID, u64>,
    pub evm_dead: BTreeSet<ActorID>,
    pub steps: u64,
}

fn reserved(eth: &[u8]) -> bool {
    let is_null = eth.iter().all(|b| *b == 0);
    let is_id = eth[0] == 0xff && eth[1..12].iter().all(|b| *b == 0);
    let is_pre = (eth[0] == 0xfe || eth[0] == 0x00) && eth[1..19].iter().all(|b| *b == 0);
    is_null || is_id || is_pre
}

impl Registry {
    /// Check the state tree against everything seen so far, then absorb it.
    pub fn observe(&mut self, w: &World, stats: &mut CaseStats) -> VResult {
        let tree = w.v.tree();
        let st: init::State = w.v.get_state(INIT_ACTOR_ID).unwrap();
        let first = self.steps == 0;
        self.steps += 1;
        // init address map
        let map = fil_actors_runtime::Map2::<_, Address, ActorID>::load(&*w.v.store, &st.address_map, fil_actors_runtime::DEFAULT_HAMT_CONFIG, "addresses").expect("address map");
        let mut now: BTreeMap<Address, ActorID> = BTreeMap::new();
        map.for_each(|k, v| {
            now.insert(k, *v);
            Ok(())
        })
        .expect("iter");
        if !first {
            vassert!(st.next_id >= self.next_id, "next-id-decreased", "init next_id went from {} to {}", self.next_id, st.next_id);
            for (a, id) in &self.addr_map {
                vassert!(now.get(a) == Some(id), "address-remapped", "address {} mapped to {} before, now {:?}", a, id, now.get(a));
            }
            for (a, id) in &now {
                if self.addr_map.contains_key(a) {
                    continue;
                }
                if self.ever_ids.contains(id) {
                    // a new address for an id that existed already: only a robust address added when a contract is
                    // deployed over a placeholder
                    let was_placeholder = self.codes.get(id) == Some(&*PLACEHOLDER_ACTOR_CODE_ID);
                    vassert!(was_placeholder, "id-reused-for-address", "new address {} was mapped to the already used id {}", a, id);
                    stats.label("deployed_over_placeholder");
                } else {
                    vassert!(*id >= self.next_id && *id >= 100, "stale-id-assigned", "address {} got id {} although ids below {} were already handed out", a, id, self.next_id);
                }
            }
        }
        let mut seen_delegated: BTreeMap<Address, ActorID> = BTreeMap::new();
        for (id, a) in tree.actors.iter() {
            vassert!(*id < st.next_id || *id < 100, "id-beyond-counter", "actor {} exists but init next_id is {}", id, st.next_id);
            if !first && !self.codes.contains_key(id) {
                vassert!(!self.ever_ids.contains(id), "deleted-id-reused", "id {} was used before, deleted, and is in use again", id);
                vassert!(*id >= self.next_id, "stale-id-assigned", "new actor {} below the previous next_id {}", id, self.next_id);
            }
            if let Some(prev) = self.codes.get(id) {
                if prev != &a.code {
                    let ok = *prev == *PLACEHOLDER_ACTOR_CODE_ID && (a.code == *EVM_ACTOR_CODE_ID || a.code == *ETHACCOUNT_ACTOR_CODE_ID);
                    vassert!(ok, "code-replaced", "actor {} changed code from {} to {}", id, prev, a.code);
                }
            }
            if let Some(prev) = self.delegated.get(id) {
                vassert!(a.delegated.as_ref() == Some(prev), "delegated-address-changed", "actor {} delegated address changed", id);
            }
            if let Some(d) = a.delegated {
                if let Some(other) = seen_delegated.insert(d, *id) {
                    vfail!("delegated-address-shared", "actors {} and {} share the delegated address {}", other, id, d);
                }
                if let Payload::Delegated(da) = d.payload() {
                    if da.namespace() == EAM_ACTOR_ID && da.subaddress().len() == 20 && a.code == *EVM_ACTOR_CODE_ID {
                        vassert!(!reserved(da.subaddress()), "reserved-address-assigned", "contract {} has the reserved address {}", id, hex::encode(da.subaddress()));
                    }
                }
                vassert!(now.get(&d) == Some(id), "delegated-address-unmapped", "actor {} has delegated address {} but init maps it to {:?}", id, d, now.get(&d));
            }
            if a.code == *EVM_ACTOR_CODE_ID {
                if let Some(es) = w.v.get_state::<fil_actor_evm::State>(*id) {
                    let dead_now = es.tombstone.is_some();
                    if let Some(prev) = self.evm_nonce.get(id) {
                        let was_dead = self.evm_dead.contains(id);
                        vassert!(es.nonce >= *prev || was_dead, "contract-nonce-decreased", "contract {} nonce {} -> {}", id, prev, es.nonce);
                        if es.nonce < *prev {
                            stats.label("nonce_reset_by_resurrection");
                        }
                    }
                    self.evm_nonce.insert(*id, es.nonce);
                    if dead_now {
                        self.evm_dead.insert(*id);
                    } else {
                        self.evm_dead.remove(id);
                    }
                }
            }
        }
        for (id, code) in &self.codes {
            if !tree.actors.contains_key(id) {
                vassert!(*code == *PAYCH_ACTOR_CODE_ID, "actor-vanished", "actor {} with code {} disappeared", id, code);
                stats.label("actor_deleted");
            }
        }
        self.ever_ids.extend(tree.actors.keys());
        self.codes = tree.actors.iter().map(|(i, a)| (*i, a.code)).collect();
        for (i, a) in tree.actors.iter() {
            if let Some(d) = a.delegated {
                self.delegated.insert(*i, d);
            }
        }
        self.addr_map = now;
        self.next_id = st.next_id;
        Ok(())
    }
}

#[derive(Clone, Debug, Serialize, Deserialize)]
pub enum CodeKind {
    Multisig,
    Paych,
    Miner,
    Account,
    Evm,
    Placeholder,
    EthAccount,
    Unknown,
}

#[derive(Clone, Debug, Serialize, Deserialize)]
pub enum Op {
    Exec { from: u8, via_multisig: bool, code: CodeKind, value: u8 },
    Exec4 { from: u8 },
    EamDirect { from: u8, create2: bool },
    CreateExternal { eth: bool, who: u8, sstore: Option<u8>, end: InitEnd, value: u8 },
    SendToKey { seed: u8 },
    /// pre-fund the address the next CreateExternal of an eth account (or a CREATE2 of it) will get, or a random one
    SendToF4 { who: u8, predict: bool },
    WakePlaceholder { who: u8 },
    CreateMiner { owner: u8 },
    PaychLifecycle { from: u8 },
    Script(evmsys::Script),
}

#[derive(Clone, Debug, Serialize, Deserialize)]
pub struct Case {
    pub ops: Vec<Op>,
}

fn op_strategy() -> impl Strategy<Value = Op> {
    let code = prop_oneof![3 => Just(CodeKind::Multisig), 3 => Just(CodeKind::Paych), 1 => Just(CodeKind::Miner), 1 => Just(CodeKind::Account), 1 => Just(CodeKind::Evm), 1 => Just(CodeKind::Placeholder), 1 => Just(CodeKind::EthAccount), 1 => Just(CodeKind::Unknown)];
    let end = prop_oneof![5 => Just(InitEnd::Ok), 1 => Just(InitEnd::Revert), 1 => Just(InitEnd::Invalid), 1 => Just(InitEnd::SelfDestruct)];
    prop_oneof![
        6 => (0u8..3, prop_oneof![3 => Just(false), 1 => Just(true)], code, 0u8..3).prop_map(|(from, via_multisig, code, value)| Op::Exec { from, via_multisig, code, value }),
        1 => (0u8..3).prop_map(|from| Op::Exec4 { from }),
        1 => (0u8..3, any::<bool>()).prop_map(|(from, create2)| Op::EamDirect { from, create2 }),
        6 => (any::<bool>(), 0u8..3, prop_oneof![Just(None), (1u8..4).prop_map(Some)], end, 0u8..3).prop_map(|(eth, who, sstore, end, value)| Op::CreateExternal { eth, who, sstore, end, value }),
        2 => (0u8..6).prop_map(|seed| Op::SendToKey { seed }),
        3 => (0u8..3, prop_oneof![3 => Just(true), 1 => Just(false)]).prop_map(|(who, predict)| Op::SendToF4 { who, predict }),
        2 => (0u8..3).prop_map(|who| Op::WakePlaceholder { who }),
        1 => (0u8..3).prop_map(|owner| Op::CreateMiner { owner }),
        2 => (0u8..3).prop_map(|from| Op::PaychLifecycle { from }),
    ]
}

pub struct C20;

impl Engine for C20 {
    type Case = Case;
    fn id(&self) -> &'static str {
        "C20"
    }
    fn budget(&self, tier: Tier) -> (u32, u32) {
        match tier {
            Tier::Quick => (16, 12000),
            Tier::Thorough => (16, 25000),
        }
    }
    fn strategy(&self, tier: Tier) -> BoxedStrategy<Case> {
        let n = if tier == Tier::Quick { 20 } else { 30 };
        prop_oneof![
            3 => proptest::collection::vec(op_strategy(), 0..n).prop_map(|ops| Case { ops }),
            1 => evmsys::script_strategy(4).prop_map(|s| Case { ops: vec![Op::Script(s)] }),
            2 => evmsys::script_strategy_create_heavy().prop_map(|s| Case { ops: vec![Op::Script(s)] }),
        ]
        .boxed()
    }
    fn rule(&self) -> String {
        "case = either ≤20/30 identity operations (init.Exec of every code kind from accounts or through a multisig, Exec4 and EAM Create/Create2 called directly, CreateExternal from native and Ethereum accounts with constructors that succeed/revert/fail/self-destruct, bare sends creating accounts and f4 placeholders incl. at the address a later deployment will get, placeholders originating messages, CreateMiner, a payment-channel life cycle ending in actor deletion), or a multi-contract script with CREATE/CREATE2/SELFDESTRUCT/resurrection inside nested calls. After every message the registry model is checked: fresh ids ≥ next_id, address→id map only grows and never remaps, code replaced only placeholder→EVM/EthAccount, delegated addresses unique/unreserved/mapped, contract nonces monotone, only permitted creator/code pairs succeed, returned Ethereum addresses equal the harness's RLP/Keccak CREATE/CREATE2 formulas. non-trivial = ≥2 creations and a creation over a placeholder / after a failure / after a deletion or self-destruct, or a collision; distinct by case hash".into()
    }
    fn assumptions(&self) -> Vec<String> {
        vec![
            "SimVM derives robust addresses from (origin stable address, origin nonce, per-message creation counter) like the FVM".into(),
            "a resurrected contract restarts with nonce 1 (account re-creation), which the monotonicity clause allows".into(),
        ]
    }
    fn required_labels(&self) -> Vec<(&'static str, f64)> {
        vec![("exec_ok", 0.3), ("create_external_ok", 0.3), ("deployed_over_placeholder", 0.03), ("script_case", 0.2), ("create_collision", 0.02), ("resurrected", 0.01)]
    }

    fn run(&self, case: &Case, stats: &mut CaseStats) -> VResult {
        if let Some(Op::Script(s)) = case.ops.first() {
            stats.label("script_case");
            let mut reg = Registry::default();
            let out = evmsys::run_script_with(s, stats, Some(&mut reg))?;
            for l in &out.labels {
                stats.label(l);
            }
            stats.nontrivial = out.labels.contains("created") && (out.labels.contains("create_failed") || out.labels.contains("create_collision") || out.labels.contains("resurrected") || out.labels.contains("selfdestruct"));
            return Ok(());
        }
        let ew = EvmWorld::new();
        let w = &ew.w;
        let accounts: Vec<ActorID> = (0..3).map(|i| w.account(400 + i, &TokenAmount::from_whole(100_000))).collect();
        // eth principals: 20-byte addresses whose placeholders are funded on demand
        let eth_addrs: Vec<Addr> = (0..3u8).map(|i| keccak(&[0xe7, i])[12..].try_into().unwrap()).collect();
        let f4 = |a: &Addr| Address::new_delegated(EAM_ACTOR_ID, a).unwrap();
        // a 1-of-1 multisig owned by accounts[0]
        let msig = {
            let r = w.call(accounts[0], INIT_ACTOR_ID, init::Method::Exec as u64, &TokenAmount::from_whole(10), &init::ExecParams {
                code_cid: *MULTISIG_ACTOR_CODE_ID,
                constructor_params: RawBytes::serialize(&fil_actor_multisig::ConstructorParams { signers: vec![Address::new_id(accounts[0])], num_approvals_threshold: 1, unlock_duration: 0, start_epoch: 0 }).unwrap(),
            });
            r.de::<init::ExecReturn>().unwrap().id_address.id().unwrap()
        };
        let mut reg = Registry::default();
        reg.observe(w, stats)?;
        let mut creations = 0u32;
        let mut special = false;
        let mut had_failure = false;
        for (i, op) in case.ops.iter().enumerate() {
            let zero = TokenAmount::zero();
            let ids_before: BTreeSet<ActorID> = w.v.tree().actors.keys().copied().collect();
            match op {
                Op::Script(_) => {}
                Op::Exec { from, via_multisig, code, value } => {
                    let from = accounts[*from as usize % 3];
                    let (cid, ctor): (Cid, RawBytes) = match code {
                        CodeKind::Multisig => (*MULTISIG_ACTOR_CODE_ID, RawBytes::serialize(&fil_actor_multisig::ConstructorParams { signers: vec![Address::new_id(from)], num_approvals_threshold: 1, unlock_duration: 0, start_epoch: 0 }).unwrap()),
                        CodeKind::Paych => (*PAYCH_ACTOR_CODE_ID, RawBytes::serialize(&fil_actor_paych::ConstructorParams { from: Address::new_id(from), to: Address::new_id(accounts[0]) }).unwrap()),
                        CodeKind::Miner => (
                            *MINER_ACTOR_CODE_ID,
                            RawBytes::serialize(&fil_actor_miner::MinerConstructorParams {
                                owner: Address::new_id(from),
                                worker: Address::new_id(from),
                                control_addresses: vec![],
                                window_post_proof_type: RegisteredPoStProof::StackedDRGWindow32GiBV1P1,
                                peer_id: b"peer".to_vec(),
                                multi_addresses: vec![],
                            })
                            .unwrap(),
                        ),
                        CodeKind::Account => (*ACCOUNT_ACTOR_CODE_ID, RawBytes::serialize(&key_addr(999)).unwrap()),
                        CodeKind::Evm => (*EVM_ACTOR_CODE_ID, RawBytes::default()),
                        CodeKind::Placeholder => (*PLACEHOLDER_ACTOR_CODE_ID, RawBytes::default()),
                        CodeKind::EthAccount => (*ETHACCOUNT_ACTOR_CODE_ID, RawBytes::default()),
                        CodeKind::Unknown => (make_identity_cid(b"fil/test/nothing"), RawBytes::default()),
                    };
                    let p = init::ExecParams { code_cid: cid, constructor_params: ctor };
                    let v = TokenAmount::from_whole(if matches!(code, CodeKind::Miner) { 1000 } else { *value as i64 });
                    let (r, inner_ok, ret): (MsgResult, bool, Option<init::ExecReturn>) = if *via_multisig {
                        let r = w.call(accounts[0], msig, fil_actor_multisig::Method::Propose as u64, &zero, &fil_actor_multisig::ProposeParams { to: Address::new_id(INIT_ACTOR_ID), value: TokenAmount::zero(), method: init::Method::Exec as u64, params: RawBytes::serialize(&p).unwrap() });
                        let pr: Option<fil_actor_multisig::ProposeReturn> = r.de();
                        let ok = pr.as_ref().map(|x| x.applied && x.code.is_success()).unwrap_or(false);
                        let ret = pr.and_then(|x| fvm_ipld_encoding::from_slice::<init::ExecReturn>(&x.ret).ok());
                        (r, ok, ret)
                    } else {
                        let r = w.call(from, INIT_ACTOR_ID, init::Method::Exec as u64, &v, &p);
                        let ok = r.ok();
                        let ret = r.de();
                        (r, ok, ret)
                    };
                    stats.say(|| format!("op {i}: Exec {code:?} via_msig={via_multisig} -> {} inner_ok={inner_ok}", r.code.value()));
                    if inner_ok {
                        vassert!(matches!(code, CodeKind::Multisig | CodeKind::Paych), "exec-forbidden-combination", "Exec of {:?} by a non-power caller succeeded", code);
                        let ret = ret.ok_or_else(|| Violation::new("exec-return", "undecodable ExecReturn"))?;
                        let id = ret.id_address.id().unwrap();
                        vassert!(!ids_before.contains(&id), "exec-id-not-fresh", "Exec returned the existing id {}", id);
                        vassert!(w.v.resolve(&ret.robust_address) == Some(id), "robust-address-unmapped", "robust address {} does not map to {}", ret.robust_address, id);
                        vassert!(w.v.actor(id).map(|a| a.code) == Some(cid), "exec-wrong-code", "actor {} does not have the requested code", id);
                        creations += 1;
                        stats.label("exec_ok");
                        if had_failure {
                            special = true;
                        }
                    } else {
                        had_failure = true;
                    }
                }
                Op::Exec4 { from } => {
                    let from = accounts[*from as usize % 3];
                    let r = w.call(from, INIT_ACTOR_ID, init::Method::Exec4 as u64, &zero, &init::Exec4Params { code_cid: *EVM_ACTOR_CODE_ID, constructor_params: RawBytes::default(), subaddress: vec![7u8; 20].into() });
                    vassert!(!r.ok(), "exec4-by-non-eam", "Exec4 called by an account succeeded");
                    had_failure = true;
                }
                Op::EamDirect { from, create2 } => {
                    let from = accounts[*from as usize % 3];
                    let r = if *create2 {
                        w.call(from, EAM_ACTOR_ID, eam::Method::Create2 as u64, &zero, &eam::Create2Params { initcode: init_code(None, InitEnd::Ok), salt: [1u8; 32] })
                    } else {
                        w.call(from, EAM_ACTOR_ID, eam::Method::Create as u64, &zero, &eam::CreateParams { initcode: init_code(None, InitEnd::Ok), nonce: 5 })
                    };
                    vassert!(!r.ok(), "eam-create-by-non-contract", "EAM Create/Create2 called by an account succeeded");
                    had_failure = true;
                }
                Op::SendToKey { seed } => {
                    let r = w.v.execute(accounts[0], &key_addr(900 + *seed as u16), &TokenAmount::from_atto(5), METHOD_SEND, None);
                    vassert!(r.ok(), "send-to-key-failed", "bare send to a key address failed");
                    stats.label("auto_account");
                }
                Op::SendToF4 { who, predict } => {
                    let k = *who as usize % 3;
                    let target: Addr = if *predict {
                        // the address the eth principal's next CreateExternal will get (nonce = its sequence)
                        let seq = w.v.resolve(&f4(&eth_addrs[k])).and_then(|id| w.v.actor(id)).map(|a| a.sequence).unwrap_or(0);
                        rlp_create(&eth_addrs[k], seq)
                    } else {
                        keccak(&[0x99, *who, i as u8])[12..].try_into().unwrap()
                    };
                    let r = w.v.execute(accounts[0], &f4(&target), &TokenAmount::from_atto(9), METHOD_SEND, None);
                    vassert!(r.ok(), "send-to-f4-failed", "bare send to an f410 address failed: {}", r.message);
                    stats.label("placeholder_created_or_funded");
                }
                Op::WakePlaceholder { who } => {
                    let k = *who as usize % 3;
                    let addr = f4(&eth_addrs[k]);
                    if w.v.resolve(&addr).is_none() {
                        let r = w.v.execute(accounts[0], &addr, &TokenAmount::from_whole(50), METHOD_SEND, None);
                        vassert!(r.ok(), "send-to-f4-failed", "funding an eth principal failed");
                    }
                    let id = w.v.resolve(&addr).unwrap();
                    let r = w.v.execute(id, &Address::new_id(accounts[0]), &TokenAmount::from_atto(1), METHOD_SEND, None);
                    vassert!(r.ok(), "eth-account-send-failed", "a placeholder-originated send failed");
                    stats.label("eth_account_active");
                }
                Op::CreateExternal { eth, who, sstore, end, value } => {
                    let k = *who as usize % 3;
                    let initcode = init_code(*sstore, *end);
                    let v = TokenAmount::from_atto(*value as u64 * 1000);
                    let (sender, stable): (ActorID, Addr) = if *eth {
                        let addr = f4(&eth_addrs[k]);
                        if w.v.resolve(&addr).is_none() {
                            let r = w.v.execute(accounts[0], &addr, &TokenAmount::from_whole(50), METHOD_SEND, None);
                            vassert!(r.ok(), "send-to-f4-failed", "funding an eth principal failed");
                        }
                        (w.v.resolve(&addr).unwrap(), eth_addrs[k])
                    } else {
                        let st: fil_actor_account::State = w.v.get_state(accounts[k]).unwrap();
                        (accounts[k], keccak(&st.address.to_bytes())[12..].try_into().unwrap())
                    };
                    let seq = w.v.actor(sender).unwrap().sequence;
                    let want = rlp_create(&stable, seq);
                    let target_before = w.v.resolve(&f4(&want)).and_then(|id| w.v.actor(id));
                    ew.arm();
                    let r = w.call(sender, EAM_ACTOR_ID, eam::Method::CreateExternal as u64, &v, &eam::CreateExternalParams(initcode));
                    stats.say(|| format!("op {i}: CreateExternal eth={eth} who={k} end={end:?} -> {} {}", r.code.value(), r.message));
                    if r.ok() {
                        let ret: eam::CreateExternalReturn = r.de().unwrap();
                        vassert!(ret.eth_address.0 == want, "create-external-address", "CreateExternal returned {} but CREATE(sender address, nonce {}) = {}", hex::encode(ret.eth_address.0), seq, hex::encode(want));
                        vassert!(matches!(end, InitEnd::Ok | InitEnd::SelfDestruct), "failed-constructor-deployed", "a constructor ending in {:?} left a contract behind", end);
                        let a = w.v.actor(ret.actor_id).ok_or_else(|| Violation::new("created-actor-missing", "no actor at the returned id"))?;
                        vassert!(a.code == *EVM_ACTOR_CODE_ID && a.delegated == Some(f4(&want)), "created-actor-wrong", "returned id {} is not an EVM actor at the returned address", ret.actor_id);
                        if let Some(tb) = target_before {
                            vassert!(tb.code == *PLACEHOLDER_ACTOR_CODE_ID, "deployed-over-existing-actor", "deployment replaced a non-placeholder actor");
                            special = true;
                        }
                        if let Some(rb) = ret.robust_address {
                            vassert!(w.v.resolve(&rb) == Some(ret.actor_id), "robust-address-unmapped", "robust address does not map to the new contract");
                        }
                        creations += 1;
                        stats.label("create_external_ok");
                        if had_failure {
                            special = true;
                        }
                    } else {
                        had_failure = true;
                        if matches!(end, InitEnd::Ok) && target_before.map(|t| t.code == *PLACEHOLDER_ACTOR_CODE_ID).unwrap_or(true) {
                            stats.label("impl_stricter_than_model");
                        }
                    }
                }
                Op::CreateMiner { owner } => {
                    let o = accounts[*owner as usize % 3];
                    match w.create_miner(o, o, RegisteredPoStProof::StackedDRGWindow32GiBV1P1, &TokenAmount::from_whole(1000)) {
                        Ok((id, robust)) => {
                            vassert!(!ids_before.contains(&id), "exec-id-not-fresh", "CreateMiner returned an existing id");
                            vassert!(w.v.resolve(&robust) == Some(id), "robust-address-unmapped", "miner robust address unmapped");
                            creations += 1;
                            stats.label("miner_created");
                        }
                        Err(_) => {
                            had_failure = true;
                        }
                    }
                    let _ = STORAGE_POWER_ACTOR_ID;
                }
                Op::PaychLifecycle { from } => {
                    let to = accounts[(*from as usize + 1) % 3];
                    let from = accounts[*from as usize % 3];
                    let r = w.call(from, INIT_ACTOR_ID, init::Method::Exec as u64, &TokenAmount::from_whole(1), &init::ExecParams {
                        code_cid: *PAYCH_ACTOR_CODE_ID,
                        constructor_params: RawBytes::serialize(&fil_actor_paych::ConstructorParams { from: Address::new_id(from), to: Address::new_id(to) }).unwrap(),
                    });
                    if let Some(ret) = r.de::<init::ExecReturn>() {
                        let ch = ret.id_address.id().unwrap();
                        reg.observe(w, stats)?;
                        let r = w.call_raw(from, ch, fil_actor_paych::Method::Settle as u64, &zero, None);
                        vassert!(r.ok(), "paych-settle-failed", "Settle failed");
                        w.v.set_epoch(w.v.epoch() + 12 * 120 + 1);
                        let r = w.call_raw(from, ch, fil_actor_paych::Method::Collect as u64, &zero, None);
                        vassert!(r.ok(), "paych-collect-failed", "Collect failed: {}", r.message);
                        vassert!(w.v.actor(ch).is_none(), "paych-not-deleted", "channel survived Collect");
                        vassert!(w.v.resolve(&ret.robust_address) == Some(ch), "robust-address-unmapped", "the deleted channel's robust address no longer maps to its id");
                        creations += 1;
                        special = true;
                        stats.label("actor_deleted_then_more_creations");
                    }
                }
            }
            reg.observe(w, stats)?;
        }
        stats.nontrivial = creations >= 2 && special;
        Ok(())
    }
}
