//! Composite checks: a property whose clauses live in several actor families is judged over the histories of the
//! corresponding engines, each inner engine contributing only the clauses that belong to the property.
//!   C01: system engine (focus C01) + market histories (conservation, market solvency) + payment-channel histories
//!        (the channel holds at least what it owes)
//!   C05: system engine (focus C05) + market histories (the market's cron callback must succeed)

use crate::common::*;
use crate::engines::sys::ops::SysCase;
use crate::engines::{c16_paych, market, sys};
use proptest::prelude::*;
use serde::{Deserialize, Serialize};

#[derive(Clone, Debug, Serialize, Deserialize)]
pub enum CompCase {
    Sys(SysCase),
    Market(market::Case),
    Paych(c16_paych::Case),
}

pub struct Composite {
    pub id: &'static str,
}

impl Composite {
    fn market_clauses(&self) -> &'static [&'static str] {
        match self.id {
            "C01" => &["conservation", "market-insolvent"],
            "C05" => &["cron-failed"],
            _ => &[],
        }
    }
    fn paych_clauses(&self) -> &'static [&'static str] {
        match self.id {
            "C01" => &["owed-out-of-range", "conservation"],
            _ => &[],
        }
    }
    fn sys(&self) -> sys::SysEngine {
        sys::SysEngine { id: self.id }
    }
}

impl Engine for Composite {
    type Case = CompCase;
    fn id(&self) -> &'static str {
        self.id
    }
    fn budget(&self, tier: Tier) -> (u32, u32) {
        match tier {
            Tier::Quick => (64, 10),
            Tier::Thorough => (128, 16),
        }
    }
    fn strategy(&self, tier: Tier) -> BoxedStrategy<CompCase> {
        let s = self.sys().strategy(tier).prop_map(CompCase::Sys);
        // market histories biased to the life cycle (activation, settlement and cron racing the start epoch)
        let m = market::engines::C08.strategy(tier).prop_map(CompCase::Market);
        let m2 = market::engines::C06.strategy(tier).prop_map(CompCase::Market);
        if self.id == "C01" {
            let p = c16_paych::C16.strategy(tier).prop_map(CompCase::Paych);
            prop_oneof![8 => s, 1 => m, 1 => m2, 1 => p].boxed()
        } else {
            prop_oneof![8 => s, 2 => m, 1 => m2].boxed()
        }
    }
    fn rule(&self) -> String {
        let extra = match self.id {
            "C01" => " | composite: 8/11 of the cases are system histories as described; 2/11 are market histories (the C06/C08 generators) judged only for FIL conservation and 'market balance >= escrow total', 1/11 payment-channel histories (the C16 generator) judged only for 'channel balance >= amount owed'; those count as non-trivial when the inner engine's own rule says so",
            "C05" => " | composite: 8/11 of the cases are system histories as described; 3/11 are market histories (the C06/C08 generators: publication, activation, early/partial settlement, termination, cron at and around start / end / processing epochs) judged only for 'the market's CronTick succeeds'; those count as non-trivial when the inner engine's own rule says so",
            _ => "",
        };
        format!("{}{}", self.sys().rule(), extra)
    }
    fn assumptions(&self) -> Vec<String> {
        let mut a = self.sys().assumptions();
        a.push("market / payment-channel parts: sparse time regime with the market's CronTick invoked as the cron actor at generator-chosen epochs; violations of clauses that belong to other properties end the history without being reported here".into());
        a
    }
    fn required_labels(&self) -> Vec<(&'static str, f64)> {
        vec![("post_accepted", 0.2), ("proven", 0.35)]
    }
    fn run(&self, case: &CompCase, stats: &mut CaseStats) -> VResult {
        match case {
            CompCase::Sys(c) => {
                stats.label("part_system");
                self.sys().run(c, stats)
            }
            CompCase::Market(c) => {
                stats.label("part_market");
                let r = market::engines::C06.run(c, stats);
                match r {
                    Err(v) if self.market_clauses().contains(&v.clause.as_str()) => Err(v),
                    Err(_) => {
                        stats.label("inner_engine_reported_its_own_violation");
                        Ok(())
                    }
                    Ok(()) => Ok(()),
                }
            }
            CompCase::Paych(c) => {
                stats.label("part_paych");
                let r = c16_paych::C16.run(c, stats);
                match r {
                    Err(v) if self.paych_clauses().contains(&v.clause.as_str()) => Err(v),
                    Err(_) => {
                        stats.label("inner_engine_reported_its_own_violation");
                        Ok(())
                    }
                    Ok(()) => Ok(()),
                }
            }
        }
    }
}
