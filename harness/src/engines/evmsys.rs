//! Multi-contract EVM scripts: generator types, compiler to bytecode, and an independent journal
//! model of nested / re-entrant / reverted calls (C19; reused by C18 and C20).

use crate::common::*;
use crate::evmfix::*;
use crate::evmref::{self, U, be32, keccak};
use crate::simvm::Trace;
use crate::{vassert, vfail};
use fil_actor_evm as evm;
use fvm_shared::ActorID;
use fvm_shared::address::Address;
use fvm_shared::econ::TokenAmount;
use num_traits::Zero;
use proptest::prelude::*;
use serde::{Deserialize, Serialize};
use std::collections::{BTreeMap, BTreeSet};

pub type Addr = [u8; 20];

#[derive(Clone, Copy, Debug, Serialize, Deserialize, PartialEq, Eq)]
pub enum Kind {
    Call,
    Static,
    Delegate,
}

#[derive(Clone, Copy, Debug, Serialize, Deserialize, PartialEq, Eq)]
pub enum InitEnd {
    Ok,
    Revert,
    Invalid,
    SelfDestruct,
}

#[derive(Clone, Copy, Debug, Serialize, Deserialize, PartialEq, Eq)]
pub enum Benef {
    Account(u8),
    Contract(u8),
}

#[derive(Clone, Copy, Debug, Serialize, Deserialize, PartialEq, Eq)]
pub enum End {
    Return,
    Revert,
    Invalid,
}

#[derive(Clone, Debug, Serialize, Deserialize)]
pub enum Action {
    SStore { k: u8, v: u8 },
    TStore { k: u8, v: u8 },
    SLoad { k: u8 },
    TLoad { k: u8 },
    Log { topic: u8 },
    Call { kind: Kind, target: u8, value: u8, node: Node },
    CallAccount { acct: u8, value: u8 },
    Create { salt: Option<u8>, endow: u8, sstore: Option<u8>, end: InitEnd },
    CallCreated { sel: u8, value: u8, is_static: bool },
    SelfDestruct { to: Benef },
}

#[derive(Clone, Debug, Serialize, Deserialize)]
pub struct Node {
    pub actions: Vec<Action>,
    pub end: End,
}

#[derive(Clone, Debug, Serialize, Deserialize)]
pub struct Message {
    /// which of the two user accounts sends it (their nonces are aligned so that equal nonces occur)
    pub sender: bool,
    pub root: u8,
    pub value: u8,
    pub node: Node,
}

#[derive(Clone, Debug, Serialize, Deserialize)]
pub struct Script {
    pub n_contracts: u8,
    pub prefund: Vec<u8>,
    pub messages: Vec<Message>,
}

// ------------------------------------------------------------------ generator

fn leaf_action() -> impl Strategy<Value = Action> {
    prop_oneof![
        6 => (0u8..3, 0u8..4).prop_map(|(k, v)| Action::SStore { k, v }),
        3 => (0u8..3, 0u8..4).prop_map(|(k, v)| Action::TStore { k, v }),
        6 => (0u8..3).prop_map(|k| Action::SLoad { k }),
        3 => (0u8..3).prop_map(|k| Action::TLoad { k }),
        2 => (1u8..5).prop_map(|topic| Action::Log { topic }),
        1 => (0u8..2, 0u8..4).prop_map(|(acct, value)| Action::CallAccount { acct, value }),
        2 => (prop_oneof![2 => Just(None), 3 => (0u8..2).prop_map(Some)], 0u8..3, prop_oneof![Just(None), (1u8..4).prop_map(Some)], prop_oneof![6 => Just(InitEnd::Ok), 1 => Just(InitEnd::Revert), 1 => Just(InitEnd::Invalid), 1 => Just(InitEnd::SelfDestruct)])
            .prop_map(|(salt, endow, sstore, end)| Action::Create { salt, endow, sstore, end }),
        2 => (0u8..4, 0u8..2, prop_oneof![4 => Just(false), 1 => Just(true)]).prop_map(|(sel, value, is_static)| Action::CallCreated { sel, value, is_static }),
        1 => prop_oneof![(0u8..2).prop_map(Benef::Account), (0u8..4).prop_map(Benef::Contract)].prop_map(|to| Action::SelfDestruct { to }),
    ]
}

fn end_strategy() -> impl Strategy<Value = End> {
    prop_oneof![8 => Just(End::Return), 3 => Just(End::Revert), 1 => Just(End::Invalid)]
}

/// write -> call -> (inner write to the same slot, possibly through a re-entrant hop) -> read
fn pattern(inner: impl Strategy<Value = Node> + Clone) -> impl Strategy<Value = Vec<Action>> {
    (any::<bool>(), 0u8..3, 1u8..4, 0u8..4, prop_oneof![4 => Just(Kind::Call), 1 => Just(Kind::Static), 2 => Just(Kind::Delegate)], 0u8..4, any::<bool>(), end_strategy(), inner)
        .prop_map(|(transient, k, v1, v2, kind, target, hop, end, extra)| {
            let st = |v: u8| if transient { Action::TStore { k, v } } else { Action::SStore { k, v } };
            let ld = || if transient { Action::TLoad { k } } else { Action::SLoad { k } };
            // the innermost activation runs on the *same* contract as the outer one when `target` is
            // chosen by the interpreter modulo n; `hop` inserts an intermediate contract
            let innermost = Node { actions: vec![ld(), st(v2), ld()], end };
            let child = if hop {
                Node { actions: vec![Action::Call { kind: Kind::Call, target: 250, value: 0, node: innermost }], end: End::Return }
            } else {
                innermost
            };
            let mut v = vec![st(v1), Action::Call { kind, target: if hop { target } else { 250 }, value: 0, node: child }, ld()];
            v.extend(extra.actions.into_iter().take(2));
            v
        })
}

pub fn node_strategy() -> impl Strategy<Value = Node> {
    let leaf = (proptest::collection::vec(leaf_action(), 0..5), end_strategy()).prop_map(|(actions, end)| Node { actions, end });
    leaf.prop_recursive(3, 24, 6, |inner| {
        (
            proptest::collection::vec(
                prop_oneof![
                    3 => leaf_action().prop_map(|a| vec![a]),
                    3 => (prop_oneof![5 => Just(Kind::Call), 2 => Just(Kind::Static), 2 => Just(Kind::Delegate)], 0u8..4, prop_oneof![3 => Just(0u8), 1 => 1u8..4], inner.clone())
                        .prop_map(|(kind, target, value, node)| vec![Action::Call { kind, target, value, node }]),
                    2 => pattern(inner),
                ],
                0..6,
            ),
            end_strategy(),
        )
            .prop_map(|(chunks, end)| Node { actions: chunks.into_iter().flatten().collect(), end })
    })
}

/// creation-heavy scripts: one deployer contract repeatedly CREATE/CREATE2s with a tiny salt space, calls
/// (and self-destructs) what it created, across several messages, so that collisions and resurrections occur
pub fn script_strategy_create_heavy() -> impl Strategy<Value = Script> {
    let act = prop_oneof![
        8 => (prop_oneof![1 => Just(None), 4 => (0u8..2).prop_map(Some)], 0u8..2, prop_oneof![Just(None), (1u8..4).prop_map(Some)], prop_oneof![8 => Just(InitEnd::Ok), 1 => Just(InitEnd::Revert), 1 => Just(InitEnd::SelfDestruct)])
            .prop_map(|(salt, endow, sstore, end)| Action::Create { salt, endow, sstore, end }),
        6 => (prop_oneof![1 => Just(0u8), 1 => Just(1u8), 3 => Just(2u8), 1 => Just(3u8)], 0u8..2, Just(false)).prop_map(|(sel, value, is_static)| Action::CallCreated { sel, value, is_static }),
        2 => (0u8..3, 0u8..4).prop_map(|(k, v)| Action::SStore { k, v }),
        1 => (0u8..3).prop_map(|k| Action::SLoad { k }),
    ];
    let node = (proptest::collection::vec(act, 1..6), prop_oneof![6 => Just(End::Return), 1 => Just(End::Revert)]).prop_map(|(actions, end)| Node { actions, end });
    (proptest::collection::vec(0u8..6, 4), proptest::collection::vec((any::<bool>(), prop_oneof![4 => Just(0u8), 1 => 1u8..4], Just(0u8), node).prop_map(|(sender, root, value, node)| Message { sender, root, value, node }), 2..6))
        .prop_map(|(mut prefund, messages)| {
            prefund[0] = prefund[0].max(3);
            Script { n_contracts: 2, prefund, messages }
        })
}

pub fn script_strategy(max_msgs: usize) -> impl Strategy<Value = Script> {
    (2u8..5, proptest::collection::vec(0u8..6, 4), proptest::collection::vec((any::<bool>(), 0u8..4, prop_oneof![3 => Just(0u8), 1 => 1u8..4], node_strategy()).prop_map(|(sender, root, value, node)| Message { sender, root, value, node }), 1..max_msgs))
        .prop_map(|(n_contracts, prefund, messages)| Script { n_contracts, prefund, messages })
}

// ------------------------------------------------------------------ address formulas

pub fn rlp_create(deployer: &Addr, nonce: u64) -> Addr {
    let mut body = vec![0x94];
    body.extend_from_slice(deployer);
    if nonce == 0 {
        body.push(0x80);
    } else if nonce < 0x80 {
        body.push(nonce as u8);
    } else {
        let b: Vec<u8> = nonce.to_be_bytes().iter().copied().skip_while(|x| *x == 0).collect();
        body.push(0x80 + b.len() as u8);
        body.extend_from_slice(&b);
    }
    let mut enc = vec![0xc0 + body.len() as u8];
    enc.extend_from_slice(&body);
    keccak(&enc)[12..].try_into().unwrap()
}

pub fn create2_addr(deployer: &Addr, salt: &[u8; 32], initcode: &[u8]) -> Addr {
    let mut d = vec![0xff];
    d.extend_from_slice(deployer);
    d.extend_from_slice(salt);
    d.extend_from_slice(&keccak(initcode));
    keccak(&d)[12..].try_into().unwrap()
}

pub fn id_addr(id: ActorID) -> Addr {
    let mut b = [0u8; 20];
    b[0] = 0xff;
    b[12..].copy_from_slice(&id.to_be_bytes());
    b
}

// ------------------------------------------------------------------ compiler

const SCRATCH: u64 = 0x8000;
const WEI: u64 = 1000; // value unit

pub fn probe_runtime() -> Vec<u8> {
    let mut a = Asm::new();
    let l1 = a.new_label();
    let l2 = a.new_label();
    let l3 = a.new_label();
    a.op(0x5f).op(0x35).push_u(0xf8).op(0x1c); // selector
    a.op(0x80).push_u(1).op(0x14).push_label(l1).op(0x57);
    a.op(0x80).push_u(2).op(0x14).push_label(l2).op(0x57);
    a.op(0x80).push_u(3).op(0x14).push_label(l3).op(0x57);
    // 0: return SLOAD(0)
    a.op(0x5f).op(0x54).op(0x5f).op(0x52).push_u(32).op(0x5f).op(0xf3);
    a.bind(l1);
    a.push_u(0x77).op(0x5f).op(0x55).push_u(1).op(0x5f).op(0x52).push_u(32).op(0x5f).op(0xf3);
    a.bind(l2);
    a.op(0x33).op(0xff);
    a.bind(l3);
    a.op(0x5f).op(0x54).op(0x5f).op(0x52).push_u(32).op(0x5f).op(0xfd);
    a.finish()
}

pub fn init_code(sstore: Option<u8>, end: InitEnd) -> Vec<u8> {
    let mut a = Asm::new();
    if let Some(v) = sstore {
        a.push_u(v as u64).op(0x5f).op(0x55);
    }
    match end {
        InitEnd::Ok => {
            let rt = probe_runtime();
            let mut c = a.finish();
            let off = c.len() + 12;
            let len = rt.len() as u16;
            c.extend_from_slice(&[0x61, (len >> 8) as u8, len as u8, 0x80, 0x61, (off >> 8) as u8, off as u8, 0x5f, 0x39, 0x5f, 0xf3, 0x00]);
            c.extend_from_slice(&rt);
            c
        }
        InitEnd::Revert => {
            a.op(0x5f).op(0x5f).op(0xfd);
            a.finish()
        }
        InitEnd::Invalid => {
            a.op(0xfe);
            a.finish()
        }
        InitEnd::SelfDestruct => {
            a.op(0x33).op(0xff);
            a.finish()
        }
    }
}

struct Compiler<'a> {
    addrs: &'a [Addr],
    accounts: &'a [Addr],
    /// per contract: list of compiled blocks
    blocks: Vec<Vec<Vec<u8>>>,
}

fn append_word(a: &mut Asm) {
    // value on stack -> mem[ptr] ; ptr += 32
    a.op(0x5f).op(0x51).op(0x90).op(0x81).op(0x52).push_u(32).op(0x01).op(0x5f).op(0x52);
}

fn append_returndata(a: &mut Asm) {
    a.op(0x3d);
    append_word(a); // size word
    // RETURNDATACOPY(dest=ptr, off=0, size=rds)
    a.op(0x3d).op(0x5f).op(0x5f).op(0x51).op(0x3e);
    a.op(0x5f).op(0x51).op(0x3d).op(0x01).op(0x5f).op(0x52);
}

impl Compiler<'_> {
    /// compile `node` as a block of contract `code_of`; returns its block index
    fn node(&mut self, code_of: usize, node: &Node) -> usize {
        // reserve the index first so that nested nodes get later indices
        let idx = self.blocks[code_of].len();
        self.blocks[code_of].push(vec![]);
        let n = self.addrs.len();
        let mut a = Asm::new();
        // (position-independent: blocks contain no absolute jumps except CallCreated's skip,
        //  which is resolved when the contract is laid out; we therefore emit relative markers)
        a.push_u(0x80).op(0x5f).op(0x52);
        for act in &node.actions {
            match act {
                Action::SStore { k, v } => {
                    a.push_u(*v as u64).push_u(*k as u64).op(0x55);
                }
                Action::TStore { k, v } => {
                    a.push_u(*v as u64).push_u(*k as u64).op(0x5d);
                }
                Action::SLoad { k } => {
                    a.push_u(*k as u64).op(0x54);
                    append_word(&mut a);
                }
                Action::TLoad { k } => {
                    a.push_u(*k as u64).op(0x5c);
                    append_word(&mut a);
                }
                Action::Log { topic } => {
                    a.push_u(*topic as u64).op(0x5f).op(0x5f).op(0xa1);
                }
                Action::Call { kind, target, value, node } => {
                    let t = if *target == 250 { code_of } else { *target as usize % n };
                    let child = self.node(t, node);
                    a.push_u(child as u64).push_u(0x20).op(0x53); // selector byte at mem[0x20]
                    a.op(0x5f).op(0x5f).push_u(1).push_u(0x20);
                    if *kind == Kind::Call {
                        a.push_u(*value as u64 * WEI);
                    }
                    a.push(&evmref::from_be(&self.addrs[t]));
                    a.push_u(0xffff_ffff);
                    a.op(match kind {
                        Kind::Call => 0xf1,
                        Kind::Static => 0xfa,
                        Kind::Delegate => 0xf4,
                    });
                    append_word(&mut a);
                    append_returndata(&mut a);
                }
                Action::CallAccount { acct, value } => {
                    let t = self.accounts[*acct as usize % self.accounts.len()];
                    a.op(0x5f).op(0x5f).op(0x5f).op(0x5f);
                    a.push_u(*value as u64 * WEI);
                    a.push(&evmref::from_be(&t));
                    a.push_u(0xffff_ffff);
                    a.op(0xf1);
                    append_word(&mut a);
                    append_returndata(&mut a);
                }
                Action::Create { salt, endow, sstore, end } => {
                    let init = init_code(*sstore, *end);
                    // write the init code into scratch memory byte-string by PUSH32 chunks
                    for (ci, chunk) in init.chunks(32).enumerate() {
                        let mut w = [0u8; 32];
                        w[..chunk.len()].copy_from_slice(chunk);
                        a.push32(&evmref::from_be(&w)).push_u(SCRATCH + 32 * ci as u64).op(0x52);
                    }
                    if let Some(s) = salt {
                        a.push_u(*s as u64);
                    }
                    a.push_u(init.len() as u64).push_u(SCRATCH).push_u(*endow as u64 * WEI);
                    a.op(if salt.is_some() { 0xf5 } else { 0xf0 });
                    a.op(0x80).push_u(0x40).op(0x52); // remember last created
                    append_word(&mut a);
                }
                Action::CallCreated { sel, value, is_static } => {
                    // skip when nothing was created: relative forward jump resolved with PC
                    let mut body = Asm::new();
                    body.push_u(*sel as u64 % 4).push_u(0x20).op(0x53);
                    body.op(0x5f).op(0x5f).push_u(1).push_u(0x20);
                    if !*is_static {
                        body.push_u(*value as u64 * WEI);
                    }
                    body.push_u(0x40).op(0x51);
                    body.push_u(0xffff_ffff);
                    body.op(if *is_static { 0xfa } else { 0xf1 });
                    append_word(&mut body);
                    append_returndata(&mut body);
                    let body = body.finish();
                    // PUSH 0x40 MLOAD ISZERO ; PC ; PUSH2 delta ; ADD ; JUMPI ; body ; JUMPDEST
                    a.push_u(0x40).op(0x51).op(0x15);
                    a.op(0x58); // PC of this instruction
                    let delta = 1 + 3 + 1 + 1 + body.len(); // PC, PUSH2 xx xx, ADD, JUMPI, body
                    a.op(0x61).raw(&[(delta >> 8) as u8, delta as u8]).op(0x01).op(0x57);
                    a.raw(&body);
                    a.op(0x5b);
                }
                Action::SelfDestruct { to } => {
                    let t = match to {
                        Benef::Account(i) => self.accounts[*i as usize % self.accounts.len()],
                        Benef::Contract(i) => self.addrs[*i as usize % n],
                    };
                    a.push(&evmref::from_be(&t)).op(0xff);
                }
            }
        }
        match node.end {
            End::Return | End::Revert => {
                a.push_u(0x80).op(0x5f).op(0x51).op(0x03); // len = ptr - 0x80
                a.push_u(0x80);
                a.op(if node.end == End::Return { 0xf3 } else { 0xfd });
            }
            End::Invalid => {
                a.op(0xfe);
            }
        }
        self.blocks[code_of][idx] = a.finish();
        idx
    }

    fn contract(&self, c: usize) -> Vec<u8> {
        let mut a = Asm::new();
        a.op(0x5f).op(0x35).push_u(0xf8).op(0x1c);
        let labels: Vec<usize> = self.blocks[c].iter().map(|_| a.new_label()).collect();
        for (i, l) in labels.iter().enumerate() {
            a.op(0x80).push_u(i as u64).op(0x14).push_label(*l).op(0x57);
        }
        // unknown selector: behave like an empty contract
        a.op(0x00);
        for (i, l) in labels.iter().enumerate() {
            a.bind(*l);
            a.op(0x50);
            a.raw(&self.blocks[c][i]);
        }
        a.finish()
    }
}

// ------------------------------------------------------------------ journal model

#[derive(Clone, Debug, PartialEq, Eq)]
enum Code {
    Script(usize),
    Probe,
    Empty,
}

#[derive(Clone, Debug, Default)]
struct MState {
    storage: BTreeMap<Addr, BTreeMap<u8, u8>>,
    transient: BTreeMap<Addr, BTreeMap<u8, u8>>,
    balance: BTreeMap<Addr, u128>,
    nonce: BTreeMap<Addr, u64>,
    code: BTreeMap<Addr, Code>,
    destroyed_now: BTreeSet<Addr>,
    dead: BTreeSet<Addr>,
    logs: Vec<(Addr, u8)>,
    created_ever: Vec<Addr>,
}

struct Frame {
    this: Addr,
    caller: Addr,
    value: u128,
    is_static: bool,
}

struct FrameResult {
    ok: bool,
    data: Vec<u8>,
}

struct Model<'a> {
    st: MState,
    addrs: &'a [Addr],
    accounts: &'a [Addr],
    labels: BTreeSet<&'static str>,
    depth_max: usize,
}

fn word(v: u128) -> Vec<u8> {
    be32(&U::from(v)).to_vec()
}
fn addr_word(a: &Addr) -> Vec<u8> {
    let mut w = vec![0u8; 12];
    w.extend_from_slice(a);
    w
}

impl Model<'_> {
    fn bal(&self, a: &Addr) -> u128 {
        self.st.balance.get(a).copied().unwrap_or(0)
    }
    fn transfer(&mut self, from: &Addr, to: &Addr, v: u128) {
        if v == 0 || from == to {
            return;
        }
        *self.st.balance.entry(*from).or_default() -= v;
        *self.st.balance.entry(*to).or_default() += v;
    }
    fn is_live_contract(&self, a: &Addr) -> bool {
        self.st.code.contains_key(a) && !self.st.dead.contains(a)
    }

    fn run_probe(&mut self, f: &Frame, sel: u8) -> FrameResult {
        let s0 = self.st.storage.get(&f.this).and_then(|m| m.get(&0)).copied().unwrap_or(0);
        match sel % 4 {
            0 => FrameResult { ok: true, data: word(s0 as u128) },
            1 => {
                if f.is_static {
                    return FrameResult { ok: false, data: vec![] };
                }
                self.st.storage.entry(f.this).or_default().insert(0, 0x77);
                FrameResult { ok: true, data: word(1) }
            }
            2 => {
                if f.is_static {
                    return FrameResult { ok: false, data: vec![] };
                }
                let b = self.bal(&f.this);
                self.transfer(&f.this.clone(), &f.caller.clone(), b);
                self.st.destroyed_now.insert(f.this);
                self.labels.insert("probe_selfdestruct");
                FrameResult { ok: true, data: vec![] }
            }
            _ => FrameResult { ok: false, data: word(s0 as u128) },
        }
    }

    /// Run a contract invocation (code lookup + liveness), with journaling.
    fn call_addr(&mut self, f: Frame, code_at: &Addr, node: Option<&Node>, sel: u8, depth: usize) -> FrameResult {
        self.depth_max = self.depth_max.max(depth);
        let snapshot = self.st.clone();
        let r = if self.st.dead.contains(code_at) || !self.st.code.contains_key(code_at) {
            FrameResult { ok: true, data: vec![] }
        } else {
            match self.st.code.get(code_at).cloned().unwrap() {
                Code::Empty => FrameResult { ok: true, data: vec![] },
                Code::Probe => self.run_probe(&f, sel),
                Code::Script(_) => match node {
                    Some(n) => self.run_node(&f, n, depth, code_at),
                    None => FrameResult { ok: true, data: vec![] },
                },
            }
        };
        if !r.ok {
            self.st = snapshot;
        }
        r
    }

    fn run_node(&mut self, f: &Frame, node: &Node, depth: usize, code_at: &Addr) -> FrameResult {
        let mut report: Vec<u8> = vec![];
        let mut last_created: Option<Addr> = None;
        let n = self.addrs.len();
        let exception = FrameResult { ok: false, data: vec![] };
        for act in &node.actions {
            match act {
                Action::SStore { k, v } => {
                    if f.is_static {
                        self.labels.insert("static_write_blocked");
                        return exception;
                    }
                    let m = self.st.storage.entry(f.this).or_default();
                    if *v == 0 {
                        m.remove(k);
                    } else {
                        m.insert(*k, *v);
                    }
                }
                Action::TStore { k, v } => {
                    if f.is_static {
                        self.labels.insert("static_write_blocked");
                        return exception;
                    }
                    let m = self.st.transient.entry(f.this).or_default();
                    if *v == 0 {
                        m.remove(k);
                    } else {
                        m.insert(*k, *v);
                    }
                }
                Action::SLoad { k } => {
                    let v = self.st.storage.get(&f.this).and_then(|m| m.get(k)).copied().unwrap_or(0);
                    report.extend(word(v as u128));
                }
                Action::TLoad { k } => {
                    let v = self.st.transient.get(&f.this).and_then(|m| m.get(k)).copied().unwrap_or(0);
                    report.extend(word(v as u128));
                }
                Action::Log { topic } => {
                    if f.is_static {
                        self.labels.insert("static_write_blocked");
                        return exception;
                    }
                    self.st.logs.push((f.this, *topic));
                }
                Action::Call { kind, target, value, node: child } => {
                    let t = if *target == 250 { *code_at } else { self.addrs[*target as usize % n] };
                    let v = if *kind == Kind::Call { *value as u128 * WEI as u128 } else { 0 };
                    if f.is_static && v > 0 {
                        self.labels.insert("static_write_blocked");
                        return exception;
                    }
                    if depth >= 2 && self.st.storage.get(&f.this).map(|m| !m.is_empty()).unwrap_or(false) {
                        self.labels.insert("nested_call_after_write");
                    }
                    let r = match kind {
                        Kind::Call | Kind::Static => {
                            if self.bal(&f.this) < v {
                                FrameResult { ok: false, data: vec![] }
                            } else {
                                let snap = self.st.clone();
                                self.transfer(&f.this.clone(), &t, v);
                                let fr = Frame { this: t, caller: f.this, value: v, is_static: f.is_static || *kind == Kind::Static };
                                let r = self.call_addr(fr, &t, Some(child), 0, depth + 1);
                                if !r.ok {
                                    self.st = snap;
                                }
                                r
                            }
                        }
                        Kind::Delegate => {
                            self.labels.insert("delegatecall");
                            let fr = Frame { this: f.this, caller: f.caller, value: f.value, is_static: f.is_static };
                            self.call_addr(fr, &t, Some(child), 0, depth + 1)
                        }
                    };
                    if t == f.this || self.is_ancestor_reentry(&t, f) {
                        self.labels.insert("reentrant");
                    }
                    if !r.ok {
                        self.labels.insert("inner_failure_tolerated");
                    }
                    report.extend(word(r.ok as u128));
                    report.extend(word(r.data.len() as u128));
                    report.extend(&r.data);
                }
                Action::CallAccount { acct, value } => {
                    let t = self.accounts[*acct as usize % self.accounts.len()];
                    let v = *value as u128 * WEI as u128;
                    if f.is_static && v > 0 {
                        return exception;
                    }
                    let ok = self.bal(&f.this) >= v;
                    if ok {
                        self.transfer(&f.this.clone(), &t, v);
                    }
                    report.extend(word(ok as u128));
                    report.extend(word(0));
                }
                Action::Create { salt, endow, sstore, end } => {
                    if f.is_static {
                        self.labels.insert("static_write_blocked");
                        return exception;
                    }
                    let v = *endow as u128 * WEI as u128;
                    if self.bal(&f.this) < v {
                        report.extend(word(0));
                        last_created = None;
                        continue;
                    }
                    let nonce = self.st.nonce.get(&f.this).copied().unwrap_or(1);
                    self.st.nonce.insert(f.this, nonce + 1);
                    let init = init_code(*sstore, *end);
                    let addr = match salt {
                        None => rlp_create(&f.this, nonce),
                        Some(s) => {
                            let mut sb = [0u8; 32];
                            sb[31] = *s;
                            create2_addr(&f.this, &sb, &init)
                        }
                    };
                    let occupied = self.st.code.contains_key(&addr) && !self.st.dead.contains(&addr);
                    let snap = self.st.clone();
                    let mut ok = !occupied;
                    if occupied {
                        self.labels.insert("create_collision");
                    }
                    if ok {
                        if self.st.dead.contains(&addr) {
                            self.labels.insert("resurrected");
                            self.st.dead.remove(&addr);
                            self.st.storage.remove(&addr);
                        }
                        self.transfer(&f.this.clone(), &addr, v);
                        self.st.nonce.insert(addr, 1);
                        if let Some(sv) = sstore {
                            self.st.storage.entry(addr).or_default().insert(0, *sv);
                        }
                        match end {
                            InitEnd::Ok => {
                                self.st.code.insert(addr, Code::Probe);
                            }
                            InitEnd::Revert | InitEnd::Invalid => ok = false,
                            InitEnd::SelfDestruct => {
                                let b = self.bal(&addr);
                                self.transfer(&addr, &f.this.clone(), b);
                                self.st.code.insert(addr, Code::Empty);
                                self.st.destroyed_now.insert(addr);
                            }
                        }
                    }
                    if ok {
                        self.st.created_ever.push(addr);
                        self.labels.insert("created");
                        report.extend(addr_word(&addr));
                        last_created = Some(addr);
                    } else {
                        let keep_nonce = self.st.nonce.get(&f.this).copied();
                        self.st = snap;
                        if let Some(k) = keep_nonce {
                            self.st.nonce.insert(f.this, k);
                        }
                        self.labels.insert("create_failed");
                        report.extend(word(0));
                        last_created = None;
                    }
                }
                Action::CallCreated { sel, value, is_static } => {
                    let Some(t) = last_created else { continue };
                    let v = if *is_static { 0 } else { *value as u128 * WEI as u128 };
                    if f.is_static && v > 0 {
                        return exception;
                    }
                    let r = if self.bal(&f.this) < v {
                        FrameResult { ok: false, data: vec![] }
                    } else {
                        let snap = self.st.clone();
                        self.transfer(&f.this.clone(), &t, v);
                        let fr = Frame { this: t, caller: f.this, value: v, is_static: f.is_static || *is_static };
                        let r = self.call_addr(fr, &t, None, *sel, depth + 1);
                        if !r.ok {
                            self.st = snap;
                        }
                        r
                    };
                    report.extend(word(r.ok as u128));
                    report.extend(word(r.data.len() as u128));
                    report.extend(&r.data);
                }
                Action::SelfDestruct { to } => {
                    if f.is_static {
                        self.labels.insert("static_write_blocked");
                        return exception;
                    }
                    let t = match to {
                        Benef::Account(i) => self.accounts[*i as usize % self.accounts.len()],
                        Benef::Contract(i) => self.addrs[*i as usize % n],
                    };
                    let b = self.bal(&f.this);
                    self.transfer(&f.this.clone(), &t, b);
                    self.st.destroyed_now.insert(f.this);
                    self.labels.insert("selfdestruct");
                    return FrameResult { ok: true, data: vec![] };
                }
            }
        }
        match node.end {
            End::Return => FrameResult { ok: true, data: report },
            End::Revert => FrameResult { ok: false, data: report },
            End::Invalid => exception,
        }
    }

    fn is_ancestor_reentry(&self, _t: &Addr, _f: &Frame) -> bool {
        false
    }
}

// ------------------------------------------------------------------ runner

pub struct SysOutcome {
    pub labels: BTreeSet<&'static str>,
    pub depth: usize,
}

fn effective_events(t: &Trace, out: &mut Vec<(ActorID, Vec<u8>)>) {
    if !t.ok() {
        return;
    }
    // events of this invocation precede those of later sub-calls only approximately; we compare
    // as multisets per emitter
    for e in &t.events {
        if let Some(en) = e.entries.iter().find(|x| x.key == "t1") {
            out.push((t.to_id.unwrap_or(0), en.value.clone()));
        }
    }
    for s in &t.subs {
        effective_events(s, out);
    }
}

pub fn run_script(sc: &Script, stats: &mut CaseStats) -> VResult<SysOutcome> {
    run_script_with(sc, stats, None)
}

pub fn run_script_with(sc: &Script, stats: &mut CaseStats, mut reg: Option<&mut crate::engines::c20_identity::Registry>) -> VResult<SysOutcome> {
    let ew = EvmWorld::new();
    if let Some(r) = reg.as_deref_mut() {
        r.observe(&ew.w, stats)?;
    }
    let n = (sc.n_contracts as usize).clamp(2, 4);
    // accounts that receive funds
    let acct_ids: Vec<ActorID> = (0..2).map(|i| ew.w.account(200 + i, &TokenAmount::from_atto(1))).collect();
    let accounts: Vec<Addr> = acct_ids.iter().map(|i| id_addr(*i)).collect();
    // predict the contracts' addresses: CreateExternal from a native account uses keccak(key address)[12..] and the message nonce
    let key: fil_actor_account::State = ew.w.v.get_state(ew.user).unwrap();
    let stable: Addr = keccak(&key.address.to_bytes())[12..].try_into().unwrap();
    let nonce0 = ew.w.v.actor(ew.user).unwrap().sequence;
    let addrs: Vec<Addr> = (0..n).map(|i| rlp_create(&stable, nonce0 + i as u64)).collect();
    // compile
    let mut comp = Compiler { addrs: &addrs, accounts: &accounts, blocks: vec![vec![]; n] };
    let mut roots: Vec<(usize, usize)> = vec![];
    for m in &sc.messages {
        let c = m.root as usize % n;
        let b = comp.node(c, &m.node);
        roots.push((c, b));
    }
    let mut ids: Vec<ActorID> = vec![];
    for c in 0..n {
        let code = comp.contract(c);
        if code.len() > (24 << 10) {
            stats.label("contract_too_large");
            return Ok(SysOutcome { labels: BTreeSet::new(), depth: 0 });
        }
        let d = match ew.deploy(&code) {
            Ok(d) => d,
            Err(r) => vfail!("deploy-failed", "deploying script contract {} failed: {}", c, r.message),
        };
        vassert!(d.eth == addrs[c], "create-external-address", "CreateExternal gave address {} but the CREATE formula over (keccak(key address)[12..], message nonce) gives {}", hex::encode(d.eth), hex::encode(addrs[c]));
        ids.push(d.id);
    }
    let mut model = Model { st: MState::default(), addrs: &addrs, accounts: &accounts, labels: BTreeSet::new(), depth_max: 0 };
    for c in 0..n {
        model.st.code.insert(addrs[c], Code::Script(c));
        model.st.nonce.insert(addrs[c], 1);
        let fund = sc.prefund.get(c).copied().unwrap_or(0) as u128 * WEI as u128;
        if fund > 0 {
            let r = ew.w.v.execute(ew.w.faucet, &Address::new_id(ids[c]), &TokenAmount::from_atto(fund), 0, None);
            assert!(r.ok());
            model.st.balance.insert(addrs[c], fund);
        }
    }
    // a second user whose message nonces coincide with the first user's
    let user2 = ew.w.account(78, &TokenAmount::from_whole(1000));
    while ew.w.v.actor(user2).unwrap().sequence < ew.w.v.actor(ew.user).unwrap().sequence {
        let r = ew.w.v.execute(user2, &Address::new_id(ew.w.faucet), &TokenAmount::zero(), 0, None);
        assert!(r.ok());
    }
    for (mi, m) in sc.messages.iter().enumerate() {
        let sender = if m.sender { user2 } else { ew.user };
        let user_addr = id_addr(sender);
        let (c, b) = roots[mi];
        let v = m.value as u128 * WEI as u128;
        let snap = model.st.clone();
        // top-level transfer
        *model.st.balance.entry(addrs[c]).or_default() += v;
        let fr = Frame { this: addrs[c], caller: user_addr, value: v, is_static: false };
        let exp = model.call_addr(fr, &addrs[c].clone(), Some(&m.node), 0, 1);
        if !exp.ok {
            model.st = snap;
        } else {
            // end of message: destroyed contracts die, transient storage is dropped
            let gone: Vec<Addr> = model.st.destroyed_now.iter().copied().collect();
            for a in gone {
                model.st.dead.insert(a);
                model.st.storage.remove(&a);
            }
            model.st.destroyed_now.clear();
        }
        model.st.transient.clear();
        let logs_expected: Vec<(Addr, u8)> = if exp.ok { std::mem::take(&mut model.st.logs) } else { vec![] };
        model.st.logs.clear();

        let (got, res) = ew.invoke(sender, ids[c], &[b as u8], &TokenAmount::from_atto(v));
        stats.say(|| format!("message {mi}: root contract {c} block {b} value {v}: implementation {:?}; model ok={} data {}\n{}", got, exp.ok, hex::encode(&exp.data), res.trace.short()));
        if ew.exhausted() {
            stats.label("out_of_fuel_discarded");
            return Ok(SysOutcome { labels: model.labels, depth: model.depth_max });
        }
        let expected = if exp.ok {
            CallOutcome::Return(exp.data.clone())
        } else if model_reverted_normally(&m.node) {
            CallOutcome::Revert(exp.data.clone())
        } else {
            CallOutcome::Failure(0)
        };
        match (&expected, &got) {
            (CallOutcome::Return(a), CallOutcome::Return(b)) => vassert!(a == b, "report-differs", "message {}: contracts report {} but the journal model expects {}", mi, hex::encode(b), hex::encode(a)),
            (CallOutcome::Revert(a), CallOutcome::Revert(b)) => vassert!(a == b, "revert-data-differs", "message {}: revert data {} expected {}", mi, hex::encode(b), hex::encode(a)),
            (CallOutcome::Failure(_), CallOutcome::Failure(_)) => {}
            (CallOutcome::Failure(_), CallOutcome::Revert(_)) | (CallOutcome::Revert(_), CallOutcome::Failure(_)) => {
                // the model does not distinguish a revert whose data is empty from an exceptional halt at top level
                stats.label("toplevel_failure_kind_not_compared");
            }
            (a, b) => vfail!("outcome-differs", "message {}: expected {:?} got {:?}", mi, a, b),
        }
        // state after the message
        let mut all: Vec<(Addr, Option<ActorID>)> = addrs.iter().copied().zip(ids.iter().map(|i| Some(*i))).collect();
        for a in &model.st.created_ever {
            let id = ew.w.v.resolve(&Address::new_delegated(fil_actors_runtime::EAM_ACTOR_ID, a).unwrap());
            vassert!(id.is_some(), "created-contract-missing", "model says {} was created but no actor has that address", hex::encode(a));
            all.push((*a, id));
        }
        for (a, id) in &all {
            let id = id.unwrap();
            for k in 0u8..3 {
                let want = if model.st.dead.contains(a) { 0 } else { model.st.storage.get(a).and_then(|m| m.get(&k)).copied().unwrap_or(0) };
                let have = ew.storage_at(id, &U::from(k));
                vassert!(have == U::from(want), "storage-differs", "after message {} contract {} slot {} holds {} but the model says {}", mi, hex::encode(a), k, have, want);
            }
            let bal = ew.w.v.balance(id);
            vassert!(bal.atto() == &num_bigint_from(model.bal(a)), "balance-differs", "after message {} contract {} holds {} but the model says {}", mi, hex::encode(a), bal, model.bal(a));
            let r = ew.w.call_raw(ew.user, id, evm::Method::GetBytecode as u64, &TokenAmount::zero(), None);
            vassert!(r.ok(), "get-bytecode-failed", "GetBytecode failed");
            let bc: evm::BytecodeReturn = r.de().unwrap();
            let dead = model.st.dead.contains(a);
            vassert!(bc.code.is_none() == dead, "liveness-differs", "after message {} contract {} bytecode present={} but model dead={}", mi, hex::encode(a), bc.code.is_some(), dead);
        }
        for (i, a) in accounts.iter().enumerate() {
            let bal = ew.w.v.balance(acct_ids[i]);
            vassert!(bal.atto() == &num_bigint_from(model.bal(a) + 1), "beneficiary-balance", "account {} holds {} model {}", i, bal, model.bal(a) + 1);
        }
        // events
        let mut got_events = vec![];
        if res.ok() {
            effective_events(&res.trace, &mut got_events);
        }
        let mut want_events: Vec<(ActorID, Vec<u8>)> = vec![];
        for (a, t) in &logs_expected {
            let id = all.iter().find(|(x, _)| x == a).and_then(|(_, i)| *i).unwrap_or(0);
            want_events.push((id, evm_topic_bytes(*t)));
        }
        if let Some(r) = reg.as_deref_mut() {
            r.observe(&ew.w, stats)?;
        }
        got_events.sort();
        want_events.sort();
        vassert!(got_events == want_events, "events-differ", "after message {} events {:?} expected {:?}", mi, got_events, want_events);
    }
    Ok(SysOutcome { labels: model.labels, depth: model.depth_max })
}

fn model_reverted_normally(node: &Node) -> bool {
    node.end == End::Revert
}

fn evm_topic_bytes(t: u8) -> Vec<u8> {
    // the topic is the 32-byte big-endian word
    let mut w = vec![0u8; 32];
    w[31] = t;
    w
}

fn num_bigint_from(v: u128) -> fvm_shared::bigint::BigInt {
    fvm_shared::bigint::BigInt::from(v)
}

pub struct C19;

impl Engine for C19 {
    type Case = Script;
    fn id(&self) -> &'static str {
        "C19"
    }
    fn budget(&self, tier: Tier) -> (u32, u32) {
        match tier {
            Tier::Quick => (16, 4000),
            Tier::Thorough => (16, 25000),
        }
    }
    fn strategy(&self, tier: Tier) -> BoxedStrategy<Script> {
        script_strategy(if tier == Tier::Quick { 4 } else { 5 }).boxed()
    }
    fn rule(&self) -> String {
        "case = 2–4 script contracts + a sequence of 1–3/4 top-level messages; each message is a generated tree of activations (CALL/STATICCALL/DELEGATECALL to any contract incl. ancestors, with value) whose blocks SSTORE/TSTORE constants, report SLOAD/TLOAD values, LOG, call accounts, CREATE/CREATE2 probe contracts (constructor may store, revert, fail or self-destruct), call the contract just created, SELFDESTRUCT to an account/contract, and end with RETURN, REVERT or INVALID; the harness compiles the tree to bytecode (one block per activation), runs it on the real actors and compares the nested report buffers (success flags, return data, read values), final storage, balances, code liveness and events with an independent journal model. non-trivial = call depth ≥2 with an inner failure tolerated by its caller or a re-entrant/delegate call or a self-destruct; distinct by case hash".into()
    }
    fn assumptions(&self) -> Vec<String> {
        vec![
            "the journal model (harness/src/engines/evmsys.rs) encodes Ethereum call/revert/transient/selfdestruct semantics as stated in the property; it shares no code with the actors".into(),
            "contract addresses are predicted with the harness's own RLP/Keccak CREATE/CREATE2 formulas".into(),
            "fuel/memory cap via verif-hooks; exhausted cases are discarded".into(),
            "a top-level revert with empty data is not distinguished from an exceptional halt".into(),
        ]
    }
    fn required_labels(&self) -> Vec<(&'static str, f64)> {
        vec![("inner_failure_tolerated", 0.2), ("delegatecall", 0.1), ("static_write_blocked", 0.05), ("created", 0.1), ("selfdestruct", 0.05)]
    }
    fn run(&self, case: &Script, stats: &mut CaseStats) -> VResult {
        let out = run_script(case, stats)?;
        for l in &out.labels {
            stats.label(l);
        }
        stats.nontrivial = out.depth >= 2 && (out.labels.contains("inner_failure_tolerated") || out.labels.contains("delegatecall") || out.labels.contains("selfdestruct") || out.labels.contains("reentrant"));
        Ok(())
    }
}
