//! Engine wrappers: C06 (escrow), C07 (payments, schedule independence), C08 (lifecycle).

use super::model::*;
use super::*;

pub struct C06;
pub struct C07;
pub struct C08;

fn history_case(focus: Focus, max_ops: usize) -> BoxedStrategy<Case> {
    proptest::collection::vec(op_strategy(focus), 0..max_ops).prop_map(|ops| Case { ops }).boxed()
}

impl Engine for C06 {
    type Case = Case;
    fn id(&self) -> &'static str {
        "C06"
    }
    fn budget(&self, tier: Tier) -> (u32, u32) {
        match tier {
            Tier::Quick => (16, 250),
            Tier::Thorough => (16, 5000),
        }
    }
    fn strategy(&self, tier: Tier) -> BoxedStrategy<Case> {
        history_case(Focus::Escrow, if tier == Tier::Quick { 40 } else { 60 })
    }
    fn rule(&self) -> String {
        "case = funding prefix + ≤40/60 generated market operations over 3 clients, 2 real miners (owner/worker), a stranger: deposits for any party, withdrawals of any amount by any caller for any party, publish batches (valid, duplicate, unfunded, bad signature, foreign provider), activation by both paths, partial/repeated settlements, terminations, market cron ticks, epoch jumps to deal boundaries; after every message locked==Σ obligations, locked≤escrow, totals, solvency, burnt amounts, exact withdrawal. non-trivial = ≥2 deals sharing a party were published and a withdrawal happened while funds were locked after a partial settlement or termination; distinct by case hash".into()
    }
    fn assumptions(&self) -> Vec<String> {
        market_assumptions()
    }
    fn required_labels(&self) -> Vec<(&'static str, f64)> {
        vec![("published", 0.6), ("activated", 0.2), ("withdraw_with_locked_funds", 0.2), ("partial_settlement", 0.03), ("terminated", 0.03)]
    }
    fn run(&self, case: &Case, stats: &mut CaseStats) -> VResult {
        let s = run_history(&case.ops, stats, true)?;
        let l = &stats.labels;
        stats.nontrivial = s.history.len() >= 2
            && l.contains("withdraw_with_locked_funds")
            && (l.contains("partial_settlement") || l.contains("terminated") || l.contains("timeout_by_settle") || l.contains("timeout_by_cron"));
        Ok(())
    }
}

impl Engine for C08 {
    type Case = Case;
    fn id(&self) -> &'static str {
        "C08"
    }
    fn budget(&self, tier: Tier) -> (u32, u32) {
        match tier {
            Tier::Quick => (16, 250),
            Tier::Thorough => (16, 5000),
        }
    }
    fn strategy(&self, tier: Tier) -> BoxedStrategy<Case> {
        history_case(Focus::Lifecycle, if tier == Tier::Quick { 40 } else { 60 })
    }
    fn rule(&self) -> String {
        "case = funding prefix + ≤40/60 market operations biased to publication and activation: batches with exact re-publications, in-batch duplicates, bad/foreign signatures, unfunded parties, foreign providers, robust/ID provider address forms; activation through BatchActivateDeals and SectorContentChanged with repeated ids, foreign miner, sector expiry before deal end, after the start epoch, wrong piece; cron and settlement racing the start epoch. Oracle: registry model (pending set, id counter, per-deal activation record, refund/burn on time-out). non-trivial = a duplicate or otherwise forbidden attempt was made on a deal that was accepted at another point of the history, or a time-out occurred; distinct by case hash".into()
    }
    fn assumptions(&self) -> Vec<String> {
        market_assumptions()
    }
    fn required_labels(&self) -> Vec<(&'static str, f64)> {
        vec![("published", 0.6), ("activated", 0.25), ("activation_rejected", 0.2), ("duplicate_rejected_expected", 0.05)]
    }
    fn run(&self, case: &Case, stats: &mut CaseStats) -> VResult {
        run_history(&case.ops, stats, true)?;
        let l = &stats.labels;
        stats.nontrivial = l.contains("published")
            && ((l.contains("activated") && l.contains("activation_rejected"))
                || l.contains("duplicate_rejected_expected")
                || l.contains("timeout_by_cron")
                || l.contains("timeout_by_settle"));
        Ok(())
    }
}

fn market_assumptions() -> Vec<String> {
    vec![
        "actors run natively on SimVM; the market is addressed as the (real) miner actors by implicit messages for activation/termination, which those methods allow because they validate only the caller's type".into(),
        "client signatures are faked but bound to the signer's key address".into(),
        "sparse time regime: epochs jump; market.CronTick is invoked as the cron actor at generator-chosen epochs".into(),
        "an implementation stricter than the model (rejecting what the protocol allows) is labelled, not reported".into(),
    ]
}

// ------------------------------------------------------------------ C07

#[derive(Clone, Debug, Serialize, Deserialize)]
pub enum SchedOp {
    /// settle at start + frac*(duration) + delta, with frac in 1/16ths (can be <0 or >16)
    SettleAt { sixteenth: i8, delta: i8 },
    CronAt { sixteenth: i8, delta: i8 },
    /// cron exactly at the deal's processing epoch + delta
    CronAtProc { delta: i8 },
}

#[derive(Clone, Debug, Serialize, Deserialize)]
pub struct C07Case {
    pub spec: DealSpec,
    /// bystander deals of the same provider: (spec, sector 0..3, published before the main deal?)
    pub companions: Vec<(DealSpec, u8, bool)>,
    pub activate_in: i32,
    pub activate: bool,
    /// termination point (same for all schedules): sixteenths of the duration from start, + delta
    pub terminate: Option<(i8, i8)>,
    pub schedules: Vec<Vec<SchedOp>>,
}

fn sched_op() -> impl Strategy<Value = SchedOp> {
    prop_oneof![
        6 => (prop_oneof![Just(-1i8), Just(0i8), 1i8..16, Just(16i8), Just(17i8)], -1i8..2).prop_map(|(sixteenth, delta)| SchedOp::SettleAt { sixteenth, delta }),
        1 => (0i8..18, -1i8..2).prop_map(|(sixteenth, delta)| SchedOp::CronAt { sixteenth, delta }),
        1 => (-1i8..2).prop_map(|delta| SchedOp::CronAtProc { delta }),
    ]
}

impl Engine for C07 {
    type Case = C07Case;
    fn id(&self) -> &'static str {
        "C07"
    }
    fn budget(&self, tier: Tier) -> (u32, u32) {
        match tier {
            Tier::Quick => (16, 120),
            Tier::Thorough => (16, 2500),
        }
    }
    fn strategy(&self, _tier: Tier) -> BoxedStrategy<C07Case> {
        let sane = |mut s: DealSpec| {
            s.sig = SigKind::Good;
            s.dup_of = None;
            s.provider = 0;
            s.start_in = s.start_in.max(3);
            s.dur_extra = s.dur_extra.max(0);
            if s.price_nano == u32::MAX {
                s.price_nano = 1_000_000;
            }
            if s.pcoll_kind == 1 {
                s.pcoll_kind = 0;
            }
            s
        };
        (
            deal_spec(30).prop_map(|mut s| {
                s.sig = SigKind::Good;
                s.dup_of = None;
                s.provider = 0;
                s.start_in = s.start_in.max(3);
                s.dur_extra = s.dur_extra.max(0);
                if s.price_nano == u32::MAX {
                    s.price_nano = 1_000_000;
                }
                if s.pcoll_kind == 1 {
                    s.pcoll_kind = 0;
                }
                s
            }),
            proptest::collection::vec((deal_spec(30).prop_map(sane), 0u8..3, any::<bool>()), 0..3),
            0i32..4,
            prop_oneof![9 => Just(true), 1 => Just(false)],
            prop_oneof![
                2 => Just(None),
                3 => (prop_oneof![Just(-1i8), Just(0i8), 1i8..16, Just(16i8), Just(17i8)], -1i8..2).prop_map(Some)
            ],
            proptest::collection::vec(proptest::collection::vec(sched_op(), 0..6), 2..4),
        )
            .prop_map(|(spec, companions, activate_in, activate, terminate, schedules)| C07Case { spec, companions, activate_in, activate, terminate, schedules })
            .boxed()
    }
    fn rule(&self) -> String {
        "case = one deal shape (start, duration ≥180 d, price incl. 0, collaterals) + an optional termination epoch relative to the deal's boundaries + 2–3 schedules of settlement calls and cron ticks (before start, at start, interior sixteenths ±1, at end, after end, at the cron processing epoch); every schedule runs on a fresh world with the same termination and is closed by a settlement after the end; oracle = closed form for provider credit / client refund / collateral burn + equality of final ledgers across schedules + exact per-call payments. non-trivial = ≥2 schedules differ in a settlement strictly inside (start,end) and the case has a termination or a settlement exactly on a boundary; distinct by case hash".into()
    }
    fn assumptions(&self) -> Vec<String> {
        market_assumptions()
    }
    fn required_labels(&self) -> Vec<(&'static str, f64)> {
        vec![("terminated_early", 0.15), ("interior_settlement", 0.5), ("completed", 0.2)]
    }
    fn run(&self, case: &C07Case, stats: &mut CaseStats) -> VResult {
        let mut finals: Vec<(BigInt, BigInt, BigInt, BigInt, BigInt)> = vec![];
        let mut interior_sets: Vec<Vec<i64>> = vec![];
        let mut boundary_hit = false;
        for (si, sched) in case.schedules.iter().enumerate() {
            let mut it = Interp::new(stats);
            let mut n = 0usize;
            for op in funding_prefix() {
                it.step(n, &op)?;
                n += 1;
            }
            let t0 = it.f.w.v.epoch();
            // publish by the miner's worker (callers index 5 = workers[0])
            it.exact = true;
            let mut batch: Vec<DealSpec> = vec![];
            let mut main = case.spec.clone();
            main.piece_seed = 200;
            let mut comp_sector: BTreeMap<u8, u8> = BTreeMap::new();
            for (k, (c, sec, before)) in case.companions.iter().enumerate() {
                if *before {
                    let mut c = c.clone();
                    c.piece_seed = 201 + k as u8;
                    comp_sector.insert(c.piece_seed, *sec);
                    batch.push(c);
                }
            }
            batch.push(main.clone());
            for (k, (c, sec, before)) in case.companions.iter().enumerate() {
                if !*before {
                    let mut c = c.clone();
                    c.piece_seed = 201 + k as u8;
                    comp_sector.insert(c.piece_seed, *sec);
                    batch.push(c);
                }
            }
            it.step(n, &Op::Publish { caller: 0, deals: batch })?;
            n += 1;
            let main_piece = fil_actors_runtime::test_utils::make_piece_cid(&[200, main.client, 1]);
            let id = match it.m.deals.values().find(|d| d.piece_cid == main_piece) {
                Some(d) => d.id,
                None => {
                    it.stats.label("deal_not_published");
                    return Ok(());
                }
            };
            let published: Vec<MDeal> = it.m.deals.values().cloned().collect();
            // sector of every published deal: main -> 1, companions -> their chosen sector
            let mut by_sector: BTreeMap<u8, Vec<u16>> = BTreeMap::new();
            for d in it.m.deals.values() {
                let sec = if d.id == id { 1 } else { comp_sector.get(&(201 + (d.id % 3) as u8)).copied().unwrap_or((d.id % 3) as u8) };
                by_sector.entry(sec).or_default().push(d.id as u16);
            }
            if it.m.deals.len() > 1 {
                it.stats.label("with_companion_deals");
            }
            let d = it.m.deals[&id].clone();
            let dur = d.end - d.start;
            let at = |sixteenth: i8, delta: i8| d.start + (dur * sixteenth as i64) / 16 + delta as i64;
            // timeline of events
            let mut events: Vec<(i64, u8, usize)> = vec![]; // (epoch, kind 0 activate 1 terminate 2 settle 3 cron, order)
            if case.activate {
                events.push((std::cmp::min(t0 + case.activate_in as i64, d.start), 0, 0));
            }
            let term_epoch = case.terminate.map(|(s, dl)| at(s, dl));
            if let (Some(t), true) = (term_epoch, case.activate) {
                events.push((t, 1, 0));
            }
            let mut interior = vec![];
            for (k, o) in sched.iter().enumerate() {
                match o {
                    SchedOp::SettleAt { sixteenth, delta } => {
                        let e = at(*sixteenth, *delta);
                        events.push((e, 2, k + 1));
                        if e > d.start && e < d.end {
                            interior.push(e);
                        }
                        if e == d.start || e == d.end || e == d.end - 1 || e == d.start + 1 {
                            boundary_hit = true;
                        }
                    }
                    SchedOp::CronAt { sixteenth, delta } => events.push((at(*sixteenth, *delta), 3, k + 1)),
                    SchedOp::CronAtProc { delta } => events.push((proc_epoch(id, d.start) + *delta as i64, 3, k + 1)),
                }
            }
            interior.sort();
            interior_sets.push(interior.clone());
            if !interior.is_empty() {
                it.stats.label("interior_settlement");
            }
            // closing settlement after the end (and after the processing epoch is irrelevant: settle handles time-outs)
            events.push((d.end + 1, 2, 1000));
            events.sort();
            for (e, kind, _) in events {
                if e < it.f.w.v.epoch() {
                    continue; // cannot go back in time (e.g. activation later than a pre-start settle)
                }
                it.f.w.v.set_epoch(e);
                let op = match kind {
                    0 => Op::Activate { miner: 0, scc: si % 2 == 1, sectors: by_sector.iter().map(|(s, ids)| SectorSpec { sector: *s, expiry_rel: 0, deals: ids.clone() }).collect(), wrong_piece: false },
                    1 => Op::Terminate { miner: 0, sectors: vec![0, 1, 2] },
                    2 => Op::Settle { caller: 7, deals: vec![id as u16] },
                    _ => Op::Cron,
                };
                it.step(n, &op)?;
                n += 1;
            }
            // close the bystanders as well (their ledgers must be identical across schedules too)
            let rest: Vec<u16> = it.m.deals.keys().map(|k| *k as u16).collect();
            if !rest.is_empty() {
                let far = it.m.deals.values().map(|d| d.end).max().unwrap() + 1;
                if far > it.f.w.v.epoch() {
                    it.f.w.v.set_epoch(far);
                }
                it.step(n, &Op::Settle { caller: 7, deals: rest })?;
            }
            // ---- closed form
            let h = it.m.history.get(&id).cloned().unwrap_or_default();
            vassert!(it.m.deals.is_empty(), "deal-not-closed", "deal still open after a settlement past its end");
            let all: Vec<(MDeal, DealHistory)> = published.iter().map(|d| (d.clone(), it.m.history.get(&d.id).cloned().unwrap_or_default())).collect();
            let mut paid_by_client: BTreeMap<ActorID, BigInt> = BTreeMap::new();
            let mut paid_total = BigInt::zero();
            let mut burnt_expected = BigInt::zero();
            for (dd, hh) in &all {
                let activated = hh.activations > 0;
                let t_eff = if activated { hh.terminated_at } else { None };
                let paid_expected = if !activated {
                    BigInt::zero()
                } else {
                    let upto = std::cmp::min(dd.end, t_eff.unwrap_or(i64::MAX));
                    &dd.price * std::cmp::max(0, upto - dd.start)
                };
                if !activated || t_eff.is_some() {
                    burnt_expected += &dd.pcoll;
                }
                vassert!(hh.paid == paid_expected, "total-payment", "deal {}: provider credited {} but price × epochs stored = {} (start {}, end {}, termination {:?})", dd.id, hh.paid, paid_expected, dd.start, dd.end, t_eff);
                *paid_by_client.entry(dd.client).or_default() += &paid_expected;
                paid_total += &paid_expected;
                if dd.id == id && t_eff.is_some() {
                    it.stats.label("terminated_early");
                }
                if dd.id != id && t_eff.is_none() && activated && term_epoch.is_some() {
                    it.stats.label("companion_outlived_termination");
                }
            }
            let provider_esc = it.m.esc(d.provider);
            let client_esc = it.m.esc(d.client);
            let p0 = BigInt::from(2_000_000u64) * BigInt::from(10u64.pow(15));
            let c0 = BigInt::from(5_000_000u64) * BigInt::from(10u64.pow(15));
            vassert!(provider_esc == &p0 + &paid_total - &burnt_expected, "provider-final-escrow", "provider escrow {} expected {}", provider_esc, &p0 + &paid_total - &burnt_expected);
            for (c, paid) in &paid_by_client {
                vassert!(it.m.esc(*c) == &c0 - paid, "client-final-escrow", "client {} escrow {} expected {}", c, it.m.esc(*c), &c0 - paid);
                vassert!(it.m.lck(*c).is_zero(), "locked-after-close", "client funds still locked after the deals closed");
            }
            vassert!(it.m.lck(d.provider).is_zero(), "locked-after-close", "provider funds still locked after the deals closed");
            vassert!(it.m.burnt == burnt_expected, "burnt-total", "burnt {} expected {}", it.m.burnt, burnt_expected);
            // (the model ledger equals the actor's tables: checked by compare() after every step)
            finals.push((provider_esc, client_esc, it.m.lck(d.client), it.m.lck(d.provider), it.m.burnt.clone()));
        }
        // metamorphic: identical finals across schedules
        for w in finals.windows(2) {
            vassert!(w[0] == w[1], "schedule-dependence", "final ledgers differ between schedules: {:?} vs {:?}", w[0], w[1]);
        }
        let differ = interior_sets.windows(2).any(|w| w[0] != w[1]);
        stats.nontrivial = differ && (case.terminate.is_some() || boundary_hit);
        Ok(())
    }
}
