//! Market engine (sparse regime) shared by C06, C07 and C08 (DESIGN §3).

pub mod model;

use crate::common::*;
use crate::simvm::{MsgResult, sign};
use crate::world::*;
use crate::{vassert, vfail};
use cid::Cid;
use fil_actor_market as mk;
use fil_actor_market::balance_table::BalanceTable;
use fil_actors_runtime::runtime::Policy;
use fil_actors_runtime::test_utils::make_piece_cid;
use fil_actors_runtime::{
    BURNT_FUNDS_ACTOR_ID, CRON_ACTOR_ID, STORAGE_MARKET_ACTOR_ID, STORAGE_POWER_ACTOR_ID,
};
use fvm_ipld_bitfield::BitField;
use fvm_ipld_encoding::RawBytes;
use fvm_shared::address::Address;
use fvm_shared::bigint::{BigInt, Integer};
use fvm_shared::crypto::signature::{Signature, SignatureType};
use fvm_shared::econ::TokenAmount;
use fvm_shared::piece::PaddedPieceSize;
use fvm_shared::sector::{RegisteredPoStProof, RegisteredSealProof};
use fvm_shared::{ActorID, METHOD_SEND};
use model::*;
use num_traits::{Signed, Zero};
use proptest::prelude::*;
use serde::{Deserialize, Serialize};
use std::collections::{BTreeMap, BTreeSet};

pub const DAY: i64 = 2880;
pub const MIN_DUR: i64 = 180 * DAY;
pub const MAX_DUR: i64 = 1278 * DAY;

#[derive(Clone, Debug, Serialize, Deserialize)]
pub enum SigKind {
    Good,
    WrongSigner,
    Garbage,
}

#[derive(Clone, Debug, Serialize, Deserialize)]
pub struct DealSpec {
    pub client: u8,
    pub provider: u8,
    /// epochs from now to start
    pub start_in: i32,
    /// duration = MIN_DUR + extra (negative => too short)
    pub dur_extra: i32,
    /// price per epoch in nano-FIL units (0 allowed); u32::MAX = over the limit
    pub price_nano: u32,
    /// provider collateral: 0 = exactly min, 1 = min-1, 2.. = min + k milli-FIL
    pub pcoll_kind: u16,
    pub ccoll_milli: u16,
    pub sig: SigKind,
    /// re-publish an identical copy of an earlier proposal of this history
    pub dup_of: Option<u16>,
    pub piece_seed: u8,
    pub size_log: u8,
    pub robust_provider_addr: bool,
}

#[derive(Clone, Debug, Serialize, Deserialize)]
pub struct SectorSpec {
    pub sector: u8,
    /// sector expiry relative to the max deal end among the listed deals
    pub expiry_rel: i8,
    pub deals: Vec<u16>,
}

#[derive(Clone, Debug, Serialize, Deserialize)]
pub enum Whence {
    Start,
    End,
    Proc,
}

#[derive(Clone, Debug, Serialize, Deserialize)]
pub enum Op {
    AddBalance { from: u8, party: u8, milli: u32 },
    /// amount: per-mille of the available balance (can exceed 1000)
    Withdraw { caller: u8, party: u8, pm: u16, negative: bool },
    Publish { caller: u8, deals: Vec<DealSpec> },
    Activate { miner: u8, scc: bool, sectors: Vec<SectorSpec>, wrong_piece: bool },
    Settle { caller: u8, deals: Vec<u16> },
    Terminate { miner: u8, sectors: Vec<u8> },
    Cron,
    Advance { epochs: u32 },
    AdvanceTo { deal: u16, whence: Whence, delta: i8 },
}

#[derive(Clone, Debug, Serialize, Deserialize)]
pub struct Case {
    pub ops: Vec<Op>,
}

pub struct Fixture {
    pub w: World,
    pub clients: Vec<ActorID>,
    pub miners: Vec<ActorID>,
    pub miner_robust: Vec<Address>,
    pub owners: Vec<ActorID>,
    pub workers: Vec<ActorID>,
    pub stranger: ActorID,
    pub min_pcoll_per_byte_num: BigInt,
    pub min_pcoll_den: BigInt,
    pub circ: BigInt,
}

/// All parties a market operation can name: clients, miners, owners, workers, stranger.
impl Fixture {
    pub fn new() -> Fixture {
        let w = World::new(Policy::default());
        w.v.set_epoch(10);
        let clients: Vec<ActorID> = (0..3).map(|i| w.account(10 + i, &TokenAmount::from_whole(100_000))).collect();
        let owners: Vec<ActorID> = (0..2).map(|i| w.account(20 + i, &TokenAmount::from_whole(100_000))).collect();
        let workers: Vec<ActorID> = (0..2).map(|i| w.account(30 + i, &TokenAmount::from_whole(1_000))).collect();
        let stranger = w.account(40, &TokenAmount::from_whole(1_000));
        let mut miners = vec![];
        let mut miner_robust = vec![];
        for i in 0..2 {
            let (id, robust) = w
                .create_miner(owners[i], workers[i], RegisteredPoStProof::StackedDRGWindow32GiBV1P1, &TokenAmount::from_whole(1000))
                .unwrap_or_else(|r| panic!("create miner: {}", r.message));
            miners.push(id);
            miner_robust.push(robust);
        }
        // minimum provider collateral = floor(size * circ * 1 / (max(raw, baseline, size) * 100))
        let reward: fil_actor_reward::State = w.v.get_state(fil_actors_runtime::REWARD_ACTOR_ID).unwrap();
        let power: fil_actor_power::State = w.v.get_state(STORAGE_POWER_ACTOR_ID).unwrap();
        let denom_power = std::cmp::max(reward.this_epoch_baseline_power.clone(), power.this_epoch_raw_byte_power.clone());
        let circ = w.v.circ_supply.borrow().atto().clone();
        Fixture {
            w,
            clients,
            miners,
            miner_robust,
            owners,
            workers,
            stranger,
            min_pcoll_per_byte_num: circ.clone(),
            min_pcoll_den: denom_power * 100,
            circ,
        }
    }
    pub fn min_pcoll(&self, size: u64) -> BigInt {
        // deal sizes used here are far below the baseline power, so max(raw, baseline, size) = baseline
        (BigInt::from(size) * &self.min_pcoll_per_byte_num).div_floor(&self.min_pcoll_den)
    }
    pub fn parties(&self) -> Vec<ActorID> {
        let mut v = self.clients.clone();
        v.extend(&self.miners);
        v.extend(&self.owners);
        v.extend(&self.workers);
        v.push(self.stranger);
        v
    }
    pub fn callers(&self) -> Vec<ActorID> {
        let mut v = self.clients.clone();
        v.extend(&self.owners);
        v.extend(&self.workers);
        v.push(self.stranger);
        v
    }
    pub fn key_of(&self, id: ActorID) -> Address {
        let st: fil_actor_account::State = self.w.v.get_state(id).unwrap();
        st.address
    }
    pub fn market_state(&self) -> mk::State {
        self.w.v.get_state(STORAGE_MARKET_ACTOR_ID).unwrap()
    }
}

pub fn proposal_cid(p: &mk::DealProposal) -> Cid {
    let data = fvm_ipld_encoding::to_vec(p).unwrap();
    let h = blake2b_simd::Params::new().hash_length(32).hash(&data);
    Cid::new_v1(
        fvm_ipld_encoding::DAG_CBOR,
        multihash_codetable::Multihash::wrap(0xb220, h.as_bytes()).unwrap(),
    )
}

#[derive(Clone, Copy, PartialEq, Eq)]
pub enum Focus {
    Escrow,
    Payments,
    Lifecycle,
}

pub struct Interp<'a> {
    pub f: Fixture,
    pub m: Ledger,
    pub stats: &'a mut CaseStats,
    /// every proposal ever submitted (for exact re-publication)
    pub submitted: Vec<(mk::ClientDealProposal, Option<&'static str>)>,
    /// deal ids ever returned
    pub all_ids: Vec<u64>,
    pub activations: BTreeMap<u64, (ActorID, i64)>,
    pub burnt_seen: BigInt,
    pub abandon: bool,
    /// literal addressing of deals and sectors (used by C07's scripted timelines)
    pub exact: bool,
}

impl<'a> Interp<'a> {
    pub fn new(stats: &'a mut CaseStats) -> Self {
        Interp {
            f: Fixture::new(),
            m: Ledger::new(),
            stats,
            submitted: vec![],
            all_ids: vec![],
            activations: BTreeMap::new(),
            burnt_seen: BigInt::zero(),
            abandon: false,
            exact: false,
        }
    }

    /// biased pick: 3 of 4 selectors choose among the live deals satisfying `pred` (if any)
    fn deal_ref_pref(&self, r: u16, pred: &dyn Fn(&MDeal) -> bool) -> u64 {
        if self.exact {
            return r as u64;
        }
        if r % 4 != 0 {
            let c: Vec<u64> = self.m.deals.values().filter(|d| pred(d)).map(|d| d.id).collect();
            if !c.is_empty() {
                return c[pick(r, c.len())];
            }
        }
        self.deal_ref(r)
    }

    fn deal_ref(&self, r: u16) -> u64 {
        // mostly existing ids, sometimes one beyond
        let n = self.all_ids.len() + 1;
        let i = pick(r, n);
        if i < self.all_ids.len() { self.all_ids[i] } else { self.m.next_id + 1 }
    }

    pub fn step(&mut self, i: usize, op: &Op) -> VResult {
        let epoch = self.f.w.v.epoch();
        let zero = TokenAmount::zero();
        let burnt_before = self.f.w.v.balance(BURNT_FUNDS_ACTOR_ID);
        let total_before = self.f.w.v.total_balance();
        match op {
            Op::Advance { epochs } => {
                self.f.w.v.set_epoch(epoch + *epochs as i64);
                return Ok(());
            }
            Op::AdvanceTo { deal, whence, delta } => {
                let id = self.deal_ref_pref(*deal, &|_| true);
                if let Some(d) = self.m.deals.get(&id) {
                    let t = match whence {
                        Whence::Start => d.start,
                        Whence::End => d.end,
                        Whence::Proc => proc_epoch(id, d.start),
                    } + *delta as i64;
                    if t > epoch {
                        self.f.w.v.set_epoch(t);
                        self.stats.label("jump_to_deal_boundary");
                    }
                }
                return Ok(());
            }
            Op::AddBalance { from, party, milli } => {
                let callers = self.f.callers();
                let parties = self.f.parties();
                let from = callers[*from as usize % callers.len()];
                let party = parties[*party as usize % parties.len()];
                let value = TokenAmount::from_atto(BigInt::from(*milli) * BigInt::from(10u64.pow(15)));
                let r = self.f.w.call(from, STORAGE_MARKET_ACTOR_ID, mk::Method::AddBalance as u64, &value, &mk::AddBalanceParams { provider_or_client: Address::new_id(party) });
                self.stats.say(|| format!("op {i}: AddBalance {from}->{party} {value} -> {}", r.code.value()));
                if r.ok() {
                    vassert!(value.is_positive(), "add-balance-nonpositive", "AddBalance accepted value {}", value);
                    self.m.deposit(party, value.atto());
                } else if value.is_positive() {
                    self.stats.label("impl_stricter_than_model"); self.stats.label("stricter_site_1");
                }
            }
            Op::Withdraw { caller, party, pm, negative } => {
                let callers = self.f.callers();
                let parties = self.f.parties();
                let funded: Vec<ActorID> = self.m.escrow.keys().copied().collect();
                let party = if *party % 4 != 0 && !funded.is_empty() { funded[*party as usize % funded.len()] } else { parties[*party as usize % parties.len()] };
                let caller = match (*caller % 10, self.f.miners.iter().position(|m| *m == party)) {
                    (0..=5, Some(k)) => self.f.owners[k],
                    (6..=7, Some(k)) => self.f.workers[k],
                    (0..=7, None) if self.f.callers().contains(&party) => party,
                    (x, _) => callers[x as usize % callers.len()],
                };
                let avail = self.m.available(party);
                let mut amount = (&avail * BigInt::from(*pm)).div_floor(&BigInt::from(1000));
                if *pm > 1000 {
                    amount += BigInt::from(12345);
                }
                if *negative {
                    amount = -amount - BigInt::from(1);
                }
                // who may withdraw, and where the money goes (protocol rule)
                let (allowed, recipient): (Vec<ActorID>, ActorID) = match self.f.miners.iter().position(|m| *m == party) {
                    Some(k) => (vec![self.f.owners[k], self.f.workers[k]], self.f.owners[k]),
                    None => (vec![party], party),
                };
                let rec_before = self.f.w.v.balance(recipient);
                let r = self.f.w.call(caller, STORAGE_MARKET_ACTOR_ID, mk::Method::WithdrawBalance as u64, &zero, &mk::WithdrawBalanceParams { provider_or_client: Address::new_id(party), amount: TokenAmount::from_atto(amount.clone()) });
                self.stats.say(|| format!("op {i}: Withdraw caller {caller} party {party} amount {amount} (avail {avail}) -> {} {}", r.code.value(), r.message));
                if r.ok() {
                    vassert!(allowed.contains(&caller), "withdraw-by-foreign-caller", "caller {} withdrew funds of {}", caller, party);
                    vassert!(!amount.is_negative(), "withdraw-negative", "negative withdrawal accepted");
                    let expect = std::cmp::min(amount.clone(), avail.clone());
                    let ret: mk::WithdrawBalanceReturn = r.de().ok_or_else(|| Violation::new("withdraw-return", "undecodable return"))?;
                    vassert!(ret.amount_withdrawn.atto() == &expect, "withdraw-amount", "withdrew {} but escrow-locked allows {} (requested {})", ret.amount_withdrawn, expect, amount);
                    let sends: Vec<_> = r.trace.subs.iter().filter(|s| s.method == METHOD_SEND && s.ok()).collect();
                    vassert!(sends.len() == 1 && sends[0].to_id == Some(recipient) && sends[0].value.atto() == &expect, "withdraw-send", "withdrawal not paid exactly once to the party/owner");
                    let gained = self.f.w.v.balance(recipient).atto() - rec_before.atto();
                    vassert!(gained == expect || caller == recipient, "withdraw-recipient-balance", "recipient gained {} expected {}", gained, expect);
                    self.m.withdraw(party, &expect);
                    if !self.m.lck(party).is_zero() {
                        self.stats.label("withdraw_with_locked_funds");
                    }
                } else if allowed.contains(&caller) && !amount.is_negative() {
                    self.stats.label("impl_stricter_than_model"); self.stats.label("stricter_site_2");
                }
            }
            Op::Publish { caller, deals } => self.publish(i, *caller, deals)?,
            Op::Activate { miner, scc, sectors, wrong_piece } => self.activate(i, *miner, *scc, sectors, *wrong_piece)?,
            Op::Settle { caller, deals } => {
                let callers = self.f.callers();
                let caller = callers[*caller as usize % callers.len()];
                let mut ids: Vec<u64> = deals.iter().map(|d| self.deal_ref_pref(*d, &|x| matches!(x.st, DealSt::Active { .. }))).collect();
                ids.sort();
                ids.dedup();
                let mut bf = BitField::new();
                for id in &ids {
                    bf.set(*id);
                }
                let r = self.f.w.call(caller, STORAGE_MARKET_ACTOR_ID, mk::Method::SettleDealPaymentsExported as u64, &zero, &mk::SettleDealPaymentsParams { deal_ids: bf });
                self.stats.say(|| format!("op {i}: Settle {ids:?} at {epoch} -> {} {}", r.code.value(), r.message));
                if !r.ok() {
                    self.stats.label("impl_stricter_than_model"); self.stats.label("stricter_site_3");
                } else {
                    let ret: mk::SettleDealPaymentsReturn = r.de().ok_or_else(|| Violation::new("settle-return", "undecodable return"))?;
                    let codes = ret.results.codes();
                    vassert!(codes.len() == ids.len(), "settle-results-len", "results for {} of {} deals", codes.len(), ids.len());
                    let mut k = 0;
                    for (j, id) in ids.iter().enumerate() {
                        let ok = codes[j].is_success();
                        match self.m.deals.get(id).map(|d| d.st.clone()) {
                            None => {
                                vassert!(!ok, "settle-unknown-deal", "settlement of finished/unknown deal {} succeeded", id);
                            }
                            Some(DealSt::Published) => {
                                let start = self.m.deals[id].start;
                                if epoch < start {
                                    vassert!(ok, "removed-before-start", "deal {} not yet due was not left alone", id);
                                    let s = &ret.settlements[k];
                                    k += 1;
                                    vassert!(s.payment.is_zero() && !s.completed, "payment-before-activation", "deal {} paid {} before activation", id, s.payment);
                                } else {
                                    vassert!(!ok, "unactivated-deal-settled", "un-activated deal {} past start settled successfully", id);
                                    self.m.time_out(*id);
                                    self.stats.label("timeout_by_settle");
                                }
                            }
                            Some(DealSt::Active { last_paid, .. }) => {
                                vassert!(ok, "settle-active-failed", "settlement of active deal {} failed with {}", id, codes[j].value());
                                let (pay, done) = self.m.settle_active(*id, epoch);
                                let s = &ret.settlements[k];
                                k += 1;
                                vassert!(s.payment.atto() == &pay, "payment-amount", "deal {} settlement paid {} but exactly {} is due (epoch {}, last paid {})", id, s.payment, pay, epoch, last_paid);
                                vassert!(s.completed == done, "completed-flag", "deal {} completed={} expected {}", id, s.completed, done);
                                if pay.is_positive() && !done {
                                    self.stats.label("partial_settlement");
                                }
                                if done {
                                    self.stats.label("completed");
                                }
                            }
                        }
                    }
                }
            }
            Op::Terminate { miner, sectors } => {
                let k = *miner as usize % self.f.miners.len();
                let miner = self.f.miners[k];
                let mut bf = BitField::new();
                let with_deals: Vec<u64> = self.m.sector_deals.keys().filter(|(m, _)| *m == miner).map(|(_, s)| *s).collect();
                let mut secs: Vec<u64> = sectors
                    .iter()
                    .map(|s| if self.exact { *s as u64 } else if *s % 4 != 0 && !with_deals.is_empty() { with_deals[*s as usize % with_deals.len()] } else { (*s % 6) as u64 })
                    .collect();
                secs.sort();
                secs.dedup();
                for s in &secs {
                    bf.set(*s);
                }
                let r = self.f.w.call(miner, STORAGE_MARKET_ACTOR_ID, mk::Method::OnMinerSectorsTerminate as u64, &zero, &mk::OnMinerSectorsTerminateParams { epoch, sectors: bf });
                self.stats.say(|| format!("op {i}: Terminate miner {miner} sectors {secs:?} at {epoch} -> {} {}", r.code.value(), r.message));
                vassert!(r.ok(), "terminate-failed", "OnMinerSectorsTerminate failed: {}", r.message);
                for s in secs {
                    if let Some(ids) = self.m.sector_deals.remove(&(miner, s)) {
                        for id in ids {
                            if let Some(d) = self.m.deals.get(&id) {
                                if d.end <= epoch {
                                    self.stats.label("terminate_after_end");
                                    continue;
                                }
                                if matches!(d.st, DealSt::Active { last_paid, .. } if last_paid != -1) {
                                    self.stats.label("terminate_after_partial_settlement");
                                }
                                self.m.terminate(id, epoch);
                                self.stats.label("terminated");
                            }
                        }
                    }
                }
            }
            Op::Cron => {
                let r = self.f.w.call_raw(CRON_ACTOR_ID, STORAGE_MARKET_ACTOR_ID, mk::Method::CronTick as u64, &zero, None);
                self.stats.say(|| format!("op {i}: CronTick at {epoch} -> {} {}", r.code.value(), r.message));
                vassert!(r.ok(), "cron-failed", "market CronTick failed: {}", r.message);
                self.stats.label("cron");
                // actual presence of proposals (observe-and-follow for the processing epoch only)
                let st = self.f.market_state();
                let proposals = st.load_proposals(&*self.f.w.v.store).expect("proposals");
                let ids: Vec<u64> = self.m.deals.keys().copied().collect();
                let mut resched: Vec<(u64, i64)> = vec![];
                for id in ids {
                    let d = self.m.deals[&id].clone();
                    let due = matches!(d.sched, Some(s) if s > self.m.last_cron && s <= epoch);
                    match d.st {
                        DealSt::Published => {
                            let present = proposals.get(id).expect("get").is_some();
                            if epoch < d.start {
                                vassert!(present, "removed-before-start", "cron removed un-activated deal {} before its start epoch", id);
                            } else if !present {
                                self.m.time_out(id);
                                self.stats.label("timeout_by_cron");
                            } else {
                                vassert!(epoch < proc_epoch(id, d.start), "timeout-not-processed", "un-activated deal {} still present after a tick at {} >= its processing epoch", id, epoch);
                            }
                        }
                        DealSt::Active { last_paid, .. } => {
                            if !due {
                                continue;
                            }
                            if last_paid == -1 {
                                self.m.pending.remove(&d.cid);
                                self.m.deals.get_mut(&id).unwrap().sched = None;
                            } else {
                                let (_pay, done) = self.m.settle_active(id, epoch);
                                self.stats.label("cron_settled_legacy_path");
                                if !done {
                                    resched.push((id, proc_epoch(id, epoch + 1)));
                                }
                            }
                        }
                    }
                }
                for (id, e) in resched {
                    if let Some(d) = self.m.deals.get_mut(&id) {
                        d.sched = Some(e);
                    }
                }
                self.m.last_cron = epoch;
                // consensus runs the tick as the last thing of an epoch: no message follows it in the same epoch
                self.f.w.v.set_epoch(epoch + 1);
            }
        }
        if self.abandon {
            return Ok(());
        }
        // ---- invariants after every message
        let burnt_after = self.f.w.v.balance(BURNT_FUNDS_ACTOR_ID);
        self.burnt_seen += burnt_after.atto() - burnt_before.atto();
        vassert!(self.f.w.v.total_balance() == total_before, "conservation", "total FIL changed");
        self.compare()?;
        Ok(())
    }

    fn build_proposal(&mut self, spec: &DealSpec, epoch: i64) -> (mk::ClientDealProposal, Option<&'static str>) {
        if let Some(r) = spec.dup_of {
            if !self.submitted.is_empty() {
                let (p, why) = self.submitted[pick(r, self.submitted.len())].clone();
                // "start epoch elapsed" is re-evaluated by the caller against the current epoch
                let why = if why == Some("start epoch elapsed") { None } else { why };
                return (p, why);
            }
        }
        let f = &self.f;
        let client = f.clients[spec.client as usize % f.clients.len()];
        let pk = spec.provider as usize % f.miners.len();
        let size: u64 = 1u64 << (7 + (spec.size_log % 29) as u32); // 128 B .. 32 GiB
        let min = f.min_pcoll(size);
        let pcoll = match spec.pcoll_kind {
            0 => min.clone(),
            1 => &min - BigInt::from(1),
            k => &min + BigInt::from(k) * BigInt::from(10u64.pow(15)),
        };
        let price = if spec.price_nano == u32::MAX {
            BigInt::from(2_000_000_001u64) * BigInt::from(10u64.pow(18))
        } else {
            BigInt::from(spec.price_nano) * BigInt::from(10u64.pow(9))
        };
        let start = epoch + spec.start_in as i64;
        let dur = MIN_DUR + spec.dur_extra as i64;
        let proposal = mk::DealProposal {
            piece_cid: make_piece_cid(&[spec.piece_seed, spec.client, 1]),
            piece_size: PaddedPieceSize(size),
            verified_deal: false,
            client: Address::new_id(client),
            provider: if spec.robust_provider_addr { f.miner_robust[pk] } else { Address::new_id(f.miners[pk]) },
            label: mk::Label::String(format!("d{}", spec.piece_seed)),
            start_epoch: start,
            end_epoch: start + dur,
            storage_price_per_epoch: TokenAmount::from_atto(price.clone()),
            provider_collateral: TokenAmount::from_atto(pcoll.clone()),
            client_collateral: TokenAmount::from_atto(BigInt::from(spec.ccoll_milli) * BigInt::from(10u64.pow(15))),
        };
        let bytes = fvm_ipld_encoding::to_vec(&proposal).unwrap();
        let sig = match spec.sig {
            SigKind::Good => sign(&f.key_of(client), &bytes),
            SigKind::WrongSigner => sign(&f.key_of(f.stranger), &bytes),
            SigKind::Garbage => vec![1, 2, 3],
        };
        let mut why = None;
        if !matches!(spec.sig, SigKind::Good) {
            why = Some("client did not sign");
        } else if spec.start_in < 0 {
            why = Some("start epoch elapsed");
        } else if dur < MIN_DUR || dur > MAX_DUR {
            why = Some("duration out of bounds");
        } else if spec.price_nano == u32::MAX {
            why = Some("price out of bounds");
        } else if pcoll < min {
            why = Some("provider collateral below minimum");
        }
        (mk::ClientDealProposal { proposal, client_signature: Signature { sig_type: SignatureType::BLS, bytes: sig } }, why)
    }

    fn publish(&mut self, i: usize, caller: u8, specs: &[DealSpec]) -> VResult {
        let epoch = self.f.w.v.epoch();
        let callers = self.f.callers();
        let pk0 = specs.first().map(|s| s.provider as usize % self.f.miners.len()).unwrap_or(0);
        let caller = match caller % 12 {
            0..=5 => self.f.workers[pk0],
            6..=8 => self.f.owners[pk0],
            9 => self.f.workers[1 - pk0],
            x => callers[x as usize % callers.len()],
        };
        let mut batch: Vec<(mk::ClientDealProposal, Option<&'static str>)> = vec![];
        for s in specs {
            let (p, mut why) = self.build_proposal(s, epoch);
            if s.dup_of.is_some() && why.is_none() {
                // a re-submitted proposal: stateless validity depends on the current epoch only
                if epoch > p.proposal.start_epoch {
                    why = Some("start epoch elapsed");
                }
            }
            batch.push((p, why));
        }
        let params = mk::PublishStorageDealsParams { deals: batch.iter().map(|(p, _)| p.clone()).collect() };
        let r = self.f.w.call(caller, STORAGE_MARKET_ACTOR_ID, mk::Method::PublishStorageDeals as u64, &TokenAmount::zero(), &params);
        self.stats.say(|| format!("op {i}: Publish by {caller} {} deals at {epoch} -> {} {}", batch.len(), r.code.value(), r.message));
        for (p, why) in &batch {
            if self.submitted.len() < 64 {
                self.submitted.push((p.clone(), *why));
            }
        }
        // ---- model verdict
        let mut msg_reject: Option<&'static str> = None;
        let mut expected_valid: Vec<usize> = vec![];
        let mut dup_of_live: BTreeSet<usize> = BTreeSet::new();
        let mut new_deals: Vec<MDeal> = vec![];
        if batch.is_empty() {
            msg_reject = Some("empty batch");
        } else {
            let first_provider = batch[0].0.proposal.provider;
            let pid = self.f.w.v.resolve(&first_provider);
            let pk = pid.and_then(|p| self.f.miners.iter().position(|m| *m == p));
            match pk {
                None => msg_reject = Some("provider is not a miner"),
                Some(k) => {
                    let provider = self.f.miners[k];
                    if caller != self.f.owners[k] && caller != self.f.workers[k] {
                        msg_reject = Some("caller does not control the provider");
                    } else {
                        let mut client_lock: BTreeMap<ActorID, BigInt> = BTreeMap::new();
                        let mut provider_lock = BigInt::zero();
                        let mut seen: BTreeSet<Cid> = BTreeSet::new();
                        for (j, (cp, why)) in batch.iter().enumerate() {
                            if why.is_some() {
                                continue;
                            }
                            let p = &cp.proposal;
                            if p.provider != Address::new_id(provider) && p.provider != first_provider {
                                continue;
                            }
                            let client = p.client.id().unwrap();
                            let need_c = client_lock.get(&client).cloned().unwrap_or_default() + p.client_collateral.atto() + p.storage_price_per_epoch.atto() * (p.end_epoch - p.start_epoch);
                            if need_c > self.m.available(client) {
                                continue;
                            }
                            let need_p = &provider_lock + p.provider_collateral.atto();
                            if need_p > self.m.available(provider) {
                                continue;
                            }
                            let mut norm = p.clone();
                            norm.provider = Address::new_id(provider);
                            let cid = proposal_cid(&norm);
                            // an identical proposal whose deal is still alive (activated or not), or twice in this batch: must be
                            // rejected — the client's one signature authenticates one deal.  (A proposal can only be published
                            // before its start epoch, and until then the market has to remember it.)
                            let live = self.m.deals.values().any(|d| d.cid == cid);
                            if seen.contains(&cid) || live {
                                self.stats.label("duplicate_rejected_expected");
                                if self.m.deals.values().any(|d| d.cid == cid && d.st != DealSt::Published) {
                                    self.stats.label("republish_of_activated_deal");
                                }
                                dup_of_live.insert(j);
                                continue;
                            }
                            seen.insert(cid);
                            client_lock.insert(client, need_c);
                            provider_lock = need_p;
                            expected_valid.push(j);
                            new_deals.push(MDeal {
                                id: 0,
                                cid,
                                client,
                                provider,
                                start: p.start_epoch,
                                end: p.end_epoch,
                                price: p.storage_price_per_epoch.atto().clone(),
                                pcoll: p.provider_collateral.atto().clone(),
                                ccoll: p.client_collateral.atto().clone(),
                                piece_cid: p.piece_cid,
                                piece_size: p.piece_size.0,
                                st: DealSt::Published,
                                sched: None,
                                paid: BigInt::zero(),
                            });
                        }
                        if expected_valid.is_empty() {
                            msg_reject = Some("no valid deal in the batch");
                        }
                    }
                }
            }
        }
        if r.ok() {
            if let Some(why) = msg_reject {
                vfail!("publish-accepted", "PublishStorageDeals succeeded although: {}", why);
            }
            let ret: mk::PublishStorageDealsReturn = r.de().ok_or_else(|| Violation::new("publish-return", "undecodable return"))?;
            let actual_valid: Vec<usize> = ret.valid_deals.iter().map(|x| x as usize).collect();
            // every accepted deal must be one the protocol allows
            for j in &actual_valid {
                if !expected_valid.contains(j) {
                    let why = if dup_of_live.contains(j) { "it replays the signed proposal of a deal that is still alive" } else { batch[*j].1.unwrap_or("duplicate, foreign provider or insufficient unlocked escrow") };
                    vfail!("deal-accepted", "deal #{} of the batch was accepted although: {}", j, why);
                }
            }
            if actual_valid != expected_valid {
                self.stats.say(|| format!("   model expected {expected_valid:?} actual {actual_valid:?}"));
                self.stats.label("impl_stricter_than_model"); self.stats.label("stricter_site_4");
                // follow the implementation for the deals it dropped
                let keep: Vec<MDeal> = expected_valid.iter().zip(new_deals.into_iter()).filter(|(j, _)| actual_valid.contains(j)).map(|(_, d)| d).collect();
                new_deals = keep;
            }
            vassert!(ret.ids.len() == new_deals.len(), "ids-len", "returned {} ids for {} valid deals", ret.ids.len(), new_deals.len());
            for (d, id) in new_deals.into_iter().zip(ret.ids.iter()) {
                vassert!(*id == self.m.next_id, "deal-id-sequence", "deal id {} returned, next unused id is {}", id, self.m.next_id);
                vassert!(!self.all_ids.contains(id), "deal-id-reused", "deal id {} reused", id);
                self.m.publish(d);
                self.all_ids.push(*id);
                self.stats.label("published");
            }
            if batch.iter().any(|(_, w)| w.is_some()) || actual_valid.len() < batch.len() {
                self.stats.label("batch_with_invalid_deals");
            }
        } else if msg_reject.is_none() {
            self.stats.label("impl_stricter_than_model"); self.stats.label("stricter_site_5");
            self.stats.say(|| format!("   model expected acceptance of {expected_valid:?}"));
        }
        Ok(())
    }

    fn activate(&mut self, i: usize, miner: u8, scc: bool, sectors: &[SectorSpec], wrong_piece: bool) -> VResult {
        let epoch = self.f.w.v.epoch();
        let k = miner as usize % self.f.miners.len();
        let miner = self.f.miners[k];
        // resolve sector specs
        let mut secs: Vec<(u64, i64, Vec<u64>)> = vec![];
        for s in sectors {
            let mut ids: Vec<u64> = s.deals.iter().map(|d| self.deal_ref_pref(*d, &|x| x.st == DealSt::Published && x.provider == miner && x.start >= epoch)).collect();
            if s.sector % 4 != 3 {
                // mostly avoid naming one deal twice in a sector (kept as an adversarial variant)
                let mut seen = BTreeSet::new();
                ids.retain(|x| seen.insert(*x));
            }
            let max_end = ids.iter().filter_map(|id| self.m.deals.get(id).map(|d| d.end)).max().unwrap_or(epoch + MIN_DUR);
            secs.push((if self.exact { s.sector as u64 } else { (s.sector % 6) as u64 }, max_end + s.expiry_rel as i64, ids));
        }
        let mut activated_now: BTreeSet<u64> = BTreeSet::new();
        // protocol verdict for one deal
        let verdict = |m: &Ledger, id: u64, expiry: i64, done: &BTreeSet<u64>| -> Option<&'static str> {
            if done.contains(&id) {
                return Some("deal listed twice in the message");
            }
            let d = match m.deals.get(&id) {
                Some(d) => d,
                None => return Some("no such deal"),
            };
            if d.provider != miner {
                return Some("caller is not the deal's provider");
            }
            if epoch > d.start {
                return Some("start epoch has passed");
            }
            if d.end > expiry {
                return Some("sector expires before the deal ends");
            }
            if d.st != DealSt::Published {
                return Some("already activated");
            }
            None
        };
        if !scc {
            let params = mk::BatchActivateDealsParams {
                sectors: secs.iter().map(|(n, exp, ids)| mk::SectorDeals { sector_number: *n, sector_type: RegisteredSealProof::StackedDRG32GiBV1P1, sector_expiry: *exp, deal_ids: ids.clone() }).collect(),
                compute_cid: false,
            };
            let r = self.f.w.call(miner, STORAGE_MARKET_ACTOR_ID, mk::Method::BatchActivateDeals as u64, &TokenAmount::zero(), &params);
            self.stats.say(|| format!("op {i}: BatchActivate miner {miner} {secs:?} at {epoch} -> {} {}", r.code.value(), r.message));
            if !r.ok() {
                self.stats.label("impl_stricter_than_model"); self.stats.label("stricter_site_6");
                return Ok(());
            }
            let ret: mk::BatchActivateDealsResult = r.de().ok_or_else(|| Violation::new("activate-return", "undecodable return"))?;
            let codes = ret.activation_results.codes();
            vassert!(codes.len() == secs.len(), "activate-results-len", "{} results for {} sectors", codes.len(), secs.len());
            for (j, (n, exp, ids)) in secs.iter().enumerate() {
                let mut why = None;
                let mut sorted = ids.clone();
                sorted.sort();
                if sorted.windows(2).any(|w| w[0] == w[1]) {
                    why = Some("deal listed twice in the sector");
                }
                for id in ids {
                    if why.is_none() {
                        why = verdict(&self.m, *id, *exp, &activated_now);
                    }
                }
                if codes[j].is_success() {
                    if let Some(w) = why {
                        vfail!("activation-accepted", "sector {} with deals {:?} activated although: {}", n, ids, w);
                    }
                    for id in ids {
                        self.record_activation(*id, *n, epoch, miner)?;
                        activated_now.insert(*id);
                    }
                } else {
                    if why.is_none() {
                        self.stats.label("impl_stricter_than_model"); self.stats.label("stricter_site_7");
                    } else {
                        self.stats.label("activation_rejected");
                    }
                }
            }
        } else {
            let params = mk::ext::miner::SectorContentChangedParams {
                sectors: secs
                    .iter()
                    .map(|(n, exp, ids)| mk::ext::miner::SectorChanges {
                        sector: *n,
                        minimum_commitment_epoch: *exp,
                        added: ids
                            .iter()
                            .map(|id| {
                                let (data, size) = match self.m.deals.get(id) {
                                    Some(d) => (d.piece_cid, d.piece_size),
                                    None => (make_piece_cid(b"x"), 2048),
                                };
                                mk::ext::miner::PieceChange {
                                    data: if wrong_piece { make_piece_cid(b"wrong") } else { data },
                                    size: PaddedPieceSize(size),
                                    payload: RawBytes::serialize(id).unwrap(),
                                }
                            })
                            .collect(),
                    })
                    .collect(),
            };
            let r = self.f.w.call(miner, STORAGE_MARKET_ACTOR_ID, mk::Method::SectorContentChangedExported as u64, &TokenAmount::zero(), &params);
            self.stats.say(|| format!("op {i}: SectorContentChanged miner {miner} {secs:?} wrong_piece={wrong_piece} at {epoch} -> {} {}", r.code.value(), r.message));
            if !r.ok() {
                self.stats.label("impl_stricter_than_model"); self.stats.label("stricter_site_8");
                return Ok(());
            }
            let ret: mk::ext::miner::SectorContentChangedReturn = r.de().ok_or_else(|| Violation::new("scc-return", "undecodable return"))?;
            vassert!(ret.sectors.len() == secs.len(), "scc-results-len", "{} results for {} sectors", ret.sectors.len(), secs.len());
            for (j, (n, exp, ids)) in secs.iter().enumerate() {
                vassert!(ret.sectors[j].added.len() == ids.len(), "scc-piece-results-len", "piece results length");
                for (x, id) in ids.iter().enumerate() {
                    let mut why = verdict(&self.m, *id, *exp, &activated_now);
                    if why.is_none() && wrong_piece {
                        why = Some("piece does not match the deal");
                    }
                    if ret.sectors[j].added[x].accepted {
                        if let Some(w) = why {
                            vfail!("activation-accepted", "deal {} accepted into sector {} although: {}", id, n, w);
                        }
                        self.record_activation(*id, *n, epoch, miner)?;
                        activated_now.insert(*id);
                    } else if why.is_none() {
                        self.stats.label("impl_stricter_than_model"); self.stats.label("stricter_site_9");
                    } else {
                        self.stats.label("activation_rejected");
                    }
                }
            }
        }
        Ok(())
    }

    fn record_activation(&mut self, id: u64, sector: u64, epoch: i64, miner: ActorID) -> VResult {
        vassert!(!self.activations.contains_key(&id), "activated-twice", "deal {} activated twice", id);
        self.activations.insert(id, (miner, epoch));
        self.m.activate(id, sector, epoch);
        self.stats.label("activated");
        if self.m.deals[&id].start == epoch {
            self.stats.label("activated_at_start_epoch");
        }
        Ok(())
    }

    /// ledger equality + C06 invariants
    pub fn compare(&mut self) -> VResult {
        let st = self.f.market_state();
        let store = &*self.f.w.v.store;
        let escrow = BalanceTable::from_root(store, &st.escrow_table, "escrow").expect("escrow");
        let locked = BalanceTable::from_root(store, &st.locked_table, "locked").expect("locked");
        let mut a_esc: BTreeMap<ActorID, BigInt> = BTreeMap::new();
        let mut a_lck: BTreeMap<ActorID, BigInt> = BTreeMap::new();
        escrow.0.for_each(|k, v| {
            if !v.is_zero() {
                a_esc.insert(k.id().unwrap(), v.atto().clone());
            }
            Ok(())
        }).expect("iter");
        locked.0.for_each(|k, v| {
            if !v.is_zero() {
                a_lck.insert(k.id().unwrap(), v.atto().clone());
            }
            Ok(())
        }).expect("iter");
        let obligations = self.m.obligations();
        vassert!(a_lck == obligations, "locked-ne-obligations", "locked table {:?} != outstanding obligations {:?}", a_lck, obligations);
        for (p, l) in &a_lck {
            let e = a_esc.get(p).cloned().unwrap_or_default();
            vassert!(l <= &e, "locked-exceeds-escrow", "party {} locked {} > escrow {}", p, l, e);
        }
        vassert!(a_esc == self.m.escrow, "escrow-differs", "escrow table {:?} != model {:?}", a_esc, self.m.escrow);
        let (cc, pc, fee) = self.m.totals();
        vassert!(
            st.total_client_locked_collateral.atto() == &cc && st.total_provider_locked_collateral.atto() == &pc && st.total_client_storage_fee.atto() == &fee,
            "market-totals",
            "totals ({},{},{}) != sums over deals ({},{},{})",
            st.total_client_locked_collateral, st.total_provider_locked_collateral, st.total_client_storage_fee, cc, pc, fee
        );
        let esc_total: BigInt = a_esc.values().sum();
        let bal = self.f.w.v.balance(STORAGE_MARKET_ACTOR_ID);
        vassert!(&esc_total <= bal.atto(), "market-insolvent", "escrow total {} > market balance {}", esc_total, bal);
        vassert!(self.burnt_seen == self.m.burnt, "burnt-differs", "burnt so far {} != collateral forfeited per the rules {}", self.burnt_seen, self.m.burnt);
        // proposals present == model deals
        let proposals = st.load_proposals(store).expect("proposals");
        let mut ids = vec![];
        proposals.for_each(|k, _| {
            ids.push(k);
            Ok(())
        }).expect("iter");
        let model_ids: Vec<u64> = self.m.deals.keys().copied().collect();
        vassert!(ids == model_ids, "deal-set-differs", "proposals on chain {:?} != model {:?}", ids, model_ids);
        vassert!(st.next_id == self.m.next_id, "next-id", "next_id {} != {}", st.next_id, self.m.next_id);
        Ok(())
    }

    /// GetBalance probe for every party (C06)
    pub fn probe_get_balance(&mut self) -> VResult {
        for p in self.f.parties() {
            let r = self.f.w.call(self.f.stranger, STORAGE_MARKET_ACTOR_ID, mk::Method::GetBalanceExported as u64, &TokenAmount::zero(), &mk::GetBalanceParams { account: Address::new_id(p) });
            vassert!(r.ok(), "get-balance-failed", "GetBalance({}) failed", p);
            let ret: mk::GetBalanceReturn = r.de().unwrap();
            vassert!(ret.balance.atto() == &self.m.esc(p) && ret.locked.atto() == &self.m.lck(p), "get-balance", "GetBalance({}) = ({},{}) model ({},{})", p, ret.balance, ret.locked, self.m.esc(p), self.m.lck(p));
        }
        Ok(())
    }
}

// ------------------------------------------------------------------ generators

pub fn deal_spec(valid_bias: u32) -> impl Strategy<Value = DealSpec> {
    (
        (
            0u8..3,
            prop_oneof![9 => Just(0u8), 1 => Just(1u8)],
            prop_oneof![valid_bias => 0i32..3000, 2 => Just(0i32), 1 => -5i32..0],
            prop_oneof![valid_bias => 0i32..(20 * 2880), 1 => Just(MAX_DUR as i32 - MIN_DUR as i32), 1 => Just(MAX_DUR as i32 - MIN_DUR as i32 + 1), 1 => -3i32..0],
            prop_oneof![2 => Just(0u32), valid_bias => 1u32..2000, 1 => Just(u32::MAX)],
            prop_oneof![1 => Just(0u16), 1 => Just(1u16), valid_bias => 2u16..50],
        ),
        (
            0u16..200,
            prop_oneof![20 => Just(SigKind::Good), 1 => Just(SigKind::WrongSigner), 1 => Just(SigKind::Garbage)],
            prop_oneof![8 => Just(None), 2 => any::<u16>().prop_map(Some)],
            0u8..4,
            prop_oneof![3 => Just(4u8), 1 => 0u8..29],
            prop_oneof![8 => Just(false), 1 => Just(true)],
        ),
    )
        .prop_map(|((client, provider, start_in, dur_extra, price_nano, pcoll_kind), (ccoll_milli, sig, dup_of, piece_seed, size_log, robust))| DealSpec {
            client,
            provider,
            start_in,
            dur_extra,
            price_nano,
            pcoll_kind,
            ccoll_milli,
            sig,
            dup_of,
            piece_seed,
            size_log,
            robust_provider_addr: robust,
        })
}

pub fn op_strategy(focus: Focus) -> BoxedStrategy<Op> {
    let (w_wd, w_pub, w_act, w_set, w_term) = match focus {
        Focus::Escrow => (5, 5, 6, 4, 2),
        Focus::Payments => (1, 4, 6, 6, 2),
        Focus::Lifecycle => (1, 7, 9, 2, 1),
    };
    prop_oneof![
        4 => (0u8..8, 0u8..10, 1u32..400_000).prop_map(|(from, party, milli)| Op::AddBalance { from, party, milli }),
        w_wd => (0u8..10, 0u8..10, prop_oneof![3 => 0u16..1000, 1 => Just(1000u16), 1 => 1001u16..1500], prop_oneof![15 => Just(false), 1 => Just(true)])
            .prop_map(|(caller, party, pm, negative)| Op::Withdraw { caller, party, pm, negative }),
        w_pub => (0u8..12, proptest::collection::vec(deal_spec(8), 1..4)).prop_map(|(caller, deals)| Op::Publish { caller, deals }),
        w_act => (0u8..2, any::<bool>(), proptest::collection::vec((0u8..8, prop_oneof![5 => 0i8..3, 1 => -2i8..0], proptest::collection::vec(any::<u16>(), 1..5)).prop_map(|(sector, expiry_rel, deals)| SectorSpec { sector, expiry_rel, deals }), 1..3), prop_oneof![12 => Just(false), 1 => Just(true)])
            .prop_map(|(miner, scc, sectors, wrong_piece)| Op::Activate { miner, scc, sectors, wrong_piece }),
        w_set => (0u8..8, proptest::collection::vec(any::<u16>(), 1..4)).prop_map(|(caller, deals)| Op::Settle { caller, deals }),
        w_term => (0u8..2, proptest::collection::vec(0u8..6, 1..3)).prop_map(|(miner, sectors)| Op::Terminate { miner, sectors }),
        1 => Just(Op::Cron),
        2 => prop_oneof![4 => 0u32..3000, 1 => 0u32..(200 * 2880)].prop_map(|epochs| Op::Advance { epochs }),
        4 => (any::<u16>(), prop_oneof![4 => Just(Whence::Start), 1 => Just(Whence::End), 1 => Just(Whence::Proc)], -1i8..2).prop_map(|(deal, whence, delta)| Op::AdvanceTo { deal, whence, delta }),
    ]
    .boxed()
}

/// Funding prefix so that most histories have parties with escrow.
pub fn funding_prefix() -> Vec<Op> {
    let mut v = vec![];
    for c in 0..3u8 {
        v.push(Op::AddBalance { from: c, party: c, milli: 5_000_000 });
    }
    // owners fund their miners (parties index: clients 0..3, miners 3..5)
    v.push(Op::AddBalance { from: 3, party: 3, milli: 2_000_000 });
    v.push(Op::AddBalance { from: 4, party: 4, milli: 2_000_000 });
    v
}

pub fn run_history(ops: &[Op], stats: &mut CaseStats, prefund: bool) -> VResult<LedgerSummary> {
    let mut it = Interp::new(stats);
    let mut n = 0;
    if prefund {
        for op in funding_prefix() {
            it.step(n, &op)?;
            n += 1;
        }
    }
    for op in ops {
        it.step(n, op)?;
        n += 1;
        if it.abandon {
            return Ok(LedgerSummary { history: it.m.history.clone(), open: it.m.deals.len() });
        }
    }
    it.probe_get_balance()?;
    Ok(LedgerSummary { history: it.m.history.clone(), open: it.m.deals.len() })
}

pub struct LedgerSummary {
    pub history: BTreeMap<u64, DealHistory>,
    pub open: usize,
}

#[allow(dead_code)]
pub fn unused(_: &MsgResult) {}

pub mod engines;
