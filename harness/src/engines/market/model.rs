//! Deal-ledger reference model for the storage market (C06, C07, C08).
//! Written from the protocol rules; uses none of the market actor's state logic.

use cid::Cid;
use fvm_shared::ActorID;
use fvm_shared::bigint::BigInt;
use num_traits::Zero;
use std::collections::{BTreeMap, BTreeSet};

pub const INTERVAL: i64 = 30 * 2880;

#[derive(Clone, Debug, PartialEq, Eq)]
pub enum DealSt {
    Published,
    Active { sector: u64, activated_at: i64, last_paid: i64 },
}

#[derive(Clone, Debug)]
pub struct MDeal {
    pub id: u64,
    pub cid: Cid,
    pub client: ActorID,
    pub provider: ActorID,
    pub start: i64,
    pub end: i64,
    pub price: BigInt,
    pub pcoll: BigInt,
    pub ccoll: BigInt,
    pub piece_cid: Cid,
    pub piece_size: u64,
    pub st: DealSt,
    /// next epoch at which the market cron looks at this deal
    pub sched: Option<i64>,
    /// total credited to the provider so far
    pub paid: BigInt,
}

impl MDeal {
    pub fn total_fee(&self) -> BigInt {
        &self.price * (self.end - self.start)
    }
    pub fn client_obligation(&self) -> BigInt {
        &self.ccoll + self.total_fee() - &self.paid
    }
}

#[derive(Clone, Debug, Default)]
pub struct Ledger {
    pub escrow: BTreeMap<ActorID, BigInt>,
    pub locked: BTreeMap<ActorID, BigInt>,
    pub deals: BTreeMap<u64, MDeal>,
    pub next_id: u64,
    /// CIDs the duplicate check must still know about
    pub pending: BTreeSet<Cid>,
    pub sector_deals: BTreeMap<(ActorID, u64), Vec<u64>>,
    pub last_cron: i64,
    pub burnt: BigInt,
    /// per deal id: (ever activated, termination epoch if terminated early, total paid, finished)
    pub history: BTreeMap<u64, DealHistory>,
}

#[derive(Clone, Debug, Default)]
pub struct DealHistory {
    pub activations: u32,
    pub terminated_at: Option<i64>,
    pub paid: BigInt,
    pub burnt: BigInt,
    pub finished: bool,
    pub timed_out: bool,
    pub completed: bool,
}

/// first epoch >= earliest congruent to id modulo the interval
pub fn proc_epoch(id: u64, earliest: i64) -> i64 {
    let offset = (id as i64) % INTERVAL;
    let r = (earliest - offset).rem_euclid(INTERVAL);
    if r == 0 { earliest } else { earliest + (INTERVAL - r) }
}

impl Ledger {
    pub fn new() -> Self {
        Ledger { last_cron: -1, ..Default::default() }
    }
    pub fn esc(&self, a: ActorID) -> BigInt {
        self.escrow.get(&a).cloned().unwrap_or_default()
    }
    pub fn lck(&self, a: ActorID) -> BigInt {
        self.locked.get(&a).cloned().unwrap_or_default()
    }
    pub fn available(&self, a: ActorID) -> BigInt {
        self.esc(a) - self.lck(a)
    }
    fn add(map: &mut BTreeMap<ActorID, BigInt>, a: ActorID, v: &BigInt) {
        let e = map.entry(a).or_default();
        *e += v;
        if e.is_zero() {
            map.remove(&a);
        }
    }
    pub fn deposit(&mut self, a: ActorID, v: &BigInt) {
        Self::add(&mut self.escrow, a, v);
    }
    pub fn withdraw(&mut self, a: ActorID, v: &BigInt) {
        Self::add(&mut self.escrow, a, &-v.clone());
    }
    pub fn lock(&mut self, a: ActorID, v: &BigInt) {
        Self::add(&mut self.locked, a, v);
    }
    pub fn unlock(&mut self, a: ActorID, v: &BigInt) {
        Self::add(&mut self.locked, a, &-v.clone());
    }

    /// obligations recomputed from the deals (the C06 right-hand side)
    pub fn obligations(&self) -> BTreeMap<ActorID, BigInt> {
        let mut m: BTreeMap<ActorID, BigInt> = BTreeMap::new();
        for d in self.deals.values() {
            *m.entry(d.client).or_default() += d.client_obligation();
            *m.entry(d.provider).or_default() += &d.pcoll;
        }
        m.retain(|_, v| !v.is_zero());
        m
    }
    pub fn totals(&self) -> (BigInt, BigInt, BigInt) {
        let mut cc = BigInt::zero();
        let mut pc = BigInt::zero();
        let mut fee = BigInt::zero();
        for d in self.deals.values() {
            cc += &d.ccoll;
            pc += &d.pcoll;
            fee += d.total_fee() - &d.paid;
        }
        (cc, pc, fee)
    }

    pub fn publish(&mut self, mut d: MDeal) -> u64 {
        let id = self.next_id;
        self.next_id += 1;
        d.id = id;
        d.sched = Some(proc_epoch(id, d.start));
        self.lock(d.client, &(&d.ccoll + d.total_fee()));
        self.lock(d.provider, &d.pcoll);
        self.pending.insert(d.cid);
        self.deals.insert(id, d);
        self.history.insert(id, DealHistory::default());
        id
    }

    /// never-activated proposal past its start epoch: client refunded, provider collateral burnt
    pub fn time_out(&mut self, id: u64) -> BigInt {
        let d = self.deals.remove(&id).expect("deal");
        self.unlock(d.client, &(&d.ccoll + d.total_fee()));
        self.unlock(d.provider, &d.pcoll);
        self.withdraw(d.provider, &d.pcoll);
        self.pending.remove(&d.cid);
        self.burnt += &d.pcoll;
        let h = self.history.get_mut(&id).unwrap();
        h.finished = true;
        h.timed_out = true;
        h.burnt = d.pcoll.clone();
        d.pcoll
    }

    pub fn activate(&mut self, id: u64, sector: u64, epoch: i64) {
        let d = self.deals.get_mut(&id).expect("deal");
        d.st = DealSt::Active { sector, activated_at: epoch, last_paid: -1 };
        self.sector_deals.entry((d.provider, sector)).or_default().push(id);
        self.history.get_mut(&id).unwrap().activations += 1;
    }

    fn pay(&mut self, id: u64, amount: &BigInt) {
        let (c, p) = {
            let d = self.deals.get_mut(&id).unwrap();
            d.paid += amount;
            (d.client, d.provider)
        };
        self.withdraw(c, amount);
        self.unlock(c, amount);
        self.deposit(p, amount);
        self.history.get_mut(&id).unwrap().paid += amount;
    }

    fn remove_from_sector(&mut self, provider: ActorID, sector: u64, id: u64) {
        if let Some(v) = self.sector_deals.get_mut(&(provider, sector)) {
            v.retain(|x| *x != id);
            if v.is_empty() {
                self.sector_deals.remove(&(provider, sector));
            }
        }
    }

    /// settlement of an activated deal at `epoch`; returns (payment, completed)
    pub fn settle_active(&mut self, id: u64, epoch: i64) -> (BigInt, bool) {
        let d = self.deals.get(&id).unwrap().clone();
        let (sector, last_paid) = match d.st {
            DealSt::Active { sector, last_paid, .. } => (sector, last_paid),
            _ => unreachable!(),
        };
        // up to and including the start epoch nothing is due and nothing changes: in particular the proposal stays
        // pending (it could still be published in that epoch, and must not be accepted a second time)
        if d.start >= epoch {
            return (BigInt::zero(), false);
        }
        if last_paid == -1 {
            self.pending.remove(&d.cid);
        }
        let from = if last_paid > d.start { last_paid } else { d.start };
        let to = std::cmp::min(d.end, epoch);
        let payment = &d.price * (to - from);
        self.pay(id, &payment);
        if epoch >= d.end {
            self.unlock(d.provider, &d.pcoll);
            self.unlock(d.client, &d.ccoll);
            self.deals.remove(&id);
            self.remove_from_sector(d.provider, sector, id);
            let h = self.history.get_mut(&id).unwrap();
            h.finished = true;
            h.completed = true;
            (payment, true)
        } else {
            if let DealSt::Active { last_paid, .. } = &mut self.deals.get_mut(&id).unwrap().st {
                *last_paid = epoch;
            }
            (payment, false)
        }
    }

    /// early termination of an activated deal notified at `epoch` (< end); returns burnt amount
    pub fn terminate(&mut self, id: u64, epoch: i64) -> BigInt {
        let d = self.deals.get(&id).unwrap().clone();
        let last_paid = match d.st {
            DealSt::Active { last_paid, .. } => last_paid,
            _ => unreachable!(),
        };
        if last_paid == -1 {
            self.pending.remove(&d.cid);
        }
        let from = std::cmp::max(d.start, last_paid);
        let to = std::cmp::min(d.end, epoch);
        let n = std::cmp::max(0, to - from);
        let payment = &d.price * n;
        self.pay(id, &payment);
        let remaining = &d.price * (d.end - std::cmp::max(epoch, d.start));
        self.unlock(d.client, &remaining);
        self.unlock(d.client, &d.ccoll);
        self.unlock(d.provider, &d.pcoll);
        self.withdraw(d.provider, &d.pcoll);
        self.burnt += &d.pcoll;
        self.deals.remove(&id);
        let h = self.history.get_mut(&id).unwrap();
        h.finished = true;
        h.terminated_at = Some(epoch);
        h.burnt = d.pcoll.clone();
        d.pcoll
    }
}
