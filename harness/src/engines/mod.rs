pub mod c12_multisig;
