pub mod c12_multisig;
pub mod c16_paych;
pub mod market;
pub mod c09_datacap;
pub mod c17_evm_diff;
pub mod evmsys;
pub mod c18_evm_total;
pub mod c20_identity;
