//! Invariants recomputed from the state tree after every message and every tick
//! (C01 conservation/solvency, C03 ledgers, C05 cron; further layers are added in later files).

use super::ops::{DEADLINE_EPOCHS, MinerH, PERIOD};
use super::view::*;
use crate::common::*;
use crate::simvm::{MsgResult, Trace};
use crate::world::World;
use crate::{vassert, vfail};
use fil_actor_miner as mi;
use fil_actors_runtime::{BURNT_FUNDS_ACTOR_ID, CRON_ACTOR_ID, STORAGE_MARKET_ACTOR_ID, STORAGE_POWER_ACTOR_ID};
use fvm_shared::ActorID;
use fvm_shared::bigint::BigInt;
use fvm_shared::econ::TokenAmount;
use num_traits::{Signed, Zero};
use std::collections::{BTreeMap, BTreeSet};

pub const KF_PLEDGE: &str = "create-miner-deposit-missing-from-pledge-total";
pub const KF_CRON: &str = "vesting-funds-without-deadline-cron";

#[derive(Default)]
pub struct Checks {
    pub genesis_total: TokenAmount,
    pub views: BTreeMap<ActorID, std::rc::Rc<MinerView>>,
    /// views as of the previous refresh (the state before the latest message / tick)
    pub prev_views: BTreeMap<ActorID, std::rc::Rc<MinerView>>,
    /// miners that have ever been cron-active
    pub ever_active: BTreeSet<ActorID>,
    pub deposits: BTreeMap<ActorID, BigInt>,
    pub posted: BTreeMap<(ActorID, u64), BTreeSet<u64>>,
    pub claims_before_tick: BTreeMap<ActorID, Pow>,
    pub focus: String,
    /// miners that became cron-active and have not had a deadline callback since
    pub awaiting_first_callback: BTreeSet<ActorID>,
    pub was_active: BTreeMap<ActorID, bool>,
    pub ever_allocated: BTreeMap<ActorID, BTreeSet<u64>>,
    /// miners whose proving-deadline callback ran (successfully) in the latest tick
    pub had_callback: BTreeSet<ActorID>,
    pub vest: super::vesting_checks::VestState,
    pub vest_prev_rows: BTreeMap<ActorID, BTreeMap<i64, BigInt>>,
    /// (check group, miner) -> state CID at the last full recomputation, to skip unchanged miners
    pub last_checked: BTreeMap<(&'static str, ActorID), cid::Cid>,
    pub cached_active: BTreeMap<ActorID, Pow>,
    pub prev_locked: BTreeMap<ActorID, BigInt>,
    /// (state CID, recomputed obligations) per miner
    pub obligations: BTreeMap<ActorID, (cid::Cid, BigInt)>,
    /// power granted at genesis to an idle miner (fixture), not backed by sectors
    pub phantom: BTreeMap<ActorID, Pow>,
    pub registry: std::rc::Rc<super::verified::RegistryView>,
    pub last_c10: BTreeMap<ActorID, (ActorID, cid::Cid, Option<cid::Cid>)>,
}


impl Checks {
    /// true if the miner's state changed since group `g` last recomputed it (and remember the new CID)
    pub fn changed(&mut self, g: &'static str, id: ActorID) -> bool {
        let cid = self.views[&id].state_cid;
        if self.last_checked.get(&(g, id)) == Some(&cid) {
            return false;
        }
        self.last_checked.insert((g, id), cid);
        true
    }

    /// is the clause group of property `p` judged in this run?
    pub fn on(&self, p: &str) -> bool {
        self.focus == "SYS" || self.focus == p
    }

    pub fn init(&mut self, w: &World, miners: &[MinerH]) {
        self.genesis_total = w.v.total_balance();
        for m in miners {
            self.deposits.insert(m.id, m.creation_deposit.clone());
        }
    }

    pub fn note_post(&mut self, miner: ActorID, deadline: u64, parts: &[mi::PoStPartition], _bad: bool) {
        let e = self.posted.entry((miner, deadline)).or_default();
        for p in parts {
            e.insert(p.index);
        }
    }

    fn refresh(&mut self, w: &World, miners: &[MinerH]) {
        self.prev_views = self.views.clone();
        for m in miners {
            let cid = w.v.actor(m.id).map(|a| a.state);
            let stale = match (self.views.get(&m.id), cid) {
                (Some(v), Some(c)) => v.state_cid != c,
                _ => true,
            };
            if stale {
                self.views.insert(m.id, std::rc::Rc::new(read_miner(&w.v, m.id)));
            }
        }
    }

    fn scan(&self, t: &Trace, stats: &mut CaseStats) -> VResult {
        let mut err: Option<Violation> = None;
        let mut burn = false;
        t.walk(&mut |x, _| {
            if err.is_some() {
                return;
            }
            if !self.on("C05") && !self.on("C01") {
                return;
            }
            if let Some(p) = &x.panicked {
                err = Some(Violation::new("panic", format!("{}->{:?} method {} panicked: {}", x.from, x.to_id, x.method, p)));
            }
            if x.code.value() == 1000 {
                err = Some(Violation::new("balance-invariants-broken", format!("{}->{:?} method {} reported exit code 1000: {}", x.from, x.to_id, x.method, x.msg)));
            }
            if x.to_id == Some(BURNT_FUNDS_ACTOR_ID) && x.ok() && !x.value.is_zero() {
                burn = true;
            }
            if x.from == BURNT_FUNDS_ACTOR_ID {
                err = Some(Violation::new("burnt-funds-spent", format!("the burnt-funds account sent a message to {:?}", x.to_id)));
            }
            if x.send_err == Some(fvm_shared::error::ErrorNumber::InsufficientFunds) && !x.injected && matches!(x.from, fil_actors_runtime::REWARD_ACTOR_ID | fil_actors_runtime::STORAGE_MARKET_ACTOR_ID | fil_actors_runtime::STORAGE_POWER_ACTOR_ID) || (x.send_err == Some(fvm_shared::error::ErrorNumber::InsufficientFunds) && !x.injected && self.views.contains_key(&x.from)) {
                err = Some(Violation::new("paid-more-than-held", format!("actor {} tried to send {} to {:?} (method {}) which it does not hold", x.from, x.value, x.to_id, x.method)));
            }
            if x.unvalidated {
                err = Some(Violation::new("caller-not-validated", format!("{}->{:?} method {} returned without validating its caller", x.from, x.to_id, x.method)));
            }
        });
        if burn {
            stats.label("burn_seen");
        }
        match err {
            Some(e) => Err(e),
            None => Ok(()),
        }
    }

    pub fn after_message(&mut self, w: &World, miners: &[MinerH], r: Option<&MsgResult>, stats: &mut CaseStats) -> VResult {
        if let Some(r) = r {
            self.scan(&r.trace, stats)?;
        }
        self.refresh(w, miners);
        if let Some(r) = r {
            super::penalty_checks::check(self, w, miners, r, false, stats)?;
        }
        super::verified::check(self, w, miners, r, stats)?;
        self.ledgers(w, miners, stats)?;
        super::partition_checks::check_all(self, w, miners, stats)?;
        super::vesting_checks::check(self, w, miners, r, stats)?;
        Ok(())
    }

    pub fn after_tick(&mut self, w: &World, miners: &[MinerH], r: &MsgResult, stats: &mut CaseStats) -> VResult {
        let epoch = w.v.epoch();
        if r.trace.count() > 6 {
            stats.say(|| format!("tick at {epoch}:\n{}", r.trace.short()));
        }
        self.had_callback.clear();
        {
            let hc = &mut self.had_callback;
            r.trace.walk(&mut |t, _| {
                if t.from == STORAGE_POWER_ACTOR_ID && t.method == mi::Method::OnDeferredCronEvent as u64 && t.ok() {
                    if let Some(id) = t.to_id {
                        hc.insert(id);
                    }
                }
            });
        }
        if !self.on("C05") {
            self.scan(&r.trace, stats)?;
            self.refresh(w, miners);
            for m in miners {
                if self.views[&m.id].cron_active {
                    self.ever_active.insert(m.id);
                }
            }
            super::penalty_checks::check(self, w, miners, r, true, stats)?;
            super::verified::check(self, w, miners, None, stats)?;
            self.ledgers(w, miners, stats)?;
            super::partition_checks::check_all(self, w, miners, stats)?;
            super::partition_checks::after_deadline_close(self, w, miners, epoch, stats)?;
            super::vesting_checks::check(self, w, miners, Some(r), stats)?;
            return Ok(());
        }
        // C05 (1): the tick and every callback succeed
        vassert!(r.ok(), "cron-tick-failed", "cron tick at {} failed: {} {}", epoch, r.code.value(), r.message);
        let mut bad: Option<String> = None;
        r.trace.walk(&mut |t, depth| {
            let is_callback = (t.from == CRON_ACTOR_ID && depth == 1) || (t.from == STORAGE_POWER_ACTOR_ID && t.method == mi::Method::OnDeferredCronEvent as u64);
            if is_callback && !t.ok() && !t.injected && bad.is_none() {
                bad = Some(format!("callback {}->{:?} method {} failed with {} ({})", t.from, t.to_id, t.method, t.code.value(), t.msg));
            }
        });
        if let Some(b) = bad {
            vfail!("cron-callback-failed", "at epoch {}: {}", epoch, b);
        }
        self.scan(&r.trace, stats)?;
        self.refresh(w, miners);
        let pv = read_power(&w.v);
        for m in miners {
            vassert!(pv.claims.contains_key(&m.id), "claim-lost", "miner {} lost its power claim during the tick at {}", m.id, epoch);
        }
        // which miners had a proving-deadline callback in this tick
        let mut called: BTreeSet<ActorID> = BTreeSet::new();
        r.trace.walk(&mut |t, _| {
            if t.from == STORAGE_POWER_ACTOR_ID && t.method == mi::Method::OnDeferredCronEvent as u64 && t.ok() {
                if let Some(id) = t.to_id {
                    called.insert(id);
                }
            }
        });
        // C05 (3)/(4): deadline events and recorded deadline
        for m in miners {
            let mv = &self.views[&m.id];
            let was = self.was_active.get(&m.id).copied().unwrap_or(false);
            if mv.cron_active && !was {
                self.awaiting_first_callback.insert(m.id);
            }
            if called.contains(&m.id) || !mv.cron_active {
                self.awaiting_first_callback.remove(&m.id);
            }
            if was && !mv.cron_active {
                vassert!(mv.ip.is_zero() && mv.pcd.is_zero() && mv.locked.is_zero(), "deadline-cron-stopped-with-funds", "miner {} stopped its deadline cron at {} while holding pledge {} deposits {} vesting {}", m.id, epoch, mv.ip, mv.pcd, mv.locked);
                stats.label("miner_went_idle");
            }
            self.was_active.insert(m.id, mv.cron_active);
            let events: usize = pv.cron_events.values().map(|v| v.iter().filter(|(id, ty)| *id == m.id && *ty == mi::CRON_EVENT_PROVING_DEADLINE).count()).sum();
            vassert!(events <= 1, "duplicate-deadline-event", "miner {} has {} pending proving-deadline events", m.id, events);
            if mv.cron_active {
                self.ever_active.insert(m.id);
            }
            let has_funds = mv.ip.is_positive() || mv.pcd.is_positive() || mv.locked.is_positive();
            if has_funds && events == 0 {
                let exempt = !mv.cron_active && mv.ip.is_zero() && mv.pcd.is_zero();
                if exempt && stats.known(KF_CRON) {
                    // recorded finding: vesting funds alone do not enrol the deadline cron
                } else {
                    vfail!("missing-deadline-event", "miner {} holds pledge {} deposits {} vesting {} but has no pending proving-deadline callback after the tick at {}", m.id, mv.ip, mv.pcd, mv.locked, epoch);
                }
            }
            if events == 1 {
                // the recorded deadline must be the one containing the next epoch
                let next = epoch + 1;
                // (the recorded proving-period start is only an offset until the miner's first period rollover)
                let rel = (next - mv.period_start).rem_euclid(PERIOD);
                if next - mv.period_start >= PERIOD {
                    stats.label("stale_period_start_offset");
                }
                let want = (rel / DEADLINE_EPOCHS) as u64;
                let fresh_activation = self.awaiting_first_callback.contains(&m.id) && mv.current_deadline != want && stats.known(KF_CRON);
                // (same recorded finding: a miner that was idle with vesting funds keeps a stale recorded deadline
                //  from (re)activation until its first deadline callback)
                vassert!(fresh_activation || mv.current_deadline == want, "deadline-stale", "miner {} records deadline {} but epoch {} lies in deadline {}", m.id, mv.current_deadline, next, want);
                // and the event is scheduled for that deadline's last epoch
                let last = next - rel + (want as i64 + 1) * DEADLINE_EPOCHS - 1;
                let at: Vec<i64> = pv.cron_events.iter().filter(|(_, v)| v.iter().any(|(id, ty)| *id == m.id && *ty == mi::CRON_EVENT_PROVING_DEADLINE)).map(|(e, _)| *e).collect();
                vassert!(at == vec![last], "deadline-event-misplaced", "miner {} deadline event at {:?}, its current deadline closes at {}", m.id, at, last);
            }
            // expirations and fault time-outs due by this epoch were processed by the deadline callback at their epoch
            if mv.cron_active {
                for (di, d) in mv.deadlines.iter().enumerate() {
                    for (pi, p) in d.partitions.iter().enumerate() {
                        if let Some((e, set)) = p.expirations.iter().next() {
                            vassert!(*e > epoch, "expiration-not-processed", "miner {} deadline {} partition {}: sectors {:?}/{:?} were due at {} and are still queued after the tick at {}", m.id, di, pi, set.on_time, set.early, e, epoch);
                        }
                    }
                }
            }
            // early terminations pending => a processing event next epoch
            let pending_et = !mv.early_terminations.is_empty();
            if pending_et {
                let has = pv.cron_events.get(&(epoch + 1)).map(|v| v.iter().any(|(id, ty)| *id == m.id && *ty == mi::CRON_EVENT_PROCESS_EARLY_TERMINATIONS)).unwrap_or(false);
                vassert!(has, "early-termination-not-scheduled", "miner {} has unprocessed early terminations but no processing event for epoch {}", m.id, epoch + 1);
                stats.label("early_terminations_pending_over_tick");
            }
        }
        self.ledgers(w, miners, stats)?;
        super::partition_checks::check_all(self, w, miners, stats)?;
        super::partition_checks::after_deadline_close(self, w, miners, epoch, stats)?;
        Ok(())
    }

    /// C01 + C03
    fn ledgers(&mut self, w: &World, miners: &[MinerH], stats: &mut CaseStats) -> VResult {
        let c01 = self.on("C01");
        let c03 = self.on("C03");
        let total = w.v.total_balance();
        vassert!(!c01 || total == self.genesis_total, "fil-not-conserved", "total FIL {} != genesis total {}", total, self.genesis_total);
        let pv = read_power(&w.v);
        let mut sum = BigInt::zero();
        let mut deposits = BigInt::zero();
        for m in miners {
            let mv = &self.views[&m.id];
            let bal = w.v.balance(m.id);
            let need = &mv.pcd + &mv.locked + &mv.ip;
            vassert!(!c01 || bal.atto() >= &need, "miner-insolvent", "miner {} balance {} < deposits {} + vesting {} + pledge {}", m.id, bal, mv.pcd, mv.locked, mv.ip);
            if mv.fee_debt.is_positive() {
                stats.label("fee_debt_seen");
            }
            if mv.deadlines.iter().any(|d| d.partitions.len() >= 2) {
                stats.label("multi_partition_deadline");
            }
            if let Some(prev) = self.prev_locked.get(&m.id) {
                if &mv.locked < prev {
                    stats.label("vesting_unlocked_or_consumed");
                }
            }
            self.prev_locked.insert(m.id, mv.locked.clone());
            vassert!(!mv.fee_debt.is_negative() && !mv.ip.is_negative() && !mv.pcd.is_negative() && !mv.locked.is_negative(), "negative-ledger", "miner {} has a negative ledger entry", m.id);
            sum += &mv.ip + &mv.locked;
            deposits += &self.deposits[&m.id];
            if c01 {
                // solvency against the obligations themselves (not only their recorded totals): deposits of the outstanding
                // pre-commitments + the vesting table + the pledge of every live / pending-termination sector
                let obligations = match self.obligations.get(&m.id) {
                    Some((cid, o)) if *cid == mv.state_cid => o.clone(),
                    _ => {
                        let mut o: BigInt = mv.precommits.values().map(|p| &p.deposit).sum();
                        o += mv.vesting.iter().map(|(_, a)| a).sum::<BigInt>();
                        let mut counted: BTreeSet<u64> = BTreeSet::new();
                        for d in &mv.deadlines {
                            for p in &d.partitions {
                                counted.extend(p.sectors.difference(&p.terminated));
                                for s in p.early_terminated.values() {
                                    counted.extend(s.iter());
                                }
                            }
                        }
                        for s in &counted {
                            if let Some(x) = mv.sectors.get(s) {
                                o += &x.pledge;
                            }
                        }
                        self.obligations.insert(m.id, (mv.state_cid, o.clone()));
                        o
                    }
                };
                vassert!(bal.atto() >= &obligations, "miner-insolvent", "miner {} balance {} < obligations {} (outstanding pre-commit deposits + vesting table + pledge of live sectors); recorded deposits {} vesting {} pledge {}", m.id, bal, obligations, mv.pcd, mv.locked, mv.ip);
            }
            if !c03 || self.last_checked.get(&("ledger", m.id)) == Some(&mv.state_cid) {
                continue;
            }
            self.last_checked.insert(("ledger", m.id), mv.state_cid);
            // (2) deposits
            let pcd: BigInt = mv.precommits.values().map(|p| &p.deposit).sum();
            vassert!(pcd == mv.pcd, "precommit-deposits-differ", "miner {} records deposits {} but its pre-commitments hold {}", m.id, mv.pcd, pcd);
            // (3) vesting
            let vest: BigInt = mv.vesting.iter().map(|(_, a)| a).sum();
            vassert!(vest == mv.locked, "locked-funds-differ", "miner {} records locked funds {} but its vesting table sums to {}", m.id, mv.locked, vest);
            for (e, a) in &mv.vesting {
                vassert!(a.is_positive(), "vesting-row-nonpositive", "miner {} vesting row at {} holds {}", m.id, e, a);
            }
            // (1) pledge = live sectors + early-terminated-not-yet-processed
            let mut counted: BTreeSet<u64> = BTreeSet::new();
            for d in &mv.deadlines {
                for p in &d.partitions {
                    counted.extend(p.sectors.difference(&p.terminated));
                    for s in p.early_terminated.values() {
                        counted.extend(s.iter());
                    }
                }
            }
            let mut ip = BigInt::zero();
            for s in &counted {
                match mv.sectors.get(s) {
                    Some(x) => ip += &x.pledge,
                    None => vfail!("sector-info-missing", "miner {} sector {} is in a partition but has no sector record", m.id, s),
                }
            }
            vassert!(ip == mv.ip, "initial-pledge-differs", "miner {} records pledge {} but its live / pending-termination sectors hold {}", m.id, mv.ip, ip);
        }
        if c01 {
            let ms: fil_actor_market::State = w.v.get_state(STORAGE_MARKET_ACTOR_ID).unwrap();
            let esc = fil_actor_market::balance_table::BalanceTable::from_root(&*w.v.store, &ms.escrow_table, "escrow").unwrap().total().unwrap();
            vassert!(w.v.balance(STORAGE_MARKET_ACTOR_ID) >= esc, "market-insolvent", "market balance below escrow total");
        }
        if !c03 {
            return Ok(());
        }
        // (4) network pledge total
        vassert!(!pv.total_pledge.is_negative(), "pledge-total-negative", "network pledge total is {}", pv.total_pledge);
        if pv.total_pledge != sum {
            if &pv.total_pledge + &deposits == sum && stats.known(KF_PLEDGE) {
                // recorded finding: creation deposits are locked in the miners but never added to the total
            } else {
                vfail!("pledge-total-differs", "power actor pledge total {} != Σ miners (pledge + vesting) {} (creation deposits {})", pv.total_pledge, sum, deposits);
            }
        }
        Ok(())
    }
}
