pub mod checks;
pub mod ops;
pub mod partition_checks;
pub mod penalty_checks;
pub mod verified;
pub mod vesting_checks;
pub mod view;

use crate::common::*;
use ops::*;
use proptest::prelude::*;

pub struct SysEngine {
    pub id: &'static str,
}

pub fn run_case(case: &SysCase, stats: &mut CaseStats, focus: &str) -> VResult {
    let mut s = Sys::new(case, stats, focus)?;
    // pledge cushion (see DESIGN §4-A): a large locked reward on a dedicated, otherwise idle miner keeps the
    // network pledge total above the uncounted creation deposits so that the search continues past that finding
    s.cushion(case.whale)?;
    for (i, op) in case.ops.iter().enumerate() {
        s.step(i, op)?;
    }
    Ok(())
}

impl Engine for SysEngine {
    type Case = SysCase;
    fn id(&self) -> &'static str {
        self.id
    }
    fn budget(&self, tier: Tier) -> (u32, u32) {
        match tier {
            Tier::Quick => (64, 8),
            Tier::Thorough => (128, 16),
        }
    }
    fn strategy(&self, tier: Tier) -> BoxedStrategy<SysCase> {
        let bulk = match self.id { "C04" => 12, "C02" => 4, _ => 2 };
        // long stretches of chain time cost ~35 µs per epoch: rare in the quick tier
        let long = match (self.id, tier == Tier::Quick) {
            ("C05", true) | ("C02", true) | ("C14", true) | ("C03", true) | ("C15", true) => 1,
            (_, true) => 0,
            ("C05", false) | ("C02", false) | ("C14", false) | ("C03", false) | ("C15", false) => 8,
            (_, false) => 6,
        };
        let dispute = match self.id { "C15" => 30, "C02" | "C01" => 10, _ => 5 };
        let verified = match self.id { "C10" => 40, "C02" | "C04" => 8, _ => 4 };
        // (benef == 4 doubles as the marker that raises the replica-update cycle weight for the collateral properties)
        let benef = match self.id { "C14" => 30, "C01" | "C03" => 4, _ => 3 };
        case_strategy_w(if tier == Tier::Quick { 60 } else { 100 }, bulk, long, dispute, verified, benef).boxed()
    }
    fn rule(&self) -> String {
        let common = "case = 1–4 real miners (2 KiB / 8 MiB / 32 GiB proofs; consensus minimum at mainnet or a documented devnet value) created through power.CreateMiner with the real deposit, plus an idle 'cushion' miner holding a large locked reward; ≤60/100 generated operations: pre-commit (valid, reused number, bad randomness epoch, short life), ProveCommitSectors3 (good/bad proofs, any caller), Window PoSt for the open deadline (skipped sets drawn from the partition, bad proofs, partial partition lists), fault and recovery declarations, terminations, extensions, partition compaction, AwardBlockReward with gas reward/penalty/win count, withdrawals by owner/worker/stranger, RepayDebt, disputes, consensus-fault reports, top-ups, macro onboarding/posting steps, and epoch advances to deadline boundaries (−1/0/+1), prove windows and sector deadlines; the cron tick really runs at every epoch; faults can be injected into a nested send of a message or of a tick (dropped again if the actor does not tolerate them). Everything is recomputed from the state tree after every message and every tick. ";
        let nt = match self.id {
            "C01" => "non-trivial = a burn or an injected failure occurred and funds were paid out (withdrawal or reward)",
            "C02" => "non-trivial = a PoSt was accepted and at least two of {declared fault, recovery declaration, skipped sectors, deadline closed without proof, termination, extension} occurred",
            "C03" => "non-trivial = a reward was locked and vesting funds were unlocked/consumed or a sector terminated",
            "C04" => "non-trivial = some deadline held ≥2 partitions and a fault/recovery/termination/compaction/extension was applied",
            "C05" => "non-trivial = a PoSt was accepted and a cron callback had to handle ≥2 of {fee debt, missed proof, vesting unlock, termination, pending early terminations} or a tolerated injected failure",
            "C15" => "non-trivial = at least two kinds of charge occurred (continued-fault fee, termination fee, dispute penalty, consensus-fault penalty, block penalty, expired pre-commit deposit), or a fault/termination charge was recorded as fee debt",
            "C10" => "non-trivial = a sector with verified weight was live and an extension with claims, a claim drop, a claim-term extension or an expiry clean-up occurred",
            "C14" => "non-trivial = a reward was locked, a withdrawal was paid, and a penalty consumed unvested funds or ≥3 schedules overlapped",
            _ => "non-trivial = a PoSt was accepted",
        };
        format!("{common}{nt}; distinct by case hash")
    }
    fn assumptions(&self) -> Vec<String> {
        vec![
            "actors run natively on SimVM with fake (marker-controlled) proofs and constant randomness; the cron tick is run at every epoch".into(),
            "policy: mainnet values plus the documented 2 KiB / 8 MiB proof types; consensus minimum optionally a documented devnet value".into(),
            "known findings (known_findings.json) are excluded by exact rules: pledge total shifted by the creation deposits, idle miners with only vesting funds exempt from the deadline-callback clause".into(),
            "non-tolerated injected tick faults are dropped (tick re-run without the fault) and counted".into(),
        ]
    }
    fn required_labels(&self) -> Vec<(&'static str, f64)> {
        vec![("post_accepted", 0.3), ("proven", 0.5)]
    }
    fn run(&self, case: &SysCase, stats: &mut CaseStats) -> VResult {
        run_case(case, stats, self.id)?;
        let l = &stats.labels;
        let has = |x: &str| l.contains(x);
        let any = |xs: &[&str]| xs.iter().filter(|x| l.contains(**x)).count();
        stats.nontrivial = match self.id {
            "C01" => (has("burn_seen") || has("fault_injected") || has("tolerated_fault_in_tick")) && (has("withdrawn") || has("rewarded")),
            "C02" => has("post_accepted") && any(&["faults_declared", "recovery_declared", "post_with_skips", "deadline_closed_without_post", "terminated", "extended"]) >= 2,
            "C03" => has("rewarded") && (has("vesting_unlocked_or_consumed") || has("terminated")),
            "C04" => has("multi_partition_deadline") && any(&["faults_declared", "recovery_declared", "terminated", "compacted", "extended"]) >= 1,
            "C05" => has("post_accepted") && (any(&["fee_debt_seen", "deadline_closed_without_post", "vesting_unlocked_or_consumed", "terminated", "early_terminations_pending_over_tick"]) >= 2 || has("tolerated_fault_in_tick")),
            "C15" => any(&["continued_fault_fee_charged", "termination_fee_charged", "dispute_penalised", "consensus_fault_penalised", "block_penalty_charged", "precommit_expired_deposit_burnt"]) >= 2 || (has("charge_recorded_as_debt") && any(&["continued_fault_fee_charged", "termination_fee_charged"]) >= 1),
            "C10" => has("verified_sector_checked") && any(&["verified_sector_extended", "claim_dropped_at_end_of_life", "claim_term_extended", "expired_claim_removed", "expired_allocation_removed"]) >= 1,
            "C14" => has("reward_locked") && has("withdrawal_paid") && (has("penalty_consumed_unvested_funds") || has("three_overlapping_schedules")),
            _ => has("post_accepted"),
        };
        Ok(())
    }
}
