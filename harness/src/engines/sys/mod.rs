pub mod checks;
pub mod ops;
pub mod partition_checks;
pub mod view;

use crate::common::*;
use ops::*;
use proptest::prelude::*;

pub struct SysEngine {
    pub id: &'static str,
}

pub fn run_case(case: &SysCase, stats: &mut CaseStats, focus: &str) -> VResult {
    let mut s = Sys::new(case, stats, focus)?;
    // pledge cushion (see DESIGN §4-A): a large locked reward on a dedicated, otherwise idle miner keeps the
    // network pledge total above the uncounted creation deposits so that the search continues past that finding
    s.cushion()?;
    for (i, op) in case.ops.iter().enumerate() {
        s.step(i, op)?;
    }
    Ok(())
}

impl Engine for SysEngine {
    type Case = SysCase;
    fn id(&self) -> &'static str {
        self.id
    }
    fn budget(&self, tier: Tier) -> (u32, u32) {
        match tier {
            Tier::Quick => (16, 30),
            Tier::Thorough => (16, 600),
        }
    }
    fn strategy(&self, tier: Tier) -> BoxedStrategy<SysCase> {
        case_strategy(if tier == Tier::Quick { 60 } else { 100 }).boxed()
    }
    fn rule(&self) -> String {
        "system-level histories".into()
    }
    fn assumptions(&self) -> Vec<String> {
        vec![]
    }
    fn run(&self, case: &SysCase, stats: &mut CaseStats) -> VResult {
        run_case(case, stats, self.id)?;
        stats.nontrivial = stats.labels.contains("post_accepted");
        Ok(())
    }
}
