//! System-level engine: real miners, every-epoch cron, generated operations (DESIGN §3 C01–C05, C10, C14, C15).

use super::view::*;
use crate::common::*;
use crate::simvm::{Fault, MsgResult, RAND_ARRAY, BAD_PROOF, consensus_fault_header};
use crate::world::*;
use fil_actor_miner as mi;
use fil_actors_runtime::runtime::Policy;
use fil_actors_runtime::test_utils::make_sealed_cid;
use fil_actors_runtime::{REWARD_ACTOR_ID, SYSTEM_ACTOR_ID};
use fvm_ipld_bitfield::BitField;
use fvm_ipld_encoding::RawBytes;
use fvm_shared::ActorID;
use fvm_shared::address::Address;
use fvm_shared::bigint::BigInt;
use fvm_shared::econ::TokenAmount;
use fvm_shared::randomness::Randomness;
use fvm_shared::sector::{PoStProof, RegisteredPoStProof, RegisteredSealProof};
use num_traits::Zero;
use proptest::prelude::*;
use serde::{Deserialize, Serialize};
use std::collections::{BTreeMap, BTreeSet};

pub const DEADLINE_EPOCHS: i64 = 60;
pub const PERIOD: i64 = 2880;

#[derive(Clone, Debug, Serialize, Deserialize)]
pub enum Adv {
    Epochs(u16),
    /// to the last epoch of miner m's current deadline + rel (-1, 0, +1)
    DeadlineEnd { m: u8, rel: i8 },
    Deadlines { k: u8 },
    /// until the earliest outstanding pre-commit of miner m can be proven (+rel)
    ProveWindow { m: u8, rel: i8 },
    Days(u8),
    /// into the next deadline of miner m that holds live sectors, `into` epochs after it opens
    NextSectorDeadline { m: u8, into: u8 },
}

#[derive(Clone, Debug, Serialize, Deserialize)]
pub enum Who {
    Owner,
    Worker,
    Stranger,
    Reporter,
    OtherOwner,
}

#[derive(Clone, Debug, Serialize, Deserialize)]
pub enum Op {
    PreCommit { m: u8, n: u8, life_days: u16, bad: u8 },
    ProveCommit { m: u8, max: u8, bad_proof: bool, by: Who },
    Post { m: u8, skip: Vec<u16>, bad_proof: bool, partial: bool, by: Who },
    DeclareFaults { m: u8, sectors: Vec<u16>, by: Who },
    DeclareRecovered { m: u8, sectors: Vec<u16>, by: Who },
    Terminate { m: u8, sectors: Vec<u16>, by: Who },
    Extend { m: u8, sectors: Vec<u16>, add_days: u16 },
    Compact { m: u8, deadline: u8 },
    Reward { m: u8, milli: u32, penalty_milli: u32, wins: u8 },
    Withdraw { m: u8, by: Who, pm: u16 },
    RepayDebt { m: u8 },
    Dispute { m: u8, deadline: u8, index: u8 },
    ConsensusFault { m: u8, kind: u8, age: u16, by: Who },
    TopUp { m: u8, whole: u16 },
    Advance(Adv),
    /// macro: pre-commit n sectors, wait for the prove window, prove-commit them
    Onboard { m: u8, n: u8, life_days: u16 },
    /// macro: move into the next deadline of miner m that has sectors, then submit a PoSt
    PostNext { m: u8, into: u8, skip: Vec<u16>, bad_proof: bool, partial: bool },
    /// a fault injected into the k-th send of the next message: (ordinal fraction, abort?)
    InjectFault { ordinal: u16, syscall: bool },
}

#[derive(Clone, Debug, Serialize, Deserialize)]
pub struct SysCase {
    pub n_miners: u8,
    /// proof kinds per miner: 0 = 2KiB (2 sectors per partition), 1 = 8MiB, 2 = 32GiB
    pub proofs: Vec<u8>,
    pub ops: Vec<Op>,
}

pub struct MinerH {
    pub id: ActorID,
    pub owner: ActorID,
    pub worker: ActorID,
    pub seal: RegisteredSealProof,
    pub post: RegisteredPoStProof,
    pub next_sector: u64,
    pub creation_deposit: BigInt,
}

impl MinerH {
    pub fn clone_h(&self) -> MinerH {
        MinerH { id: self.id, owner: self.owner, worker: self.worker, seal: self.seal, post: self.post, next_sector: self.next_sector, creation_deposit: self.creation_deposit.clone() }
    }
}

pub struct Sys<'a> {
    pub w: World,
    pub miners: Vec<MinerH>,
    pub stranger: ActorID,
    pub reporter: ActorID,
    pub stats: &'a mut CaseStats,
    pub pending_fault: Option<(u16, bool)>,
    /// per miner: partitions posted in the currently open window (from accepted messages)
    pub ticks: u64,
    pub checks: super::checks::Checks,
    pub cushion_miner: Option<MinerH>,
}

pub fn proof_of(kind: u8) -> (RegisteredSealProof, RegisteredPoStProof) {
    match kind % 3 {
        0 => (RegisteredSealProof::StackedDRG2KiBV1P1, RegisteredPoStProof::StackedDRGWindow2KiBV1P1),
        1 => (RegisteredSealProof::StackedDRG8MiBV1P1, RegisteredPoStProof::StackedDRGWindow8MiBV1P1),
        _ => (RegisteredSealProof::StackedDRG32GiBV1P1, RegisteredPoStProof::StackedDRGWindow32GiBV1P1),
    }
}

impl<'a> Sys<'a> {
    pub fn new(case: &SysCase, stats: &'a mut CaseStats, focus: &str) -> VResult<Sys<'a>> {
        let w = World::new(policy_with_small_sectors());
        w.v.set_epoch(5);
        let stranger = w.account(600, &TokenAmount::from_whole(1000));
        let reporter = w.account(601, &TokenAmount::from_whole(1000));
        let mut s = Sys { w, miners: vec![], stranger, reporter, stats, pending_fault: None, ticks: 0, checks: super::checks::Checks::default(), cushion_miner: None };
        let n = (case.n_miners as usize).clamp(1, 3);
        for i in 0..n {
            let owner = s.w.account(610 + i as u16, &TokenAmount::from_whole(200_000));
            let worker = s.w.account(620 + i as u16, &TokenAmount::from_whole(1_000));
            let (seal, post) = proof_of(case.proofs.get(i).copied().unwrap_or(0));
            let (id, _) = s.w.create_miner(owner, worker, post, &TokenAmount::from_whole(5_000)).map_err(|r| Violation::new("create-miner-failed", r.message.clone()))?;
            let mv = read_miner(&s.w.v, id);
            s.miners.push(MinerH { id, owner, worker, seal, post, next_sector: 0, creation_deposit: mv.locked.clone() });
        }
        s.checks.focus = focus.to_string();
        s.checks.init(&s.w, &s.miners);
        s.after_message(None)?;
        Ok(s)
    }

    /// create the cushion miner and lock a large reward in it
    pub fn cushion(&mut self) -> VResult {
        let owner = self.w.account(690, &TokenAmount::from_whole(50_000));
        let (id, _) = self.w.create_miner(owner, owner, RegisteredPoStProof::StackedDRGWindow32GiBV1P1, &TokenAmount::from_whole(5_000)).map_err(|r| Violation::new("create-miner-failed", r.message.clone()))?;
        let mv = read_miner(&self.w.v, id);
        self.miners.push(MinerH { id, owner, worker: owner, seal: RegisteredSealProof::StackedDRG32GiBV1P1, post: RegisteredPoStProof::StackedDRGWindow32GiBV1P1, next_sector: 0, creation_deposit: mv.locked.clone() });
        self.checks.deposits.insert(id, mv.locked.clone());
        let gas = TokenAmount::from_whole(200_000);
        let p = fil_actor_reward::AwardBlockRewardParams { miner: Address::new_id(id), penalty: TokenAmount::zero(), gas_reward: gas.clone(), win_count: 1 };
        let r = self.w.call(SYSTEM_ACTOR_ID, REWARD_ACTOR_ID, fil_actor_reward::Method::AwardBlockReward as u64, &gas, &p);
        if !r.ok() {
            return Err(Violation::new("cushion-failed", r.message.clone()));
        }
        // the cushion miner is not an operation target
        let c = self.miners.pop().unwrap();
        self.cushion_miner = Some(c);
        self.after_message(Some(&r))
    }

    pub fn policy(&self) -> &Policy {
        &self.w.v.policy
    }

    fn who(&self, m: usize, w: &Who) -> ActorID {
        match w {
            Who::Owner => self.miners[m].owner,
            Who::Worker => self.miners[m].worker,
            Who::Stranger => self.stranger,
            Who::Reporter => self.reporter,
            Who::OtherOwner => self.miners[(m + 1) % self.miners.len()].owner,
        }
    }

    /// run the cron tick for the current epoch, check, advance one epoch
    pub fn tick(&mut self) -> VResult {
        let r = self.w.cron_tick();
        self.ticks += 1;
        let all = self.all_miners();
        self.checks.after_tick(&self.w, &all, &r, self.stats)?;
        self.w.v.set_epoch(self.w.v.epoch() + 1);
        Ok(())
    }

    pub fn advance_to(&mut self, target: i64) -> VResult {
        while self.w.v.epoch() < target {
            self.tick()?;
        }
        Ok(())
    }

    fn all_miners(&self) -> Vec<MinerH> {
        let mut v: Vec<MinerH> = self.miners.iter().map(|m| m.clone_h()).collect();
        if let Some(c) = &self.cushion_miner {
            v.push(c.clone_h());
        }
        v
    }

    fn after_message(&mut self, r: Option<&MsgResult>) -> VResult {
        let all = self.all_miners();
        self.checks.after_message(&self.w, &all, r, self.stats)
    }

    fn send<T: serde::Serialize>(&mut self, from: ActorID, to: ActorID, method: u64, value: &TokenAmount, p: &T) -> VResult<MsgResult> {
        if let Some((ord, syscall)) = self.pending_fault.take() {
            // place the fault on a real send of this message (dry run to count them)
            let (n, _) = self.w.v.dry_run_sends(from, &Address::new_id(to), value, method, params(p));
            if n > 0 {
                let k = 1 + pick(ord, n as usize) as u64;
                let mut plan = BTreeMap::new();
                plan.insert(k, if syscall { Fault::Syscall(fvm_shared::error::ErrorNumber::LimitExceeded) } else { Fault::Abort(16) });
                self.w.v.set_fault_plan(plan);
                self.stats.label("fault_injected");
            }
        }
        let r = self.w.call(from, to, method, value, p);
        self.after_message(Some(&r))?;
        Ok(r)
    }

    fn pick_sectors(&self, mv: &MinerView, refs: &[u16], pred: &dyn Fn(&MinerView, u64) -> bool) -> Vec<u64> {
        let all: Vec<u64> = mv.sectors.keys().copied().collect();
        let good: Vec<u64> = all.iter().copied().filter(|s| pred(mv, *s)).collect();
        let mut out = BTreeSet::new();
        for r in refs {
            if r % 4 != 0 && !good.is_empty() {
                out.insert(good[pick(*r, good.len())]);
            } else if !all.is_empty() {
                out.insert(all[pick(*r, all.len())]);
            } else {
                out.insert(*r as u64 % 8);
            }
        }
        out.into_iter().collect()
    }

    /// group sector numbers by their (deadline, partition)
    fn locate(mv: &MinerView, sectors: &[u64]) -> BTreeMap<(u64, u64), Vec<u64>> {
        let mut m: BTreeMap<(u64, u64), Vec<u64>> = BTreeMap::new();
        for s in sectors {
            let mut found = false;
            for (di, d) in mv.deadlines.iter().enumerate() {
                for (pi, p) in d.partitions.iter().enumerate() {
                    if p.sectors.contains(s) {
                        m.entry((di as u64, pi as u64)).or_default().push(*s);
                        found = true;
                    }
                }
            }
            if !found {
                m.entry((0, 0)).or_default().push(*s);
            }
        }
        m
    }

    pub fn step(&mut self, i: usize, op: &Op) -> VResult {
        let n = self.miners.len();
        let epoch = self.w.v.epoch();
        let zero = TokenAmount::zero();
        match op {
            Op::Onboard { m, n: count, life_days } => {
                self.step(i, &Op::PreCommit { m: *m, n: *count, life_days: *life_days, bad: 0 })?;
                self.step(i, &Op::Advance(Adv::ProveWindow { m: *m, rel: 1 }))?;
                self.step(i, &Op::ProveCommit { m: *m, max: 3, bad_proof: false, by: Who::Worker })?;
            }
            Op::PostNext { m, into, skip, bad_proof, partial } => {
                self.step(i, &Op::Advance(Adv::NextSectorDeadline { m: *m, into: *into }))?;
                self.step(i, &Op::Post { m: *m, skip: skip.clone(), bad_proof: *bad_proof, partial: *partial, by: Who::Worker })?;
            }
            Op::InjectFault { ordinal, syscall } => {
                self.pending_fault = Some((*ordinal, *syscall));
            }
            Op::Advance(a) => {
                let target = match a {
                    Adv::Epochs(k) => epoch + (*k as i64 % 200),
                    Adv::Days(d) => epoch + (*d as i64 % 4) * PERIOD,
                    Adv::Deadlines { k } => epoch + (*k as i64 % 50) * DEADLINE_EPOCHS,
                    Adv::DeadlineEnd { m, rel } => {
                        let mv = read_miner(&self.w.v, self.miners[*m as usize % n].id);
                        let dl_index = (epoch - mv.period_start).rem_euclid(PERIOD) / DEADLINE_EPOCHS;
                        let base = mv.period_start + ((epoch - mv.period_start).div_euclid(PERIOD)) * PERIOD;
                        base + (dl_index + 1) * DEADLINE_EPOCHS - 1 + *rel as i64
                    }
                    Adv::NextSectorDeadline { m, into } => {
                        let mv = read_miner(&self.w.v, self.miners[*m as usize % n].id);
                        let rel = (epoch - mv.period_start).rem_euclid(PERIOD);
                        let cur = (rel / DEADLINE_EPOCHS) as usize;
                        let base = epoch - rel;
                        let mut t = epoch;
                        for k in 0..48usize {
                            let d = (cur + k) % 48;
                            let live = mv.deadlines[d].partitions.iter().any(|p| p.sectors.len() > p.terminated.len());
                            if live {
                                let open = base + ((cur + k) as i64) * DEADLINE_EPOCHS;
                                let cand = open + (*into as i64 % DEADLINE_EPOCHS);
                                if cand > epoch {
                                    t = cand;
                                    break;
                                }
                            }
                        }
                        t
                    }
                    Adv::ProveWindow { m, rel } => {
                        let mv = read_miner(&self.w.v, self.miners[*m as usize % n].id);
                        match mv.precommits.values().map(|p| p.epoch).min() {
                            Some(e) => e + self.policy().pre_commit_challenge_delay + 1 + *rel as i64,
                            None => epoch,
                        }
                    }
                };
                self.advance_to(target)?;
            }
            Op::TopUp { m, whole } => {
                let h = &self.miners[*m as usize % n];
                let (owner, id) = (h.owner, h.id);
                let r = self.w.v.execute(owner, &Address::new_id(id), &TokenAmount::from_whole(*whole as i64), 0, None);
                self.after_message(Some(&r))?;
            }
            Op::PreCommit { m, n: count, life_days, bad } => {
                let mi_ = *m as usize % n;
                let (id, worker, seal) = (self.miners[mi_].id, self.miners[mi_].worker, self.miners[mi_].seal);
                let max_prove = mi::max_prove_commit_duration(self.policy(), seal).unwrap();
                let expiration = epoch + self.policy().min_sector_expiration + max_prove + (*life_days as i64 % 400) * PERIOD + 10;
                let mut sectors = vec![];
                for k in 0..(*count % 3 + 1) {
                    let mut num = self.miners[mi_].next_sector + k as u64;
                    if *bad == 1 && num > 0 {
                        num -= 1; // reuse an allocated number
                    }
                    sectors.push(mi::SectorPreCommitInfo {
                        seal_proof: seal,
                        sector_number: num,
                        sealed_cid: make_sealed_cid(format!("sn{}-{}", id, num).as_bytes()),
                        seal_rand_epoch: if *bad == 2 { epoch } else { epoch - 1 },
                        deal_ids: vec![],
                        expiration: if *bad == 3 { epoch + 100 } else { expiration },
                        unsealed_cid: mi::CompactCommD::empty(),
                    });
                }
                let r = self.send(worker, id, mi::Method::PreCommitSectorBatch2 as u64, &zero, &mi::PreCommitSectorBatchParams2 { sectors: sectors.clone() })?;
                self.stats.say(|| format!("op {i}: PreCommit miner {id} {} sectors at {epoch} -> {} {}", sectors.len(), r.code.value(), r.message));
                if r.ok() {
                    self.miners[mi_].next_sector = sectors.iter().map(|s| s.sector_number).max().unwrap() + 1;
                    self.stats.label("precommitted");
                }
            }
            Op::ProveCommit { m, max, bad_proof, by } => {
                let mi_ = *m as usize % n;
                let id = self.miners[mi_].id;
                let from = self.who(mi_, by);
                let mv = read_miner(&self.w.v, id);
                let delay = self.policy().pre_commit_challenge_delay;
                let ready: Vec<u64> = mv.precommits.iter().filter(|(_, p)| epoch > p.epoch + delay).map(|(k, _)| *k).take((*max % 4 + 1) as usize).collect();
                let chosen: Vec<u64> = if ready.is_empty() { mv.precommits.keys().copied().take(1).collect() } else { ready };
                if chosen.is_empty() {
                    return Ok(());
                }
                let p = mi::ProveCommitSectors3Params {
                    sector_activations: chosen.iter().map(|s| mi::SectorActivationManifest { sector_number: *s, pieces: vec![] }).collect(),
                    sector_proofs: chosen.iter().map(|_| RawBytes::new(if *bad_proof { BAD_PROOF.to_vec() } else { vec![1, 2, 3, 4] })).collect(),
                    aggregate_proof: RawBytes::default(),
                    aggregate_proof_type: None,
                    require_activation_success: false,
                    require_notification_success: false,
                };
                let r = self.send(from, id, mi::Method::ProveCommitSectors3 as u64, &zero, &p)?;
                self.stats.say(|| format!("op {i}: ProveCommit miner {id} {chosen:?} at {epoch} -> {} {}", r.code.value(), r.message));
                if r.ok() {
                    self.stats.label("proven");
                }
            }
            Op::Post { m, skip, bad_proof, partial, by } => {
                let mi_ = *m as usize % n;
                let id = self.miners[mi_].id;
                let from = self.who(mi_, by);
                let mv = read_miner(&self.w.v, id);
                let dl = ((epoch - mv.period_start).rem_euclid(PERIOD) / DEADLINE_EPOCHS) as usize;
                let open = mv.period_start + ((epoch - mv.period_start).div_euclid(PERIOD)) * PERIOD + dl as i64 * DEADLINE_EPOCHS;
                let d = &mv.deadlines[dl];
                let mut parts = vec![];
                for (pi, p) in d.partitions.iter().enumerate() {
                    if d.posted.contains(&(pi as u64)) && skip.len() % 5 != 4 {
                        continue;
                    }
                    if *partial && pi % 2 == 1 {
                        continue;
                    }
                    let live: Vec<u64> = p.sectors.difference(&p.terminated).copied().collect();
                    let mut sk = BitField::new();
                    for r in skip {
                        if !live.is_empty() && r % 3 != 0 {
                            sk.set(live[pick(*r, live.len())]);
                        }
                    }
                    parts.push(mi::PoStPartition { index: pi as u64, skipped: sk });
                }
                if parts.is_empty() {
                    parts.push(mi::PoStPartition { index: 0, skipped: BitField::new() });
                }
                let p = mi::SubmitWindowedPoStParams {
                    deadline: dl as u64,
                    partitions: parts.iter().map(|x| mi::PoStPartition { index: x.index, skipped: x.skipped.clone() }).collect(),
                    proofs: vec![PoStProof { post_proof: self.miners[mi_].post, proof_bytes: if *bad_proof { BAD_PROOF.to_vec() } else { vec![9] } }],
                    chain_commit_epoch: std::cmp::max(open - 1, 0).min(epoch - 1),
                    chain_commit_rand: Randomness(RAND_ARRAY.to_vec()),
                };
                let r = self.send(from, id, mi::Method::SubmitWindowedPoSt as u64, &zero, &p)?;
                self.stats.say(|| format!("op {i}: PoSt miner {id} deadline {dl} partitions {:?} bad={bad_proof} at {epoch} -> {} {}", parts.iter().map(|x| (x.index, bf(&x.skipped))).collect::<Vec<_>>(), r.code.value(), r.message));
                if r.ok() {
                    self.stats.label("post_accepted");
                    if parts.iter().any(|x| !x.skipped.is_empty()) {
                        self.stats.label("post_with_skips");
                    }
                    self.checks.note_post(id, dl as u64, &parts, *bad_proof);
                }
            }
            Op::DeclareFaults { m, sectors, by } | Op::DeclareRecovered { m, sectors, by } | Op::Terminate { m, sectors, by } => {
                let mi_ = *m as usize % n;
                let id = self.miners[mi_].id;
                let from = self.who(mi_, by);
                let mv = read_miner(&self.w.v, id);
                let is_fault = matches!(op, Op::DeclareFaults { .. });
                let is_rec = matches!(op, Op::DeclareRecovered { .. });
                let chosen = self.pick_sectors(&mv, sectors, &|mv, s| {
                    let faulty = mv.deadlines.iter().any(|d| d.partitions.iter().any(|p| p.faults.contains(&s)));
                    let live = mv.deadlines.iter().any(|d| d.partitions.iter().any(|p| p.sectors.contains(&s) && !p.terminated.contains(&s)));
                    if is_rec { faulty } else { live && (!is_fault || !faulty) }
                });
                if chosen.is_empty() {
                    return Ok(());
                }
                let loc = Self::locate(&mv, &chosen);
                let mk = |v: &Vec<u64>| {
                    let mut b = BitField::new();
                    for s in v {
                        b.set(*s);
                    }
                    b
                };
                let (method, r) = if is_fault {
                    let p = mi::DeclareFaultsParams { faults: loc.iter().map(|((d, p), v)| mi::FaultDeclaration { deadline: *d, partition: *p, sectors: mk(v) }).collect() };
                    ("DeclareFaults", self.send(from, id, mi::Method::DeclareFaults as u64, &zero, &p)?)
                } else if is_rec {
                    let p = mi::DeclareFaultsRecoveredParams { recoveries: loc.iter().map(|((d, p), v)| mi::RecoveryDeclaration { deadline: *d, partition: *p, sectors: mk(v) }).collect() };
                    ("DeclareFaultsRecovered", self.send(from, id, mi::Method::DeclareFaultsRecovered as u64, &zero, &p)?)
                } else {
                    let p = mi::TerminateSectorsParams { terminations: loc.iter().map(|((d, p), v)| mi::TerminationDeclaration { deadline: *d, partition: *p, sectors: mk(v) }).collect() };
                    ("TerminateSectors", self.send(from, id, mi::Method::TerminateSectors as u64, &zero, &p)?)
                };
                self.stats.say(|| format!("op {i}: {method} miner {id} {loc:?} at {epoch} -> {} {}", r.code.value(), r.message));
                if r.ok() {
                    self.stats.label(if is_fault { "faults_declared" } else if is_rec { "recovery_declared" } else { "terminated" });
                }
            }
            Op::Extend { m, sectors, add_days } => {
                let mi_ = *m as usize % n;
                let (id, worker) = (self.miners[mi_].id, self.miners[mi_].worker);
                let mv = read_miner(&self.w.v, id);
                let chosen = self.pick_sectors(&mv, sectors, &|mv, s| mv.deadlines.iter().any(|d| d.partitions.iter().any(|p| p.sectors.contains(&s) && !p.terminated.contains(&s) && !p.faults.contains(&s))));
                if chosen.is_empty() {
                    return Ok(());
                }
                let loc = Self::locate(&mv, &chosen);
                let exts: Vec<mi::ExpirationExtension2> = loc
                    .iter()
                    .map(|((d, p), v)| {
                        let mut b = BitField::new();
                        for s in v {
                            b.set(*s);
                        }
                        let cur = v.iter().filter_map(|s| mv.sectors.get(s)).map(|s| s.expiration).max().unwrap_or(epoch);
                        mi::ExpirationExtension2 { deadline: *d, partition: *p, sectors: b, sectors_with_claims: vec![], new_expiration: cur + (*add_days as i64 % 300) * PERIOD }
                    })
                    .collect();
                let r = self.send(worker, id, mi::Method::ExtendSectorExpiration2 as u64, &zero, &mi::ExtendSectorExpiration2Params { extensions: exts })?;
                self.stats.say(|| format!("op {i}: Extend miner {id} {loc:?} +{add_days}d -> {} {}", r.code.value(), r.message));
                if r.ok() {
                    self.stats.label("extended");
                }
            }
            Op::Compact { m, deadline } => {
                let mi_ = *m as usize % n;
                let (id, worker) = (self.miners[mi_].id, self.miners[mi_].worker);
                let mv = read_miner(&self.w.v, id);
                let with_parts: Vec<usize> = mv.deadlines.iter().enumerate().filter(|(_, d)| !d.partitions.is_empty()).map(|(i, _)| i).collect();
                if with_parts.is_empty() {
                    return Ok(());
                }
                let dl = with_parts[*deadline as usize % with_parts.len()];
                let mut b = BitField::new();
                for pi in 0..mv.deadlines[dl].partitions.len() {
                    b.set(pi as u64);
                }
                let r = self.send(worker, id, mi::Method::CompactPartitions as u64, &zero, &mi::CompactPartitionsParams { deadline: dl as u64, partitions: b })?;
                self.stats.say(|| format!("op {i}: Compact miner {id} deadline {dl} -> {} {}", r.code.value(), r.message));
                if r.ok() {
                    self.stats.label("compacted");
                }
            }
            Op::Reward { m, milli, penalty_milli, wins } => {
                let id = self.miners[*m as usize % n].id;
                let gas_reward = TokenAmount::from_atto(BigInt::from(*milli) * BigInt::from(10u64.pow(15)));
                let penalty = TokenAmount::from_atto(BigInt::from(*penalty_milli) * BigInt::from(10u64.pow(15)));
                // the gas reward is carried as value from the system actor
                let p = fil_actor_reward::AwardBlockRewardParams { miner: Address::new_id(id), penalty: penalty.clone(), gas_reward: gas_reward.clone(), win_count: (*wins % 3) as i64 };
                let v = if self.w.v.balance(SYSTEM_ACTOR_ID) >= gas_reward { gas_reward.clone() } else { TokenAmount::zero() };
                let p = if v.is_zero() { fil_actor_reward::AwardBlockRewardParams { gas_reward: TokenAmount::zero(), ..p } } else { p };
                let r = self.send(SYSTEM_ACTOR_ID, REWARD_ACTOR_ID, fil_actor_reward::Method::AwardBlockReward as u64, &v, &p)?;
                self.stats.say(|| format!("op {i}: AwardBlockReward miner {id} gas {gas_reward} penalty {penalty} wins {} -> {} {}", wins % 3, r.code.value(), r.message));
                if r.ok() {
                    self.stats.label("rewarded");
                }
            }
            Op::Withdraw { m, by, pm } => {
                let mi_ = *m as usize % n;
                let id = self.miners[mi_].id;
                let from = self.who(mi_, by);
                let mv = read_miner(&self.w.v, id);
                let bal = self.w.v.balance(id);
                let avail = bal.atto() - &mv.locked - &mv.pcd - &mv.ip - &mv.fee_debt;
                let amount = if avail.clone() > BigInt::zero() { (&avail * BigInt::from(*pm)) / BigInt::from(1000) } else { BigInt::from(*pm) };
                let r = self.send(from, id, mi::Method::WithdrawBalance as u64, &zero, &mi::WithdrawBalanceParams { amount_requested: TokenAmount::from_atto(amount.clone()) })?;
                self.stats.say(|| format!("op {i}: Withdraw miner {id} by {from} amount {amount} -> {} {}", r.code.value(), r.message));
                if r.ok() {
                    self.stats.label("withdrawn");
                }
            }
            Op::RepayDebt { m } => {
                let h = &self.miners[*m as usize % n];
                let (id, owner) = (h.id, h.owner);
                let r = self.w.call_raw(owner, id, mi::Method::RepayDebt as u64, &TokenAmount::from_whole(1), None);
                self.after_message(Some(&r))?;
            }
            Op::Dispute { m, deadline, index } => {
                let id = self.miners[*m as usize % n].id;
                let from = self.reporter;
                let r = self.send(from, id, mi::Method::DisputeWindowedPoSt as u64, &zero, &mi::DisputeWindowedPoStParams { deadline: *deadline as u64 % 48, post_index: *index as u64 % 2 })?;
                self.stats.say(|| format!("op {i}: Dispute miner {id} deadline {} index {} -> {} {}", deadline % 48, index % 2, r.code.value(), r.message));
                if r.ok() {
                    self.stats.label("dispute_succeeded");
                }
            }
            Op::ConsensusFault { m, kind, age, by } => {
                let mi_ = *m as usize % n;
                let id = self.miners[mi_].id;
                let from = self.who(mi_, by);
                let target = if *kind % 7 == 6 { self.miners[(mi_ + 1) % n].id } else { id };
                let h1 = consensus_fault_header(target, epoch - (*age as i64 % 1200), if *kind % 7 == 5 { 0 } else { 1 + (*kind % 3) });
                let r = self.send(from, id, mi::Method::ReportConsensusFault as u64, &zero, &mi::ReportConsensusFaultParams { header1: h1, header2: vec![1], header_extra: vec![] })?;
                self.stats.say(|| format!("op {i}: ReportConsensusFault miner {id} by {from} kind {kind} age {age} -> {} {}", r.code.value(), r.message));
                if r.ok() {
                    self.stats.label("consensus_fault_reported");
                }
            }
        }
        Ok(())
    }
}

pub fn adv_strategy() -> impl Strategy<Value = Adv> {
    prop_oneof![
        3 => (0u16..200).prop_map(Adv::Epochs),
        5 => (0u8..3, -1i8..2).prop_map(|(m, rel)| Adv::DeadlineEnd { m, rel }),
        3 => (0u8..50).prop_map(|k| Adv::Deadlines { k }),
        4 => (0u8..3, -1i8..3).prop_map(|(m, rel)| Adv::ProveWindow { m, rel }),
        1 => (0u8..4).prop_map(Adv::Days),
        8 => (0u8..3, prop_oneof![3 => 0u8..5, 1 => 0u8..60]).prop_map(|(m, into)| Adv::NextSectorDeadline { m, into }),
    ]
}

pub fn who_strategy() -> impl Strategy<Value = Who> {
    prop_oneof![10 => Just(Who::Worker), 3 => Just(Who::Owner), 1 => Just(Who::Stranger), 1 => Just(Who::OtherOwner)]
}

pub fn op_strategy() -> impl Strategy<Value = Op> {
    let refs = || proptest::collection::vec(any::<u16>(), 1..4);
    prop_oneof![
        8 => (0u8..3, 0u8..3, 0u16..400, prop_oneof![12 => Just(0u8), 1 => 1u8..4]).prop_map(|(m, n, life_days, bad)| Op::PreCommit { m, n, life_days, bad }),
        8 => (0u8..3, 0u8..4, prop_oneof![15 => Just(false), 1 => Just(true)], who_strategy()).prop_map(|(m, max, bad_proof, by)| Op::ProveCommit { m, max, bad_proof, by }),
        14 => (0u8..3, prop_oneof![4 => Just(vec![]), 1 => proptest::collection::vec(any::<u16>(), 1..3)], prop_oneof![12 => Just(false), 1 => Just(true)], prop_oneof![5 => Just(false), 1 => Just(true)], who_strategy()).prop_map(|(m, skip, bad_proof, partial, by)| Op::Post { m, skip, bad_proof, partial, by }),
        3 => (0u8..3, refs(), who_strategy()).prop_map(|(m, sectors, by)| Op::DeclareFaults { m, sectors, by }),
        3 => (0u8..3, refs(), who_strategy()).prop_map(|(m, sectors, by)| Op::DeclareRecovered { m, sectors, by }),
        2 => (0u8..3, refs(), who_strategy()).prop_map(|(m, sectors, by)| Op::Terminate { m, sectors, by }),
        2 => (0u8..3, refs(), 1u16..300).prop_map(|(m, sectors, add_days)| Op::Extend { m, sectors, add_days }),
        1 => (0u8..3, 0u8..48).prop_map(|(m, deadline)| Op::Compact { m, deadline }),
        4 => (0u8..3, 0u32..50_000, prop_oneof![3 => Just(0u32), 1 => 0u32..100_000], prop_oneof![1 => Just(0u8), 6 => 1u8..3]).prop_map(|(m, milli, penalty_milli, wins)| Op::Reward { m, milli, penalty_milli, wins }),
        3 => (0u8..3, prop_oneof![4 => Just(Who::Owner), 1 => Just(Who::Worker), 1 => Just(Who::Stranger)], prop_oneof![3 => 0u16..1000, 1 => Just(1000u16), 1 => 1001u16..2000]).prop_map(|(m, by, pm)| Op::Withdraw { m, by, pm }),
        1 => (0u8..3).prop_map(|m| Op::RepayDebt { m }),
        1 => (0u8..3, 0u8..48, 0u8..2).prop_map(|(m, deadline, index)| Op::Dispute { m, deadline, index }),
        1 => (0u8..3, 0u8..7, 0u16..1200, prop_oneof![Just(Who::Reporter), Just(Who::Stranger)]).prop_map(|(m, kind, age, by)| Op::ConsensusFault { m, kind, age, by }),
        1 => (0u8..3, 0u16..2000).prop_map(|(m, whole)| Op::TopUp { m, whole }),
        14 => adv_strategy().prop_map(Op::Advance),
        6 => (0u8..3, 0u8..3, 0u16..400).prop_map(|(m, n, life_days)| Op::Onboard { m, n, life_days }),
        16 => (0u8..3, prop_oneof![3 => 0u8..5, 1 => 0u8..60], prop_oneof![4 => Just(vec![]), 1 => proptest::collection::vec(any::<u16>(), 1..3)], prop_oneof![14 => Just(false), 1 => Just(true)], prop_oneof![6 => Just(false), 1 => Just(true)]).prop_map(|(m, into, skip, bad_proof, partial)| Op::PostNext { m, into, skip, bad_proof, partial }),
        1 => (any::<u16>(), any::<bool>()).prop_map(|(ordinal, syscall)| Op::InjectFault { ordinal, syscall }),
    ]
}

pub fn case_strategy(max_ops: usize) -> impl Strategy<Value = SysCase> {
    (1u8..4, proptest::collection::vec(prop_oneof![3 => Just(0u8), 1 => Just(1u8), 1 => Just(2u8)], 3), proptest::collection::vec(op_strategy(), 0..max_ops)).prop_map(|(n_miners, proofs, ops)| SysCase { n_miners, proofs, ops })
}
