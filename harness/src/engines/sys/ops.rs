//! System-level engine: real miners, every-epoch cron, generated operations (DESIGN §3 C01–C05, C10, C14, C15).

use super::view::*;
use crate::common::*;
use crate::simvm::{Fault, MsgResult, RAND_ARRAY, BAD_PROOF, consensus_fault_header};
use crate::world::*;
use fil_actor_miner as mi;
use fil_actors_runtime::runtime::Policy;
use fil_actors_runtime::test_utils::make_sealed_cid;
use fil_actors_runtime::{REWARD_ACTOR_ID, SYSTEM_ACTOR_ID};
use fvm_ipld_bitfield::BitField;
use fvm_ipld_encoding::RawBytes;
use fvm_shared::ActorID;
use fvm_shared::address::Address;
use fvm_shared::bigint::BigInt;
use fvm_shared::econ::TokenAmount;
use fvm_shared::randomness::Randomness;
use fvm_shared::sector::{PoStProof, RegisteredPoStProof, RegisteredSealProof};
use num_traits::{Signed, Zero};
use proptest::prelude::*;
use serde::{Deserialize, Serialize};
use std::collections::{BTreeMap, BTreeSet};

pub const DEADLINE_EPOCHS: i64 = 60;
pub const PERIOD: i64 = 2880;

#[derive(Clone, Debug, Serialize, Deserialize)]
pub enum Adv {
    Epochs(u16),
    /// to the last epoch of miner m's current deadline + rel (-1, 0, +1)
    DeadlineEnd { m: u8, rel: i8 },
    Deadlines { k: u8 },
    /// until the earliest outstanding pre-commit of miner m can be proven (+rel)
    ProveWindow { m: u8, rel: i8 },
    Days(u8),
    /// into the next deadline of miner m that holds live sectors, `into` epochs after it opens
    NextSectorDeadline { m: u8, into: u8 },
    /// to the expiration epoch of miner m's beneficiary term + rel (if that lies ahead, at most 3 days)
    BeneficiaryExpiry { m: u8, rel: i8 },
}

#[derive(Clone, Debug, Serialize, Deserialize)]
pub enum Who {
    Owner,
    Worker,
    Stranger,
    Reporter,
    OtherOwner,
    /// the miner's current beneficiary
    Beneficiary,
}

#[derive(Clone, Debug, Serialize, Deserialize)]
pub enum Op {
    PreCommit { m: u8, n: u8, life_days: u16, bad: u8 },
    ProveCommit { m: u8, max: u8, bad_proof: bool, by: Who },
    Post { m: u8, skip: Vec<u16>, bad_proof: bool, partial: bool, by: Who },
    DeclareFaults { m: u8, sectors: Vec<u16>, by: Who },
    DeclareRecovered { m: u8, sectors: Vec<u16>, by: Who },
    Terminate { m: u8, sectors: Vec<u16>, by: Who },
    Extend { m: u8, sectors: Vec<u16>, add_days: u16 },
    Compact { m: u8, deadline: u8 },
    Reward { m: u8, milli: u32, penalty_milli: u32, wins: u8 },
    Withdraw { m: u8, by: Who, pm: u16 },
    RepayDebt { m: u8 },
    Dispute { m: u8, deadline: u8, index: u8 },
    ConsensusFault { m: u8, kind: u8, age: u16, by: Who },
    TopUp { m: u8, whole: u16 },
    Advance(Adv),
    /// macro: pre-commit n sectors, wait for the prove window, prove-commit them
    Onboard { m: u8, n: u8, life_days: u16 },
    /// macro: move into the next deadline of miner m that has sectors, then submit a PoSt
    PostNext { m: u8, into: u8, skip: Vec<u16>, bad_proof: bool, partial: bool },
    /// a fault injected into the k-th send of the next message: (ordinal fraction, abort?)
    InjectFault { ordinal: u16, syscall: bool },
    /// a fault injected into a send below a cron callback of one of the next ticks (the first tick that makes enough sends)
    TickFault { ordinal: u16, syscall: bool },
    /// macro: onboard enough sectors at once (94 + n) that the assignment has to put several partitions into one deadline
    Bulk { m: u8, n: u8, life_days: u16 },
    /// macro: a long stretch of chain time (days), with (post) or without a Window PoSt for every deadline of miner m that holds sectors
    Long { m: u8, days: u16, post: bool },
    /// the wrapped operation with a failure injected into one of its nested sends
    WithFault { ordinal: u16, syscall: bool, op: Box<Op> },
    /// macro: dispute a PoSt the harness saw accepted (chosen by `pick`), after its deadline closed (rel: epochs after the close, -1 = before)
    DisputeRecent { pick: u16, rel: i16, index: u8 },
    /// macro: a PoSt with an invalid proof for the next deadline with sectors, then a dispute after the deadline closed
    BadPostDispute { m: u8, into: u8, rel: i16 },
    /// the verified client allocates datacap to miner m: piece sizes sector_size >> k, terms and expiry relative to the policy limits
    Allocate { m: u8, sizes: Vec<u8>, term_min_extra_days: u16, term_extra_days: u16, exp_days: u8 },
    /// pre-commit one sector of miner m whose content is planned from open allocations (picks) plus an optional unverified filler piece
    PreCommitV { m: u8, picks: Vec<u16>, life_days: u16, filler: bool, exp_mode: u8 },
    /// macro: allocate, pre-commit with those allocations, wait, prove-commit
    OnboardV { m: u8, sizes: Vec<u8>, life_days: u16, term_extra_days: u16, exp_mode: u8 },
    /// extend a sector with verified weight: mode 0 maintain all, 1 drop all, 2 drop first, 3 declare none, 4 add a foreign claim;
    /// target: 0 add_days, 1 = smallest claim term end + rel, 2 = into the last 30 days first
    ExtendV { m: u8, pick: u16, add_days: u16, mode: u8, target: u8, rel: i8 },
    /// the client extends the term of a claim
    ExtendClaim { pick: u16, add_days: u16, by_client: bool },
    /// anyone asks the registry to remove expired claims / allocations
    RemoveExpired { m: u8, claims: bool },
    /// macro: the owner nominates the reporter account as beneficiary (quota in milli-FIL, expiry exp_rel epochs ahead) and the nominee approves;
    /// back = hand the role back to the owner instead
    SetBeneficiary { m: u8, quota_milli: u32, exp_rel: u16, back: bool },
    /// macro: move to the beneficiary term's expiration + rel, then withdraw
    WithdrawAtExpiry { m: u8, rel: i8, by: Who, pm: u16 },
    /// macro: SetBeneficiary then WithdrawAtExpiry
    BeneficiaryCycle { m: u8, quota_milli: u32, exp_rel: u16, rel: i8, by: Who, pm: u16 },
    /// extend sectors of several partitions of ONE deadline in one message (prefers a deadline holding >= 2 partitions);
    /// common = all declarations name the same new expiration
    ExtendMany { m: u8, pick: u16, per_partition: u8, add_days: u16, common: bool },
    /// macro: run the chain (with or without a PoSt for every deadline of miner m) to the earliest on-time expiration of its live sectors + rel deadlines
    ToExpiry { m: u8, post: bool, rel: i8 },
    /// ProveReplicaUpdates3 for up to 4 empty (committed-capacity), healthy sectors chosen across deadlines; the new data is one
    /// piece per sector: verified (a fresh allocation, 10x QA power, pledge rises) where the sector size allows, else unverified
    ReplicaUpdate { m: u8, picks: Vec<u16>, verified: bool, bad_proof: bool },
    /// macro: onboard two batches, prove the next `posts` deadlines with sectors, then a replica update across them
    SnapCycle { m: u8, n: u8, posts: u8, picks: Vec<u16>, verified: bool, #[serde(default)] withdraw: bool },
    /// macro: a PoSt with an invalid proof (accepted optimistically), the deadline closes, a replica update (or an extension)
    /// changes the sectors of that deadline inside the dispute window, then the PoSt is disputed
    BadPostChangeDispute { m: u8, into: u8, picks: Vec<u16>, verified: bool, extend_instead: bool, rel: i16 },
    /// ProveCommitSectorsNI (non-interactive PoRep): n sectors with the NI proof type of size `kind` (None = the miner's own size)
    CommitNI { m: u8, n: u8, kind: Option<u8>, life_days: u16, deadline: u8, bad_proof: bool },
    /// macro: onboard a short-lived sector holding two or three claims whose terms end soon after it, keep it proven into
    /// its last 30 days, then extend it with a declaration that drops some claims and aims `rel` epochs around the
    /// earliest claim term end
    EolDropCycle { m: u8, sizes: Vec<u8>, term_extra_days: u16, mode: u8, rel: i8, add_days: u16 },
}

#[derive(Clone, Debug, Serialize, Deserialize)]
pub struct SysCase {
    pub n_miners: u8,
    /// proof kinds per miner: 0 = 2KiB (2 sectors per partition), 1 = 8MiB, 2 = 32GiB
    pub proofs: Vec<u8>,
    /// consensus minimum: 0 = mainnet (10 TiB), 1 = 2 KiB, 2 = 32 GiB (the documented devnet values)
    #[serde(default)]
    pub min_power: u8,
    /// the reward actor starts with only a few FIL (reaches the 'reward never pays out more than it holds' branch)
    #[serde(default)]
    pub poor_reward: bool,
    /// genesis gives the idle cushion miner a 10 EiB claim, so that rewards, pledges and fees per sector have realistic proportions
    #[serde(default)]
    pub whale: bool,
    /// initial funding of each miner beyond its creation deposit: 0 = 5000 FIL, 1 = 40 FIL, 2 = just above the deposit
    #[serde(default)]
    pub funding: Vec<u8>,
    pub ops: Vec<Op>,
}

pub struct MinerH {
    pub id: ActorID,
    pub owner: ActorID,
    pub worker: ActorID,
    pub seal: RegisteredSealProof,
    pub post: RegisteredPoStProof,
    pub next_sector: u64,
    pub creation_deposit: BigInt,
    pub created_at: i64,
}

impl MinerH {
    pub fn clone_h(&self) -> MinerH {
        MinerH { id: self.id, owner: self.owner, worker: self.worker, seal: self.seal, post: self.post, next_sector: self.next_sector, creation_deposit: self.creation_deposit.clone(), created_at: self.created_at }
    }
}

pub struct Sys<'a> {
    pub w: World,
    pub miners: Vec<MinerH>,
    pub stranger: ActorID,
    pub reporter: ActorID,
    pub stats: &'a mut CaseStats,
    pub pending_fault: Option<(u16, bool)>,
    /// per miner: partitions posted in the currently open window (from accepted messages)
    pub ticks: u64,
    pub checks: super::checks::Checks,
    pub cushion_miner: Option<MinerH>,
    pub pending_tick_fault: Option<(u16, bool)>,
    pub abandon: bool,
    /// accepted PoSts: (miner index, deadline, epoch at which that deadline closes, bad proof)
    pub recent_posts: Vec<(usize, u64, i64, bool)>,
    pub verifier: ActorID,
    pub vclient: ActorID,
    /// allocations made: (id, provider, piece cid, size)
    pub allocs: Vec<(u64, ActorID, cid::Cid, u64)>,
    /// planned content per (miner, sector): (piece cid, size, allocation id)
    pub plans: BTreeMap<(ActorID, u64), Vec<(cid::Cid, u64, Option<u64>)>>,
    pub piece_counter: u64,
    /// replica updates prefer sectors of this deadline (set by macros)
    pub prefer_deadline: Option<u64>,
}

pub fn proof_of(kind: u8) -> (RegisteredSealProof, RegisteredPoStProof) {
    match kind % 3 {
        0 => (RegisteredSealProof::StackedDRG2KiBV1P1, RegisteredPoStProof::StackedDRGWindow2KiBV1P1),
        1 => (RegisteredSealProof::StackedDRG8MiBV1P1, RegisteredPoStProof::StackedDRGWindow8MiBV1P1),
        _ => (RegisteredSealProof::StackedDRG32GiBV1P1, RegisteredPoStProof::StackedDRGWindow32GiBV1P1),
    }
}

impl<'a> Sys<'a> {
    pub fn new(case: &SysCase, stats: &'a mut CaseStats, focus: &str) -> VResult<Sys<'a>> {
        let mut pol = policy_with_small_sectors();
        match case.min_power % 3 {
            1 => pol.minimum_consensus_power = BigInt::from(2u64 << 10),
            2 => pol.minimum_consensus_power = BigInt::from(32u64 << 30),
            _ => {}
        }
        let w = if case.poor_reward { World::new_with(pol, TokenAmount::from_whole(60)) } else { World::new(pol) };
        if case.poor_reward {
            stats.label("poor_reward_actor");
        }
        w.v.set_epoch(5);
        if case.min_power % 3 != 0 {
            stats.label("devnet_consensus_minimum");
        }
        let stranger = w.account(600, &TokenAmount::from_whole(1000));
        let reporter = w.account(601, &TokenAmount::from_whole(1000));
        let mut s = Sys { w, miners: vec![], stranger, reporter, stats, pending_fault: None, ticks: 0, checks: super::checks::Checks::default(), cushion_miner: None, pending_tick_fault: None, abandon: false, recent_posts: vec![], verifier: 0, vclient: 0, allocs: vec![], plans: BTreeMap::new(), piece_counter: 0, prefer_deadline: None };
        s.setup_verified()?;
        let n = (case.n_miners as usize).clamp(1, 4);
        for i in 0..n {
            let owner = s.w.account(610 + i as u16, &TokenAmount::from_whole(200_000));
            let worker = s.w.account(620 + i as u16, &TokenAmount::from_whole(1_000));
            let (seal, post) = proof_of(case.proofs.get(i).copied().unwrap_or(0));
            let funds = match case.funding.get(i).copied().unwrap_or(0) % 3 {
                0 => TokenAmount::from_whole(5_000),
                1 => TokenAmount::from_whole(40),
                _ => TokenAmount::from_whole(33),
            };
            if case.funding.get(i).copied().unwrap_or(0) % 3 != 0 {
                s.stats.label("poorly_funded_miner");
            }
            let (id, _) = s.w.create_miner(owner, worker, post, &funds).map_err(|r| Violation::new("create-miner-failed", r.message.clone()))?;
            let mv = read_miner(&s.w.v, id);
            s.miners.push(MinerH { id, owner, worker, seal, post, next_sector: 0, creation_deposit: mv.locked.clone(), created_at: 5 });
        }
        s.checks.focus = focus.to_string();
        s.checks.init(&s.w, &s.miners);
        s.after_message(None)?;
        Ok(s)
    }

    /// create the cushion miner and lock a large reward in it
    /// genesis fixture: give `id` a claim of 10 EiB that no sector backs (only ever applied to the idle cushion miner)
    fn grant_phantom_power(&mut self, id: ActorID) {
        use fil_actor_power as pw;
        let v = &self.w.v;
        let mut st: pw::State = v.get_state(fil_actors_runtime::STORAGE_POWER_ACTOR_ID).expect("power state");
        let wp = BigInt::from(10u64) << 60u32;
        let mut claims = st.load_claims(&*v.store).expect("claims");
        let old = claims.get(&Address::new_id(id)).expect("get claim").expect("cushion claim").clone();
        pw::set_claim(&mut claims, &Address::new_id(id), pw::Claim { raw_byte_power: &old.raw_byte_power + &wp, quality_adj_power: &old.quality_adj_power + &wp, ..old }).expect("set claim");
        st.save_claims(&mut claims).expect("save claims");
        st.total_raw_byte_power += &wp;
        st.total_bytes_committed += &wp;
        st.total_quality_adj_power += &wp;
        st.total_qa_bytes_committed += &wp;
        st.this_epoch_raw_byte_power += &wp;
        st.this_epoch_quality_adj_power += &wp;
        st.this_epoch_qa_power_smoothed = fil_actors_runtime::reward::FilterEstimate::new(st.this_epoch_quality_adj_power.clone(), BigInt::zero());
        st.miner_above_min_power_count += 1;
        let head = v.put(&st);
        let mut a = v.actor(fil_actors_runtime::STORAGE_POWER_ACTOR_ID).unwrap();
        a.state = head;
        v.set_actor(fil_actors_runtime::STORAGE_POWER_ACTOR_ID, a);
        self.checks.phantom.insert(id, Pow { raw: wp.clone(), qa: wp });
        self.stats.label("whale_network");
    }

    pub fn cushion(&mut self, whale: bool) -> VResult {
        let owner = self.w.account(690, &TokenAmount::from_whole(50_000));
        let (id, _) = self.w.create_miner(owner, owner, RegisteredPoStProof::StackedDRGWindow32GiBV1P1, &TokenAmount::from_whole(5_000)).map_err(|r| Violation::new("create-miner-failed", r.message.clone()))?;
        let mv = read_miner(&self.w.v, id);
        self.miners.push(MinerH { id, owner, worker: owner, seal: RegisteredSealProof::StackedDRG32GiBV1P1, post: RegisteredPoStProof::StackedDRGWindow32GiBV1P1, next_sector: 0, creation_deposit: mv.locked.clone(), created_at: -1 });
        self.checks.deposits.insert(id, mv.locked.clone());
        let gas = TokenAmount::from_whole(200_000);
        let p = fil_actor_reward::AwardBlockRewardParams { miner: Address::new_id(id), penalty: TokenAmount::zero(), gas_reward: gas.clone(), win_count: 1 };
        let r = self.w.call(SYSTEM_ACTOR_ID, REWARD_ACTOR_ID, fil_actor_reward::Method::AwardBlockReward as u64, &gas, &p);
        if !r.ok() {
            return Err(Violation::new("cushion-failed", r.message.clone()));
        }
        // the cushion miner is not an operation target
        let c = self.miners.pop().unwrap();
        self.cushion_miner = Some(c);
        self.after_message(Some(&r))?;
        if whale {
            self.grant_phantom_power(id);
            self.after_message(None)?;
        }
        Ok(())
    }

    fn setup_verified(&mut self) -> VResult {
        use fil_actor_verifreg as vr;
        let w = &self.w;
        let verifier = w.account(630, &TokenAmount::from_whole(10));
        let vclient = w.account(631, &TokenAmount::from_whole(10));
        let allowance = BigInt::from(1u64 << 50);
        let p = vr::AddVerifierParams { address: Address::new_id(verifier), allowance: allowance.clone() };
        let r = w.call(
            w.root_signer,
            w.root_msig,
            fil_actor_multisig::Method::Propose as u64,
            &TokenAmount::zero(),
            &fil_actor_multisig::ProposeParams { to: Address::new_id(fil_actors_runtime::VERIFIED_REGISTRY_ACTOR_ID), value: TokenAmount::zero(), method: vr::Method::AddVerifier as u64, params: RawBytes::serialize(&p).unwrap() },
        );
        if !r.ok() {
            return Err(Violation::new("setup-verifier-failed", r.message.clone()));
        }
        let r = w.call(verifier, fil_actors_runtime::VERIFIED_REGISTRY_ACTOR_ID, vr::Method::AddVerifiedClient as u64, &TokenAmount::zero(), &vr::AddVerifiedClientParams { address: Address::new_id(vclient), allowance });
        if !r.ok() {
            return Err(Violation::new("setup-client-failed", r.message.clone()));
        }
        self.verifier = verifier;
        self.vclient = vclient;
        Ok(())
    }

    fn pieces_for(&self, miner: ActorID, sector: u64) -> Vec<mi::PieceActivationManifest> {
        match self.plans.get(&(miner, sector)) {
            None => vec![],
            Some(ps) => ps
                .iter()
                .map(|(cid, size, alloc)| mi::PieceActivationManifest {
                    cid: *cid,
                    size: fvm_shared::piece::PaddedPieceSize(*size),
                    verified_allocation_key: alloc.map(|id| mi::VerifiedAllocationKey { client: self.vclient, id }),
                    notify: vec![],
                })
                .collect(),
        }
    }

    pub fn policy(&self) -> &Policy {
        &self.w.v.policy
    }

    fn who(&self, m: usize, w: &Who) -> ActorID {
        match w {
            Who::Owner => self.miners[m].owner,
            Who::Worker => self.miners[m].worker,
            Who::Stranger => self.stranger,
            Who::Reporter => self.reporter,
            Who::OtherOwner => self.miners[(m + 1) % self.miners.len()].owner,
            Who::Beneficiary => read_miner(&self.w.v, self.miners[m].id).beneficiary,
        }
    }

    /// run the cron tick for the current epoch, check, advance one epoch
    pub fn tick(&mut self) -> VResult {
        if self.abandon {
            self.w.v.set_epoch(self.w.v.epoch() + 1);
            return Ok(());
        }
        if let Some((ord, syscall)) = self.pending_tick_fault {
            // candidates: sends that are not the dispatch chain itself (cron -> power/market, power -> miner callback)
            let snap = self.w.v.snapshot();
            let dry = self.w.cron_tick();
            self.w.v.restore(&snap);
            let mut cands: Vec<u64> = vec![];
            dry.trace.walk(&mut |t, depth| {
                let dispatch = depth <= 1 || (t.from == fil_actors_runtime::STORAGE_POWER_ACTOR_ID && t.method == mi::Method::OnDeferredCronEvent as u64);
                if !dispatch && t.ordinal != u64::MAX && t.ordinal > 0 {
                    cands.push(t.ordinal);
                }
            });
            if cands.len() >= 3 {
                let k = cands[pick(ord, cands.len())];
                let mut plan = BTreeMap::new();
                plan.insert(k, if syscall { Fault::Syscall(fvm_shared::error::ErrorNumber::LimitExceeded) } else { Fault::Abort(16) });
                self.w.v.set_fault_plan(plan);
                self.pending_tick_fault = None;
                let snap2 = self.w.v.snapshot();
                let r = self.w.cron_tick();
                // tolerated iff the invocation that issued the failing send still returned OK
                let mut tolerated = false;
                r.trace.walk(&mut |t, _| {
                    if t.subs.iter().any(|s| s.injected) && t.ok() {
                        tolerated = true;
                    }
                });
                if !tolerated {
                    // the actor did not tolerate this failure: the fault is dropped and the tick re-run
                    self.stats.count("tick_fault_not_tolerated_dropped", 1);
                    self.w.v.restore(&snap2);
                    let r = self.w.cron_tick();
                    self.ticks += 1;
                    let all = self.all_miners();
                    self.checks.after_tick(&self.w, &all, &r, self.stats)?;
                    self.w.v.set_epoch(self.w.v.epoch() + 1);
                    return Ok(());
                }
                self.stats.label("tolerated_fault_in_tick");
                self.ticks += 1;
                let all = self.all_miners();
                self.checks.after_tick(&self.w, &all, &r, self.stats)?;
                self.w.v.set_epoch(self.w.v.epoch() + 1);
                return Ok(());
            }
        }
        let r = self.w.cron_tick();
        self.ticks += 1;
        let all = self.all_miners();
        self.checks.after_tick(&self.w, &all, &r, self.stats)?;
        self.w.v.set_epoch(self.w.v.epoch() + 1);
        Ok(())
    }

    pub fn advance_to(&mut self, target: i64) -> VResult {
        while self.w.v.epoch() < target {
            self.tick()?;
        }
        Ok(())
    }

    fn all_miners(&self) -> Vec<MinerH> {
        let mut v: Vec<MinerH> = self.miners.iter().map(|m| m.clone_h()).collect();
        if let Some(c) = &self.cushion_miner {
            v.push(c.clone_h());
        }
        v
    }

    fn after_message(&mut self, r: Option<&MsgResult>) -> VResult {
        let all = self.all_miners();
        self.checks.after_message(&self.w, &all, r, self.stats)
    }

    fn send<T: serde::Serialize>(&mut self, from: ActorID, to: ActorID, method: u64, value: &TokenAmount, p: &T) -> VResult<MsgResult> {
        if let Some((ord, syscall)) = self.pending_fault.take() {
            // place the fault on a real send of this message (dry run to count them)
            let (n, _) = self.w.v.dry_run_sends(from, &Address::new_id(to), value, method, params(p));
            if n > 0 {
                let k = 1 + pick(ord, n as usize) as u64;
                let mut plan = BTreeMap::new();
                plan.insert(k, if syscall { Fault::Syscall(fvm_shared::error::ErrorNumber::LimitExceeded) } else { Fault::Abort(16) });
                self.w.v.set_fault_plan(plan);
                self.stats.label("fault_injected");
            }
        }
        let r = self.w.call(from, to, method, value, p);
        self.after_message(Some(&r))?;
        Ok(r)
    }

    fn pick_sectors(&self, mv: &MinerView, refs: &[u16], pred: &dyn Fn(&MinerView, u64) -> bool) -> Vec<u64> {
        let all: Vec<u64> = mv.sectors.keys().copied().collect();
        let good: Vec<u64> = all.iter().copied().filter(|s| pred(mv, *s)).collect();
        let mut out = BTreeSet::new();
        for r in refs {
            if r % 4 != 0 && !good.is_empty() {
                out.insert(good[pick(*r, good.len())]);
            } else if !all.is_empty() {
                out.insert(all[pick(*r, all.len())]);
            } else {
                out.insert(*r as u64 % 8);
            }
        }
        out.into_iter().collect()
    }

    /// group sector numbers by their (deadline, partition)
    fn locate(mv: &MinerView, sectors: &[u64]) -> BTreeMap<(u64, u64), Vec<u64>> {
        let mut m: BTreeMap<(u64, u64), Vec<u64>> = BTreeMap::new();
        for s in sectors {
            let mut found = false;
            for (di, d) in mv.deadlines.iter().enumerate() {
                for (pi, p) in d.partitions.iter().enumerate() {
                    if p.sectors.contains(s) {
                        m.entry((di as u64, pi as u64)).or_default().push(*s);
                        found = true;
                    }
                }
            }
            if !found {
                m.entry((0, 0)).or_default().push(*s);
            }
        }
        m
    }

    pub fn step(&mut self, i: usize, op: &Op) -> VResult {
        if self.abandon {
            return Ok(());
        }
        let n = self.miners.len();
        let epoch = self.w.v.epoch();
        let zero = TokenAmount::zero();
        match op {
            Op::Onboard { m, n: count, life_days } => {
                self.step(i, &Op::PreCommit { m: *m, n: *count, life_days: *life_days, bad: 0 })?;
                self.step(i, &Op::Advance(Adv::ProveWindow { m: *m, rel: 1 }))?;
                self.step(i, &Op::ProveCommit { m: *m, max: 3, bad_proof: false, by: Who::Worker })?;
            }
            Op::Bulk { m, n: extra, life_days } => {
                let mi_ = *m as usize % n;
                let (id, worker, seal) = (self.miners[mi_].id, self.miners[mi_].worker, self.miners[mi_].seal);
                let max_prove = mi::max_prove_commit_duration(self.policy(), seal).unwrap();
                let expiration = epoch + self.policy().min_sector_expiration + max_prove + (*life_days as i64 % 400) * PERIOD + 10;
                let first = self.miners[mi_].next_sector;
                let count = 94 + (*extra as u64 % 40);
                let sectors: Vec<mi::SectorPreCommitInfo> = (first..first + count)
                    .map(|num| mi::SectorPreCommitInfo {
                        seal_proof: seal,
                        sector_number: num,
                        sealed_cid: make_sealed_cid(format!("sn{}-{}", id, num).as_bytes()),
                        seal_rand_epoch: epoch - 1,
                        deal_ids: vec![],
                        expiration,
                        unsealed_cid: mi::CompactCommD::empty(),
                    })
                    .collect();
                let r = self.send(worker, id, mi::Method::PreCommitSectorBatch2 as u64, &zero, &mi::PreCommitSectorBatchParams2 { sectors })?;
                self.stats.say(|| format!("op {i}: bulk PreCommit miner {id} {count} sectors from {first} at {epoch} -> {} {}", r.code.value(), r.message));
                if !r.ok() {
                    return Ok(());
                }
                self.miners[mi_].next_sector = first + count;
                self.step(i, &Op::Advance(Adv::ProveWindow { m: *m, rel: 1 }))?;
                let nums: Vec<u64> = (first..first + count).collect();
                let p = mi::ProveCommitSectors3Params {
                    sector_activations: nums.iter().map(|s| mi::SectorActivationManifest { sector_number: *s, pieces: vec![] }).collect(),
                    sector_proofs: nums.iter().map(|_| RawBytes::new(vec![1, 2, 3, 4])).collect(),
                    aggregate_proof: RawBytes::default(),
                    aggregate_proof_type: None,
                    require_activation_success: false,
                    require_notification_success: false,
                };
                let r = self.send(worker, id, mi::Method::ProveCommitSectors3 as u64, &zero, &p)?;
                self.stats.say(|| format!("op {i}: bulk ProveCommit miner {id} {count} sectors -> {} {}", r.code.value(), r.message));
                if r.ok() {
                    self.stats.label("proven");
                    self.stats.label("bulk_onboarded");
                }
            }
            Op::EolDropCycle { m, sizes, term_extra_days, mode, rel, add_days } => {
                self.step(i, &Op::OnboardV { m: *m, sizes: sizes.clone(), life_days: 0, term_extra_days: 31 + *term_extra_days % 60, exp_mode: 0 })?;
                // the sector just onboarded is the miner's newest sector with verified weight: pick = last
                self.step(i, &Op::ExtendV { m: *m, pick: 65535, add_days: *add_days, mode: *mode, target: 2, rel: *rel })?;
            }
            Op::CommitNI { m, n: cnt, kind, life_days, deadline, bad_proof } => {
                let mi_ = *m as usize % n;
                let (id, worker, seal) = (self.miners[mi_].id, self.miners[mi_].worker, self.miners[mi_].seal);
                let own_kind = match seal {
                    RegisteredSealProof::StackedDRG2KiBV1P1 => 0u8,
                    RegisteredSealProof::StackedDRG8MiBV1P1 => 1,
                    _ => 2,
                };
                let k = kind.map(|k| k % 3).unwrap_or(own_kind);
                let ni = match k {
                    0 => RegisteredSealProof::StackedDRG2KiBV1P2_Feat_NiPoRep,
                    1 => RegisteredSealProof::StackedDRG8MiBV1P2_Feat_NiPoRep,
                    _ => RegisteredSealProof::StackedDRG32GiBV1P2_Feat_NiPoRep,
                };
                let mv = read_miner(&self.w.v, id);
                let first = self.miners[mi_].next_sector;
                let count = (*cnt % 3 + 1) as u64;
                let expiration = epoch + self.policy().min_sector_expiration + (*life_days as i64 % 300) * PERIOD + 10;
                let sectors: Vec<mi::SectorNIActivationInfo> = (first..first + count)
                    .map(|num| mi::SectorNIActivationInfo { sealing_number: num, sealer_id: id, sealed_cid: make_sealed_cid(format!("ni{}-{}", id, num).as_bytes()), sector_number: num, seal_rand_epoch: epoch - 1, expiration })
                    .collect();
                let cur = ((epoch - mv.period_start).rem_euclid(PERIOD) / DEADLINE_EPOCHS) as u64;
                let p = mi::ProveCommitSectorsNIParams {
                    sectors,
                    aggregate_proof: RawBytes::new(if *bad_proof { BAD_PROOF.to_vec() } else { vec![5, 5, 5] }),
                    seal_proof_type: ni,
                    aggregate_proof_type: fvm_shared::sector::RegisteredAggregateProof::SnarkPackV2,
                    proving_deadline: (cur + 3 + (*deadline as u64 % 40)) % 48,
                    require_activation_success: false,
                };
                let r = self.send(worker, id, mi::Method::ProveCommitSectorsNI as u64, &zero, &p)?;
                self.stats.say(|| format!("op {i}: ProveCommitSectorsNI miner {id} {count} sectors from {first} proof kind {k} (miner kind {own_kind}) -> {} {}", r.code.value(), r.message));
                if r.ok() {
                    self.miners[mi_].next_sector = first + count;
                    self.stats.label("proven");
                    self.stats.label("committed_non_interactively");
                    if k != own_kind {
                        self.stats.label("ni_commit_with_foreign_sector_size_accepted");
                    }
                }
            }
            Op::BadPostChangeDispute { m, into, picks, verified, extend_instead, rel } => {
                let before = self.recent_posts.len();
                self.step(i, &Op::PostNext { m: *m, into: *into, skip: vec![], bad_proof: true, partial: false })?;
                if self.recent_posts.len() == before || !self.recent_posts[self.recent_posts.len() - 1].3 {
                    return Ok(());
                }
                let (mi_, dl, close, _) = self.recent_posts[self.recent_posts.len() - 1];
                self.advance_to(close + 1 + (*rel as i64).max(0))?;
                if *extend_instead {
                    self.step(i, &Op::ExtendMany { m: mi_ as u8, pick: 0, per_partition: 2, add_days: 30, common: false })?;
                } else {
                    self.prefer_deadline = Some(dl);
                    let r = self.step(i, &Op::ReplicaUpdate { m: mi_ as u8, picks: picks.clone(), verified: *verified, bad_proof: false });
                    self.prefer_deadline = None;
                    r?;
                }
                let bad = self.recent_posts.iter().filter(|p| p.3).count();
                let pk = (((bad - 1) as u32 * 65536 + 65535) / bad as u32).min(65535) as u16;
                let pk = if pk % 4 == 0 { pk.saturating_sub(1) } else { pk };
                self.step(i, &Op::DisputeRecent { pick: pk, rel: 1 + (*rel).max(0), index: 0 })?;
            }
            Op::SnapCycle { m, n: cnt, posts, picks, verified, withdraw } => {
                self.step(i, &Op::Onboard { m: *m, n: *cnt, life_days: 120 })?;
                self.step(i, &Op::Onboard { m: *m, n: *cnt, life_days: 150 })?;
                for _ in 0..(2 + *posts % 4) {
                    self.step(i, &Op::PostNext { m: *m, into: 1, skip: vec![], bad_proof: false, partial: false })?;
                }
                self.step(i, &Op::ReplicaUpdate { m: *m, picks: picks.clone(), verified: *verified, bad_proof: false })?;
                if *withdraw {
                    self.step(i, &Op::Withdraw { m: *m, by: Who::Owner, pm: 1000 })?;
                }
            }
            Op::ReplicaUpdate { m, picks, verified, bad_proof } => {
                use fil_actor_verifreg as vr;
                let mi_ = *m as usize % n;
                let (id, worker, seal) = (self.miners[mi_].id, self.miners[mi_].worker, self.miners[mi_].seal);
                let mv = read_miner(&self.w.v, id);
                // candidates: healthy, proven, empty sectors; prefer one per deadline so that the batch spans deadlines
                #[allow(unused_mut)]
                let mut by_deadline: Vec<Vec<(u64, u64, u64)>> = vec![];
                for (di, d) in mv.deadlines.iter().enumerate() {
                    let mut here = vec![];
                    for (pi, p) in d.partitions.iter().enumerate() {
                        for s in &p.sectors {
                            let empty = mv.sectors.get(s).map(|i| i.deal_weight.is_zero() && i.verified_weight.is_zero()).unwrap_or(false);
                            if empty && !p.terminated.contains(s) && !p.faults.contains(s) && !p.unproven.contains(s) {
                                here.push((di as u64, pi as u64, *s));
                            }
                        }
                    }
                    if !here.is_empty() {
                        by_deadline.push(here);
                    }
                }
                if by_deadline.is_empty() {
                    return Ok(());
                }
                if let Some(pd) = self.prefer_deadline {
                    let only: Vec<Vec<(u64, u64, u64)>> = by_deadline.iter().filter(|v| v[0].0 == pd).cloned().collect();
                    if !only.is_empty() {
                        by_deadline = only;
                    }
                }
                let mut chosen: Vec<(u64, u64, u64)> = vec![];
                for (k, pk) in picks.iter().take(4).enumerate() {
                    let dl = &by_deadline[(pick(*pk, by_deadline.len()) + k) % by_deadline.len()];
                    let c = dl[pick(pk.rotate_left(5), dl.len())];
                    if !chosen.contains(&c) {
                        chosen.push(c);
                    }
                }
                let ssize = mv.sector_size;
                let mut updates = vec![];
                for (d, p, s) in &chosen {
                    self.piece_counter += 1;
                    let data = fil_actors_runtime::test_utils::make_piece_cid(format!("snap-{}", self.piece_counter).as_bytes());
                    let mut key = None;
                    if *verified && ssize >= (1 << 20) {
                        let info = &mv.sectors[s];
                        let life = info.expiration - epoch;
                        let pol = self.policy().clone();
                        if life > pol.minimum_verified_allocation_term {
                            let req = vr::AllocationRequest { provider: id, data, size: fvm_shared::piece::PaddedPieceSize(ssize), term_min: pol.minimum_verified_allocation_term, term_max: std::cmp::min(life + 30 * PERIOD, pol.maximum_verified_allocation_term), expiration: epoch + 10 * PERIOD };
                            let params = frc46_token::token::types::TransferParams {
                                to: Address::new_id(fil_actors_runtime::VERIFIED_REGISTRY_ACTOR_ID),
                                amount: TokenAmount::from_atto(BigInt::from(ssize) * BigInt::from(10u64.pow(18))),
                                operator_data: RawBytes::serialize(&vr::AllocationRequests { allocations: vec![req], extensions: vec![] }).unwrap(),
                            };
                            let from = self.vclient;
                            let r = self.send(from, fil_actors_runtime::DATACAP_TOKEN_ACTOR_ID, fil_actor_datacap::Method::TransferExported as u64, &zero, &params)?;
                            if r.ok() {
                                let ret: Option<frc46_token::token::types::TransferReturn> = r.de();
                                let resp: Option<vr::AllocationsResponse> = ret.and_then(|t| fvm_ipld_encoding::from_slice(&t.recipient_data).ok());
                                if let Some(aid) = resp.and_then(|x| x.new_allocations.first().copied()) {
                                    self.allocs.push((aid, id, data, ssize));
                                    key = Some(mi::VerifiedAllocationKey { client: self.vclient, id: aid });
                                }
                            }
                        }
                    }
                    updates.push(mi::SectorUpdateManifest {
                        sector: *s,
                        deadline: *d,
                        partition: *p,
                        new_sealed_cid: make_sealed_cid(format!("snap-sealed-{}-{}", id, s).as_bytes()),
                        pieces: vec![mi::PieceActivationManifest { cid: data, size: fvm_shared::piece::PaddedPieceSize(ssize), verified_allocation_key: key, notify: vec![] }],
                    });
                }
                let p = mi::ProveReplicaUpdates3Params {
                    sector_proofs: updates.iter().map(|_| RawBytes::new(if *bad_proof { BAD_PROOF.to_vec() } else { vec![7, 7] })).collect(),
                    sector_updates: updates,
                    aggregate_proof: RawBytes::default(),
                    update_proofs_type: seal.registered_update_proof().unwrap(),
                    aggregate_proof_type: None,
                    require_activation_success: false,
                    require_notification_success: false,
                };
                let deadlines: BTreeSet<u64> = chosen.iter().map(|c| c.0).collect();
                let r = self.send(worker, id, mi::Method::ProveReplicaUpdates3 as u64, &zero, &p)?;
                self.stats.say(|| format!("op {i}: ProveReplicaUpdates3 miner {id} {chosen:?} verified={verified} -> {} {}", r.code.value(), r.message));
                if r.ok() {
                    self.stats.label("replica_updated");
                    if deadlines.len() >= 2 {
                        self.stats.label("replica_update_across_deadlines");
                    }
                }
            }
            Op::ToExpiry { m, post, rel } => {
                let mv = read_miner(&self.w.v, self.miners[*m as usize % n].id);
                let mut first: Option<i64> = None;
                for d in &mv.deadlines {
                    for p in &d.partitions {
                        for (e, set) in &p.expirations {
                            if !set.on_time.is_empty() {
                                first = Some(first.map_or(*e, |f: i64| f.min(*e)));
                            }
                        }
                    }
                }
                if let Some(e) = first {
                    let target = e + (*rel as i64) * DEADLINE_EPOCHS;
                    if target > epoch && target - epoch < 640 * PERIOD {
                        self.stats.label("ran_to_on_time_expiration");
                        let days = ((target - epoch) / PERIOD) as u16;
                        self.step(i, &Op::Long { m: *m, days, post: *post })?;
                        self.advance_to(target)?;
                    }
                }
            }
            Op::Long { m, days, post } => {
                let target = epoch + (*days as i64) * PERIOD;
                self.stats.label(if *days >= 178 { "long_180_days" } else if *days >= 42 { "long_42_days" } else { "long_days" });
                if *post {
                    loop {
                        let before = self.w.v.epoch();
                        self.step(i, &Op::Advance(Adv::NextSectorDeadline { m: *m, into: 1 }))?;
                        let now = self.w.v.epoch();
                        if now == before || now >= target {
                            break;
                        }
                        self.step(i, &Op::Post { m: *m, skip: vec![], bad_proof: false, partial: false, by: Who::Worker })?;
                    }
                }
                self.advance_to(target)?;
            }
            Op::PostNext { m, into, skip, bad_proof, partial } => {
                self.step(i, &Op::Advance(Adv::NextSectorDeadline { m: *m, into: *into }))?;
                self.step(i, &Op::Post { m: *m, skip: skip.clone(), bad_proof: *bad_proof, partial: *partial, by: Who::Worker })?;
            }
            Op::InjectFault { ordinal, syscall } => {
                self.pending_fault = Some((*ordinal, *syscall));
            }
            Op::TickFault { ordinal, syscall } => {
                self.pending_tick_fault = Some((*ordinal, *syscall));
            }
            Op::Advance(a) => {
                let target = match a {
                    Adv::Epochs(k) => epoch + (*k as i64 % 200),
                    Adv::Days(d) => epoch + (*d as i64 % 4) * PERIOD,
                    Adv::Deadlines { k } => epoch + (*k as i64 % 50) * DEADLINE_EPOCHS,
                    Adv::DeadlineEnd { m, rel } => {
                        let mv = read_miner(&self.w.v, self.miners[*m as usize % n].id);
                        let dl_index = (epoch - mv.period_start).rem_euclid(PERIOD) / DEADLINE_EPOCHS;
                        let base = mv.period_start + ((epoch - mv.period_start).div_euclid(PERIOD)) * PERIOD;
                        base + (dl_index + 1) * DEADLINE_EPOCHS - 1 + *rel as i64
                    }
                    Adv::NextSectorDeadline { m, into } => {
                        let mv = read_miner(&self.w.v, self.miners[*m as usize % n].id);
                        let rel = (epoch - mv.period_start).rem_euclid(PERIOD);
                        let cur = (rel / DEADLINE_EPOCHS) as usize;
                        let base = epoch - rel;
                        let mut t = epoch;
                        for k in 0..=48usize {
                            let d = (cur + k) % 48;
                            let live = mv.deadlines[d].partitions.iter().any(|p| p.sectors.len() > p.terminated.len());
                            if live {
                                let open = base + ((cur + k) as i64) * DEADLINE_EPOCHS;
                                let cand = open + (*into as i64 % DEADLINE_EPOCHS);
                                if cand > epoch {
                                    t = cand;
                                    break;
                                }
                            }
                        }
                        t
                    }
                    Adv::BeneficiaryExpiry { m, rel } => {
                        let mv = read_miner(&self.w.v, self.miners[*m as usize % n].id);
                        let t = mv.beneficiary_term.2 + *rel as i64;
                        if mv.beneficiary != mv.owner && t > epoch && t - epoch < 3 * PERIOD { t } else { epoch }
                    }
                    Adv::ProveWindow { m, rel } => {
                        let mv = read_miner(&self.w.v, self.miners[*m as usize % n].id);
                        match mv.precommits.values().map(|p| p.epoch).min() {
                            Some(e) => e + self.policy().pre_commit_challenge_delay + 1 + *rel as i64,
                            None => epoch,
                        }
                    }
                };
                self.advance_to(target)?;
            }
            Op::TopUp { m, whole } => {
                let h = &self.miners[*m as usize % n];
                let (owner, id) = (h.owner, h.id);
                let r = self.w.v.execute(owner, &Address::new_id(id), &TokenAmount::from_whole(*whole as i64), 0, None);
                self.after_message(Some(&r))?;
            }
            Op::PreCommit { m, n: count, life_days, bad } => {
                let mi_ = *m as usize % n;
                let (id, worker, seal) = (self.miners[mi_].id, self.miners[mi_].worker, self.miners[mi_].seal);
                let max_prove = mi::max_prove_commit_duration(self.policy(), seal).unwrap();
                let expiration = epoch + self.policy().min_sector_expiration + max_prove + (*life_days as i64 % 400) * PERIOD + 10;
                let mut sectors = vec![];
                for k in 0..(*count % 3 + 1) {
                    let mut num = self.miners[mi_].next_sector + k as u64;
                    if *bad == 1 && num > 0 {
                        num -= 1; // reuse an allocated number
                    }
                    sectors.push(mi::SectorPreCommitInfo {
                        seal_proof: seal,
                        sector_number: num,
                        sealed_cid: make_sealed_cid(format!("sn{}-{}", id, num).as_bytes()),
                        seal_rand_epoch: if *bad == 2 { epoch } else { epoch - 1 },
                        deal_ids: vec![],
                        expiration: if *bad == 3 { epoch + 100 } else { expiration },
                        unsealed_cid: mi::CompactCommD::empty(),
                    });
                }
                let allocated_before = if self.checks.on("C04") { read_miner(&self.w.v, id).allocated.clone() } else { Default::default() };
                let r = self.send(worker, id, mi::Method::PreCommitSectorBatch2 as u64, &zero, &mi::PreCommitSectorBatchParams2 { sectors: sectors.clone() })?;
                if r.ok() {
                    let mut nums = BTreeSet::new();
                    for s in &sectors {
                        if allocated_before.contains(&s.sector_number) || !nums.insert(s.sector_number) {
                            return Err(Violation::new("sector-number-reused", format!("miner {id} accepted a pre-commitment for sector number {} which was allocated before", s.sector_number)));
                        }
                    }
                }
                self.stats.say(|| format!("op {i}: PreCommit miner {id} {} sectors at {epoch} -> {} {}", sectors.len(), r.code.value(), r.message));
                if r.ok() {
                    self.miners[mi_].next_sector = sectors.iter().map(|s| s.sector_number).max().unwrap() + 1;
                    self.stats.label("precommitted");
                }
            }
            Op::ProveCommit { m, max, bad_proof, by } => {
                let mi_ = *m as usize % n;
                let id = self.miners[mi_].id;
                let from = self.who(mi_, by);
                let mv = read_miner(&self.w.v, id);
                let delay = self.policy().pre_commit_challenge_delay;
                let ready: Vec<u64> = mv.precommits.iter().filter(|(_, p)| epoch > p.epoch + delay).map(|(k, _)| *k).take((*max % 4 + 1) as usize).collect();
                let chosen: Vec<u64> = if ready.is_empty() { mv.precommits.keys().copied().take(1).collect() } else { ready };
                if chosen.is_empty() {
                    return Ok(());
                }
                let p = mi::ProveCommitSectors3Params {
                    sector_activations: chosen.iter().map(|s| mi::SectorActivationManifest { sector_number: *s, pieces: self.pieces_for(id, *s) }).collect(),
                    sector_proofs: chosen.iter().map(|_| RawBytes::new(if *bad_proof { BAD_PROOF.to_vec() } else { vec![1, 2, 3, 4] })).collect(),
                    aggregate_proof: RawBytes::default(),
                    aggregate_proof_type: None,
                    require_activation_success: false,
                    require_notification_success: false,
                };
                let r = self.send(from, id, mi::Method::ProveCommitSectors3 as u64, &zero, &p)?;
                self.stats.say(|| format!("op {i}: ProveCommit miner {id} {chosen:?} at {epoch} -> {} {}", r.code.value(), r.message));
                if r.ok() {
                    self.stats.label("proven");
                }
            }
            Op::Post { m, skip, bad_proof, partial, by } => {
                let mi_ = *m as usize % n;
                let id = self.miners[mi_].id;
                let from = self.who(mi_, by);
                let mv = read_miner(&self.w.v, id);
                let dl = ((epoch - mv.period_start).rem_euclid(PERIOD) / DEADLINE_EPOCHS) as usize;
                let open = mv.period_start + ((epoch - mv.period_start).div_euclid(PERIOD)) * PERIOD + dl as i64 * DEADLINE_EPOCHS;
                let d = &mv.deadlines[dl];
                let mut parts = vec![];
                for (pi, p) in d.partitions.iter().enumerate() {
                    if d.posted.contains(&(pi as u64)) && skip.len() % 5 != 4 {
                        continue;
                    }
                    if *partial && pi % 2 == 1 {
                        continue;
                    }
                    let live: Vec<u64> = p.sectors.difference(&p.terminated).copied().collect();
                    let mut sk = BitField::new();
                    for r in skip {
                        if !live.is_empty() && r % 3 != 0 {
                            sk.set(live[pick(*r, live.len())]);
                        }
                    }
                    parts.push(mi::PoStPartition { index: pi as u64, skipped: sk });
                }
                if parts.is_empty() {
                    parts.push(mi::PoStPartition { index: 0, skipped: BitField::new() });
                }
                let p = mi::SubmitWindowedPoStParams {
                    deadline: dl as u64,
                    partitions: parts.iter().map(|x| mi::PoStPartition { index: x.index, skipped: x.skipped.clone() }).collect(),
                    proofs: vec![PoStProof { post_proof: self.miners[mi_].post, proof_bytes: if *bad_proof { BAD_PROOF.to_vec() } else { vec![9] } }],
                    chain_commit_epoch: std::cmp::max(open - 1, 0).min(epoch - 1),
                    chain_commit_rand: Randomness(RAND_ARRAY.to_vec()),
                };
                let r = self.send(from, id, mi::Method::SubmitWindowedPoSt as u64, &zero, &p)?;
                self.stats.say(|| format!("op {i}: PoSt miner {id} deadline {dl} partitions {:?} bad={bad_proof} at {epoch} -> {} {}", parts.iter().map(|x| (x.index, bf(&x.skipped))).collect::<Vec<_>>(), r.code.value(), r.message));
                if r.ok() {
                    self.stats.label("post_accepted");
                    if parts.iter().any(|x| !x.skipped.is_empty()) {
                        self.stats.label("post_with_skips");
                    }
                    self.checks.note_post(id, dl as u64, &parts, *bad_proof);
                    self.recent_posts.push((mi_, dl as u64, open + DEADLINE_EPOCHS - 1, *bad_proof));
                }
            }
            Op::DeclareFaults { m, sectors, by } | Op::DeclareRecovered { m, sectors, by } | Op::Terminate { m, sectors, by } => {
                let mi_ = *m as usize % n;
                let id = self.miners[mi_].id;
                let from = self.who(mi_, by);
                let mv = read_miner(&self.w.v, id);
                let is_fault = matches!(op, Op::DeclareFaults { .. });
                let is_rec = matches!(op, Op::DeclareRecovered { .. });
                let chosen = self.pick_sectors(&mv, sectors, &|mv, s| {
                    let faulty = mv.deadlines.iter().any(|d| d.partitions.iter().any(|p| p.faults.contains(&s)));
                    let live = mv.deadlines.iter().any(|d| d.partitions.iter().any(|p| p.sectors.contains(&s) && !p.terminated.contains(&s)));
                    if is_rec { faulty } else { live && (!is_fault || !faulty) }
                });
                if chosen.is_empty() {
                    return Ok(());
                }
                let loc = Self::locate(&mv, &chosen);
                // now and then the first declaration is repeated in the same message
                let repeat = sectors.len() == 3 && sectors[2] % 3 == 0;
                let loc: Vec<((u64, u64), Vec<u64>)> = {
                    let mut v: Vec<((u64, u64), Vec<u64>)> = loc.into_iter().collect();
                    if repeat && !v.is_empty() {
                        let first = v[0].clone();
                        v.push(first);
                        self.stats.label("declaration_repeated_in_message");
                    }
                    v
                };
                let mk = |v: &Vec<u64>| {
                    let mut b = BitField::new();
                    for s in v {
                        b.set(*s);
                    }
                    b
                };
                let (method, r) = if is_fault {
                    let p = mi::DeclareFaultsParams { faults: loc.iter().map(|((d, p), v)| mi::FaultDeclaration { deadline: *d, partition: *p, sectors: mk(v) }).collect() };
                    ("DeclareFaults", self.send(from, id, mi::Method::DeclareFaults as u64, &zero, &p)?)
                } else if is_rec {
                    let p = mi::DeclareFaultsRecoveredParams { recoveries: loc.iter().map(|((d, p), v)| mi::RecoveryDeclaration { deadline: *d, partition: *p, sectors: mk(v) }).collect() };
                    ("DeclareFaultsRecovered", self.send(from, id, mi::Method::DeclareFaultsRecovered as u64, &zero, &p)?)
                } else {
                    let p = mi::TerminateSectorsParams { terminations: loc.iter().map(|((d, p), v)| mi::TerminationDeclaration { deadline: *d, partition: *p, sectors: mk(v) }).collect() };
                    ("TerminateSectors", self.send(from, id, mi::Method::TerminateSectors as u64, &zero, &p)?)
                };
                self.stats.say(|| format!("op {i}: {method} miner {id} {loc:?} at {epoch} -> {} {}", r.code.value(), r.message));
                if r.ok() {
                    self.stats.label(if is_fault { "faults_declared" } else if is_rec { "recovery_declared" } else { "terminated" });
                }
            }
            Op::Extend { m, sectors, add_days } => {
                let mi_ = *m as usize % n;
                let (id, worker) = (self.miners[mi_].id, self.miners[mi_].worker);
                let mv = read_miner(&self.w.v, id);
                let chosen = self.pick_sectors(&mv, sectors, &|mv, s| mv.deadlines.iter().any(|d| d.partitions.iter().any(|p| p.sectors.contains(&s) && !p.terminated.contains(&s) && !p.faults.contains(&s))));
                if chosen.is_empty() {
                    return Ok(());
                }
                let loc = Self::locate(&mv, &chosen);
                let exts: Vec<mi::ExpirationExtension2> = loc
                    .iter()
                    .map(|((d, p), v)| {
                        let mut b = BitField::new();
                        for s in v {
                            b.set(*s);
                        }
                        let cur = v.iter().filter_map(|s| mv.sectors.get(s)).map(|s| s.expiration).max().unwrap_or(epoch);
                        mi::ExpirationExtension2 { deadline: *d, partition: *p, sectors: b, sectors_with_claims: vec![], new_expiration: cur + (*add_days as i64 % 300) * PERIOD }
                    })
                    .collect();
                let r = self.send(worker, id, mi::Method::ExtendSectorExpiration2 as u64, &zero, &mi::ExtendSectorExpiration2Params { extensions: exts })?;
                self.stats.say(|| format!("op {i}: Extend miner {id} {loc:?} +{add_days}d -> {} {}", r.code.value(), r.message));
                if r.ok() {
                    self.stats.label("extended");
                }
            }
            Op::Compact { m, deadline } => {
                let mi_ = *m as usize % n;
                let (id, worker) = (self.miners[mi_].id, self.miners[mi_].worker);
                let mv = read_miner(&self.w.v, id);
                let with_parts: Vec<usize> = mv.deadlines.iter().enumerate().filter(|(_, d)| !d.partitions.is_empty()).map(|(i, _)| i).collect();
                if with_parts.is_empty() {
                    return Ok(());
                }
                let dl = with_parts[*deadline as usize % with_parts.len()];
                let mut b = BitField::new();
                for pi in 0..mv.deadlines[dl].partitions.len() {
                    b.set(pi as u64);
                }
                let r = self.send(worker, id, mi::Method::CompactPartitions as u64, &zero, &mi::CompactPartitionsParams { deadline: dl as u64, partitions: b })?;
                self.stats.say(|| format!("op {i}: Compact miner {id} deadline {dl} -> {} {}", r.code.value(), r.message));
                if r.ok() {
                    self.stats.label("compacted");
                }
            }
            Op::Reward { m, milli, penalty_milli, wins } => {
                let id = self.miners[*m as usize % n].id;
                let gas_reward = TokenAmount::from_atto(BigInt::from(*milli) * BigInt::from(10u64.pow(15)));
                let penalty = TokenAmount::from_atto(BigInt::from(*penalty_milli) * BigInt::from(10u64.pow(15)));
                // the gas reward is carried as value from the system actor
                let p = fil_actor_reward::AwardBlockRewardParams { miner: Address::new_id(id), penalty: penalty.clone(), gas_reward: gas_reward.clone(), win_count: (*wins % 3) as i64 };
                let v = if self.w.v.balance(SYSTEM_ACTOR_ID) >= gas_reward { gas_reward.clone() } else { TokenAmount::zero() };
                let p = if v.is_zero() { fil_actor_reward::AwardBlockRewardParams { gas_reward: TokenAmount::zero(), ..p } } else { p };
                let r = self.send(SYSTEM_ACTOR_ID, REWARD_ACTOR_ID, fil_actor_reward::Method::AwardBlockReward as u64, &v, &p)?;
                self.stats.say(|| format!("op {i}: AwardBlockReward miner {id} gas {gas_reward} penalty {penalty} wins {} -> {} {}\n{}", wins % 3, r.code.value(), r.message, r.trace.short()));
                if r.ok() {
                    self.stats.label("rewarded");
                }
            }
            Op::Withdraw { m, by, pm } => {
                let mi_ = *m as usize % n;
                let id = self.miners[mi_].id;
                let from = self.who(mi_, by);
                let mv = read_miner(&self.w.v, id);
                let bal = self.w.v.balance(id);
                let avail = bal.atto() - &mv.locked - &mv.pcd - &mv.ip - &mv.fee_debt;
                let amount = if avail.clone() > BigInt::zero() { (&avail * BigInt::from(*pm)) / BigInt::from(1000) } else { BigInt::from(*pm) };
                let r = self.send(from, id, mi::Method::WithdrawBalance as u64, &zero, &mi::WithdrawBalanceParams { amount_requested: TokenAmount::from_atto(amount.clone()) })?;
                self.stats.say(|| format!("op {i}: Withdraw miner {id} by {from} amount {amount} -> {} {}", r.code.value(), r.message));
                if r.ok() {
                    self.stats.label("withdrawn");
                }
            }
            Op::RepayDebt { m } => {
                let h = &self.miners[*m as usize % n];
                let (id, owner) = (h.id, h.owner);
                let r = self.w.call_raw(owner, id, mi::Method::RepayDebt as u64, &TokenAmount::from_whole(1), None);
                self.after_message(Some(&r))?;
            }
            Op::Allocate { m, sizes, term_min_extra_days, term_extra_days, exp_days } => {
                use fil_actor_verifreg as vr;
                let mi_ = *m as usize % n;
                let id = self.miners[mi_].id;
                let ssize = read_miner(&self.w.v, id).sector_size;
                if ssize < (1 << 20) {
                    return Ok(());
                }
                let pol = self.policy().clone();
                let term_min = pol.minimum_verified_allocation_term + (*term_min_extra_days as i64 % 400) * PERIOD;
                let term_max = std::cmp::min(term_min + (*term_extra_days as i64 % 1500) * PERIOD, pol.maximum_verified_allocation_term);
                let expiration = epoch + std::cmp::max(1, (*exp_days as i64 % 61) * PERIOD);
                let mut reqs = vec![];
                let mut total = BigInt::zero();
                for k in sizes.iter().take(4) {
                    let size = std::cmp::max(ssize >> (*k % 4), 1 << 20);
                    self.piece_counter += 1;
                    let data = fil_actors_runtime::test_utils::make_piece_cid(format!("piece-{}", self.piece_counter).as_bytes());
                    reqs.push(vr::AllocationRequest { provider: id, data, size: fvm_shared::piece::PaddedPieceSize(size), term_min, term_max, expiration });
                    total += BigInt::from(size);
                }
                if reqs.is_empty() {
                    return Ok(());
                }
                let params = frc46_token::token::types::TransferParams {
                    to: Address::new_id(fil_actors_runtime::VERIFIED_REGISTRY_ACTOR_ID),
                    amount: TokenAmount::from_atto(&total * BigInt::from(10u64.pow(18))),
                    operator_data: RawBytes::serialize(&vr::AllocationRequests { allocations: reqs.clone(), extensions: vec![] }).unwrap(),
                };
                let from = self.vclient;
                let r = self.send(from, fil_actors_runtime::DATACAP_TOKEN_ACTOR_ID, fil_actor_datacap::Method::TransferExported as u64, &zero, &params)?;
                self.stats.say(|| format!("op {i}: Allocate {} pieces to miner {id} term [{term_min}, {term_max}] expiring {expiration} -> {} {}", reqs.len(), r.code.value(), r.message));
                if r.ok() {
                    let ret: Option<frc46_token::token::types::TransferReturn> = r.de();
                    let resp: Option<vr::AllocationsResponse> = ret.and_then(|t| fvm_ipld_encoding::from_slice(&t.recipient_data).ok());
                    if let Some(resp) = resp {
                        for (aid, rq) in resp.new_allocations.iter().zip(reqs.iter()) {
                            self.allocs.push((*aid, id, rq.data, rq.size.0));
                        }
                        self.stats.label("allocated");
                    }
                }
            }
            Op::PreCommitV { m, picks, life_days, filler, exp_mode } => {
                let mi_ = *m as usize % n;
                let (id, worker, seal) = (self.miners[mi_].id, self.miners[mi_].worker, self.miners[mi_].seal);
                let ssize = read_miner(&self.w.v, id).sector_size;
                let reg = super::verified::read_registry(&self.w.v);
                let mine: Vec<(u64, ActorID, cid::Cid, u64)> = self.allocs.iter().filter(|a| a.1 == id).cloned().collect();
                if mine.is_empty() {
                    return Ok(());
                }
                let open: Vec<&(u64, ActorID, cid::Cid, u64)> = mine.iter().filter(|a| reg.allocs.contains_key(&a.0)).collect();
                let mut plan: Vec<(cid::Cid, u64, Option<u64>)> = vec![];
                let mut used = 0u64;
                let mut term_lo = 0i64;
                let mut term_hi = i64::MAX;
                for pk in picks.iter().take(4) {
                    // mostly open allocations, sometimes one that is already claimed or expired
                    let a = if !open.is_empty() && pk % 8 != 0 { open[pick(*pk, open.len())] } else { &mine[pick(*pk, mine.len())] };
                    if used + a.3 > ssize || plan.iter().any(|p| p.2 == Some(a.0)) && pk % 16 != 1 {
                        continue;
                    }
                    used += a.3;
                    plan.push((a.2, a.3, Some(a.0)));
                    if let Some(al) = reg.allocs.get(&a.0) {
                        term_lo = term_lo.max(al.term_min);
                        term_hi = term_hi.min(al.term_max);
                    }
                }
                if plan.is_empty() {
                    return Ok(());
                }
                if *filler && used < ssize {
                    let rest = ssize - used;
                    let size = 1u64 << (63 - rest.leading_zeros());
                    self.piece_counter += 1;
                    plan.push((fil_actors_runtime::test_utils::make_piece_cid(format!("filler-{}", self.piece_counter).as_bytes()), size, None));
                }
                let max_prove = mi::max_prove_commit_duration(self.policy(), seal).unwrap();
                let base = epoch + max_prove + 10;
                let expiration = match exp_mode % 8 {
                    // too short for the claims' minimum term
                    6 => epoch + self.policy().min_sector_expiration + max_prove + 10,
                    // beyond the claims' maximum term
                    7 if term_hi < i64::MAX => base + term_hi + PERIOD,
                    // as late as the claims allow (a few days before the earliest claim term end)
                    5 if term_hi < i64::MAX && term_hi - (1 + *life_days as i64 % 20) * PERIOD >= std::cmp::max(self.policy().min_sector_expiration, term_lo) + max_prove => epoch + 151 + term_hi - (1 + *life_days as i64 % 20) * PERIOD,
                    _ => base + std::cmp::max(self.policy().min_sector_expiration, term_lo) + (*life_days as i64 % 300) * PERIOD,
                };
                let num = self.miners[mi_].next_sector;
                let pieces: Vec<fvm_shared::piece::PieceInfo> = plan.iter().map(|(c, s, _)| fvm_shared::piece::PieceInfo { cid: *c, size: fvm_shared::piece::PaddedPieceSize(*s) }).collect();
                let commd = fil_actors_runtime::runtime::Primitives::compute_unsealed_sector_cid(&self.w.v.primitives, seal, &pieces).expect("commd");
                let info = mi::SectorPreCommitInfo {
                    seal_proof: seal,
                    sector_number: num,
                    sealed_cid: make_sealed_cid(format!("sn{}-{}", id, num).as_bytes()),
                    seal_rand_epoch: epoch - 1,
                    deal_ids: vec![],
                    expiration,
                    unsealed_cid: mi::CompactCommD::of(commd),
                };
                let r = self.send(worker, id, mi::Method::PreCommitSectorBatch2 as u64, &zero, &mi::PreCommitSectorBatchParams2 { sectors: vec![info] })?;
                self.stats.say(|| format!("op {i}: PreCommitV miner {id} sector {num} with {} pieces (allocations {:?}) expiration {expiration} at {epoch} -> {} {}", plan.len(), plan.iter().filter_map(|p| p.2).collect::<Vec<_>>(), r.code.value(), r.message));
                if r.ok() {
                    self.miners[mi_].next_sector = num + 1;
                    self.plans.insert((id, num), plan);
                    self.stats.label("precommitted");
                    self.stats.label("precommitted_with_allocations");
                }
            }
            Op::OnboardV { m, sizes, life_days, term_extra_days, exp_mode } => {
                let before = self.allocs.len();
                self.step(i, &Op::Allocate { m: *m, sizes: sizes.clone(), term_min_extra_days: 0, term_extra_days: *term_extra_days, exp_days: 30 })?;
                let made = self.allocs.len() - before;
                if made == 0 {
                    return Ok(());
                }
                // picks that address exactly the new allocations (they are the last `made` of this miner's open ones)
                let id = self.miners[*m as usize % n].id;
                let reg = super::verified::read_registry(&self.w.v);
                let open: Vec<u64> = self.allocs.iter().filter(|a| a.1 == id && reg.allocs.contains_key(&a.0)).map(|a| a.0).collect();
                let mut picks = vec![];
                for k in 0..made.min(4) {
                    let idx = open.len() - 1 - k;
                    let mut f = ((idx as u32 * 65536 + 65535) / open.len() as u32).min(65535) as u16;
                    if f % 8 == 0 {
                        f = f.saturating_sub(1);
                    }
                    picks.push(f);
                }
                self.step(i, &Op::PreCommitV { m: *m, picks, life_days: *life_days, filler: false, exp_mode: *exp_mode })?;
                self.step(i, &Op::Advance(Adv::ProveWindow { m: *m, rel: 1 }))?;
                self.step(i, &Op::ProveCommit { m: *m, max: 3, bad_proof: false, by: Who::Worker })?;
            }
            Op::ExtendV { m, pick: pk, add_days, mode, target, rel } => {
                let mi_ = *m as usize % n;
                let (id, worker) = (self.miners[mi_].id, self.miners[mi_].worker);
                let mv = read_miner(&self.w.v, id);
                let reg = super::verified::read_registry(&self.w.v);
                let cands: Vec<u64> = mv.sectors.values().filter(|s| s.verified_weight.is_positive()).map(|s| s.number).filter(|s| mv.deadlines.iter().any(|d| d.partitions.iter().any(|p| p.sectors.contains(s) && !p.terminated.contains(s)))).collect();
                if cands.is_empty() {
                    return Ok(());
                }
                let s = cands[pick(*pk, cands.len())];
                let info = mv.sectors[&s].clone();
                let claims: Vec<(u64, super::verified::ClaimV)> = reg.claims.iter().filter(|(_, c)| c.provider == id && c.sector == s).map(|(k, v)| (*k, v.clone())).collect();
                let min_end = claims.iter().map(|(_, c)| c.term_start + c.term_max).min().unwrap_or(info.expiration);
                if *target % 3 == 2 && info.expiration - epoch > super::verified::DROP_PERIOD {
                    // move into the final 30 days of the sector's life first
                    let t = info.expiration - super::verified::DROP_PERIOD + (*rel as i64) * 10;
                    if t > epoch && t - epoch < 230 * PERIOD {
                        self.stats.label("advanced_to_end_of_life");
                        // keep the miner's sectors proven on the way
                        let days = ((t - epoch) / PERIOD) as u16;
                        if days > 0 {
                            self.step(i, &Op::Long { m: *m, days, post: true })?;
                        }
                        self.advance_to(t)?;
                    }
                }
                let epoch = self.w.v.epoch();
                let new_expiration = match target % 3 {
                    1 => min_end + *rel as i64,
                    // at the end of life: half of the time aim just beyond the earliest claim term end
                    2 if *rel > 0 && min_end >= info.expiration => min_end + *rel as i64,
                    _ => info.expiration + (*add_days as i64 % 300) * PERIOD,
                };
                let ids: Vec<u64> = claims.iter().map(|(k, _)| *k).collect();
                // claims ordered by the end of their term: the first is the one whose term ends first
                let mut by_end: Vec<(u64, i64, u64)> = claims.iter().map(|(k, c)| (*k, c.term_start + c.term_max, c.size)).collect();
                by_end.sort_by_key(|x| x.1);
                let mut new_expiration = new_expiration;
                let mut second_decl: Option<i64> = None;
                // at the end of life the interesting declarations are the ones that drop claims
                let mode_eff = if *target % 3 == 2 && *mode % 8 == 0 { [2u8, 2, 1, 0][(*pk as usize / 7) % 4] } else { *mode };
                let mut twice_in_one_declaration = false;
                let (maintain, drop): (Vec<u64>, Vec<u64>) = match mode_eff % 8 {
                    0 => (ids.clone(), vec![]),
                    1 => (vec![], ids.clone()),
                    2 => (ids.iter().skip(1).copied().collect(), ids.iter().take(1).copied().collect()),
                    3 => (vec![], vec![]),
                    4 => {
                        let mut v = ids.clone();
                        if let Some((k, _)) = reg.claims.iter().find(|(_, c)| !(c.provider == id && c.sector == s)) {
                            v.push(*k);
                        }
                        (v, vec![])
                    }
                    5 => {
                        // one claim named twice in place of another of the same size whose term ends earlier;
                        // the new expiration lies beyond the omitted claim's term but within the repeated one's
                        let mut v = ids.clone();
                        if by_end.len() >= 2 {
                            let (early, late) = (by_end[0], by_end[by_end.len() - 1]);
                            if early.2 == late.2 && late.1 > early.1 {
                                v = ids.iter().map(|k| if *k == early.0 { late.0 } else { *k }).collect();
                                new_expiration = std::cmp::min(late.1, early.1 + 1 + (*add_days as i64 % 200) * PERIOD);
                                self.stats.label("extension_names_a_claim_twice");
                            }
                        }
                        (v, vec![])
                    }
                    7 => {
                        // the sector appears twice in the claim list of ONE declaration, each time naming only the claim whose term
                        // ends last (of two claims of equal size); the new expiration lies beyond the other claim's term
                        let mut v = ids.clone();
                        if by_end.len() == 2 {
                            let (early, late) = (by_end[0], by_end[1]);
                            if early.2 == late.2 && late.1 > early.1 {
                                v = vec![late.0];
                                twice_in_one_declaration = true;
                                new_expiration = std::cmp::min(late.1, early.1 + 1 + (*add_days as i64 % 200) * PERIOD);
                                self.stats.label("extension_names_a_sector_twice_in_one_declaration");
                            }
                        }
                        (v, vec![])
                    }
                    _ => {
                        // the sector is named again, without claims, in a second declaration with a later expiration
                        second_decl = Some(min_end + 1 + (*add_days as i64 % 100) * PERIOD);
                        new_expiration = std::cmp::min(new_expiration, min_end);
                        (ids.clone(), vec![])
                    }
                };
                let loc = Self::locate(&mv, &[s]);
                let ((d, p), _) = loc.iter().next().unwrap();
                let mut b = BitField::new();
                let swc = if maintain.is_empty() && drop.is_empty() {
                    b.set(s);
                    vec![]
                } else if twice_in_one_declaration {
                    vec![mi::SectorClaim { sector_number: s, maintain_claims: maintain.clone(), drop_claims: vec![] }, mi::SectorClaim { sector_number: s, maintain_claims: maintain.clone(), drop_claims: vec![] }]
                } else {
                    vec![mi::SectorClaim { sector_number: s, maintain_claims: maintain.clone(), drop_claims: drop.clone() }]
                };
                let mut exts = vec![mi::ExpirationExtension2 { deadline: *d, partition: *p, sectors: b, sectors_with_claims: swc, new_expiration }];
                if let Some(e2) = second_decl {
                    let mut b2 = BitField::new();
                    b2.set(s);
                    exts.push(mi::ExpirationExtension2 { deadline: *d, partition: *p, sectors: b2, sectors_with_claims: vec![], new_expiration: e2 });
                    self.stats.label("extension_names_a_sector_twice");
                }
                let r = self.send(worker, id, mi::Method::ExtendSectorExpiration2 as u64, &zero, &mi::ExtendSectorExpiration2Params { extensions: exts })?;
                self.stats.say(|| format!("op {i}: ExtendV miner {id} sector {s} (expiration {}) to {new_expiration} maintain {maintain:?} drop {drop:?} at {epoch} -> {} {}", info.expiration, r.code.value(), r.message));
                if r.ok() {
                    self.stats.label("extended");
                }
            }
            Op::ExtendClaim { pick: pk, add_days, by_client } => {
                use fil_actor_verifreg as vr;
                let reg = super::verified::read_registry(&self.w.v);
                if reg.claims.is_empty() {
                    return Ok(());
                }
                let ids: Vec<u64> = reg.claims.keys().copied().collect();
                let cid_ = ids[pick(*pk, ids.len())];
                let cl = &reg.claims[&cid_];
                let from = if *by_client { self.vclient } else { self.stranger };
                // (one in eight requests tries to shorten the term)
                let term_max = if *add_days % 8 == 0 { cl.term_max - (1 + *add_days as i64 % 90) * PERIOD } else { cl.term_max + (*add_days as i64 % 800) * PERIOD };
                let r = self.send(from, fil_actors_runtime::VERIFIED_REGISTRY_ACTOR_ID, vr::Method::ExtendClaimTerms as u64, &zero, &vr::ExtendClaimTermsParams { terms: vec![vr::ClaimTerm { provider: cl.provider, claim_id: cid_, term_max }] })?;
                self.stats.say(|| format!("op {i}: ExtendClaimTerms claim {cid_} term_max {} -> {term_max} by {from} -> {} {}", cl.term_max, r.code.value(), r.message));
            }
            Op::RemoveExpired { m, claims } => {
                use fil_actor_verifreg as vr;
                let id = self.miners[*m as usize % n].id;
                let from = self.stranger;
                let r = if *claims {
                    self.send(from, fil_actors_runtime::VERIFIED_REGISTRY_ACTOR_ID, vr::Method::RemoveExpiredClaims as u64, &zero, &vr::RemoveExpiredClaimsParams { provider: id, claim_ids: vec![] })?
                } else {
                    let c = self.vclient;
                    self.send(from, fil_actors_runtime::VERIFIED_REGISTRY_ACTOR_ID, vr::Method::RemoveExpiredAllocations as u64, &zero, &vr::RemoveExpiredAllocationsParams { client: c, allocation_ids: vec![] })?
                };
                self.stats.say(|| format!("op {i}: RemoveExpired claims={claims} -> {} {}", r.code.value(), r.message));
            }
            Op::ExtendMany { m, pick: pk, per_partition, add_days, common } => {
                let mi_ = *m as usize % n;
                let (id, worker) = (self.miners[mi_].id, self.miners[mi_].worker);
                let mv = read_miner(&self.w.v, id);
                let healthy = |p: &PartView| -> Vec<u64> { p.sectors.iter().copied().filter(|s| !p.terminated.contains(s) && !p.faults.contains(s)).collect() };
                let multi: Vec<usize> = mv.deadlines.iter().enumerate().filter(|(_, d)| d.partitions.iter().filter(|p| !healthy(p).is_empty()).count() >= 2).map(|(i, _)| i).collect();
                let any: Vec<usize> = mv.deadlines.iter().enumerate().filter(|(_, d)| d.partitions.iter().any(|p| !healthy(p).is_empty())).map(|(i, _)| i).collect();
                let cands = if !multi.is_empty() { multi } else { any };
                if cands.is_empty() {
                    return Ok(());
                }
                let dl = cands[pick(*pk, cands.len())];
                let mut decls: Vec<(u64, Vec<u64>)> = vec![];
                let mut max_exp = epoch;
                for (pi, p) in mv.deadlines[dl].partitions.iter().enumerate().take(4) {
                    let h = healthy(p);
                    let take: Vec<u64> = h.into_iter().take(1 + (*per_partition as usize % 3)).collect();
                    if take.is_empty() {
                        continue;
                    }
                    for s in &take {
                        if let Some(i) = mv.sectors.get(s) {
                            max_exp = max_exp.max(i.expiration);
                        }
                    }
                    decls.push((pi as u64, take));
                }
                let exts: Vec<mi::ExpirationExtension2> = decls
                    .iter()
                    .map(|(pi, v)| {
                        let mut b = BitField::new();
                        for s in v {
                            b.set(*s);
                        }
                        let own = v.iter().filter_map(|s| mv.sectors.get(s)).map(|s| s.expiration).max().unwrap_or(epoch);
                        let base = if *common { max_exp } else { own };
                        mi::ExpirationExtension2 { deadline: dl as u64, partition: *pi, sectors: b, sectors_with_claims: vec![], new_expiration: base + (*add_days as i64 % 300) * PERIOD }
                    })
                    .collect();
                let np = exts.len();
                let r = self.send(worker, id, mi::Method::ExtendSectorExpiration2 as u64, &zero, &mi::ExtendSectorExpiration2Params { extensions: exts })?;
                self.stats.say(|| format!("op {i}: ExtendMany miner {id} deadline {dl} {decls:?} common={common} +{add_days}d -> {} {}", r.code.value(), r.message));
                if r.ok() {
                    self.stats.label("extended");
                    if np >= 2 {
                        self.stats.label("extended_several_partitions_at_once");
                    }
                }
            }
            Op::BeneficiaryCycle { m, quota_milli, exp_rel, rel, by, pm } => {
                self.step(i, &Op::SetBeneficiary { m: *m, quota_milli: *quota_milli, exp_rel: *exp_rel, back: false })?;
                self.step(i, &Op::WithdrawAtExpiry { m: *m, rel: *rel, by: by.clone(), pm: *pm })?;
            }
            Op::WithdrawAtExpiry { m, rel, by, pm } => {
                self.step(i, &Op::Advance(Adv::BeneficiaryExpiry { m: *m, rel: *rel }))?;
                self.step(i, &Op::Withdraw { m: *m, by: by.clone(), pm: *pm })?;
            }
            Op::SetBeneficiary { m, quota_milli, exp_rel, back } => {
                let mi_ = *m as usize % n;
                let (id, owner) = (self.miners[mi_].id, self.miners[mi_].owner);
                let mv = read_miner(&self.w.v, id);
                let p = if *back {
                    mi::ChangeBeneficiaryParams { new_beneficiary: Address::new_id(owner), new_quota: TokenAmount::zero(), new_expiration: 0 }
                } else {
                    mi::ChangeBeneficiaryParams { new_beneficiary: Address::new_id(self.reporter), new_quota: TokenAmount::from_atto(BigInt::from(*quota_milli) * BigInt::from(10u64.pow(15))), new_expiration: epoch + *exp_rel as i64 }
                };
                let mut callers = vec![owner];
                if !*back {
                    callers.push(self.reporter);
                }
                if mv.beneficiary != owner {
                    callers.push(mv.beneficiary);
                }
                callers.dedup();
                for c in callers {
                    let r = self.send(c, id, mi::Method::ChangeBeneficiary as u64, &zero, &p)?;
                    self.stats.say(|| format!("op {i}: ChangeBeneficiary miner {id} by {c} -> {:?} quota {} expiry {} -> {} {}", p.new_beneficiary, p.new_quota, p.new_expiration, r.code.value(), r.message));
                }
                let after = read_miner(&self.w.v, id);
                if after.beneficiary != after.owner {
                    self.stats.label("beneficiary_set");
                }
            }
            Op::WithFault { ordinal, syscall, op } => {
                self.pending_fault = Some((*ordinal, *syscall));
                self.step(i, op)?;
                self.pending_fault = None;
            }
            Op::BadPostDispute { m, into, rel } => {
                self.step(i, &Op::PostNext { m: *m, into: *into, skip: vec![], bad_proof: true, partial: false })?;
                let last = self.recent_posts.len();
                if last > 0 && self.recent_posts[last - 1].3 {
                    // pick = index of the latest post among the bad ones
                    let bad = self.recent_posts.iter().filter(|p| p.3).count();
                    let pk = (((bad - 1) as u32 * 65536 + 65535) / bad as u32).min(65535) as u16;
                    let pk = if pk % 4 == 0 { pk.saturating_sub(1) } else { pk };
                    self.step(i, &Op::DisputeRecent { pick: pk, rel: *rel, index: 0 })?;
                }
            }
            Op::DisputeRecent { pick: pk, rel, index } => {
                if self.recent_posts.is_empty() {
                    return Ok(());
                }
                // prefer PoSts with a bad proof
                let bad: Vec<usize> = self.recent_posts.iter().enumerate().filter(|(_, p)| p.3).map(|(i, _)| i).collect();
                let idx = if !bad.is_empty() && pk % 4 != 0 { bad[pick(*pk, bad.len())] } else { pick(*pk, self.recent_posts.len()) };
                let (mi_, dl, close, _) = self.recent_posts[idx];
                let target = close + 1 + *rel as i64;
                if target > epoch {
                    self.advance_to(target)?;
                }
                let id = self.miners[mi_].id;
                let from = self.reporter;
                let now = self.w.v.epoch();
                let r = self.send(from, id, mi::Method::DisputeWindowedPoSt as u64, &zero, &mi::DisputeWindowedPoStParams { deadline: dl, post_index: *index as u64 % 2 })?;
                self.stats.say(|| format!("op {i}: Dispute (recent) miner {id} deadline {dl} index {} at {now} (closed {close}) -> {} {}", index % 2, r.code.value(), r.message));
                if r.ok() {
                    self.stats.label("dispute_succeeded");
                }
            }
            Op::Dispute { m, deadline, index } => {
                let id = self.miners[*m as usize % n].id;
                let from = self.reporter;
                let r = self.send(from, id, mi::Method::DisputeWindowedPoSt as u64, &zero, &mi::DisputeWindowedPoStParams { deadline: *deadline as u64 % 48, post_index: *index as u64 % 2 })?;
                self.stats.say(|| format!("op {i}: Dispute miner {id} deadline {} index {} -> {} {}", deadline % 48, index % 2, r.code.value(), r.message));
                if r.ok() {
                    self.stats.label("dispute_succeeded");
                }
            }
            Op::ConsensusFault { m, kind, age, by } => {
                let mi_ = *m as usize % n;
                let id = self.miners[mi_].id;
                let from = self.who(mi_, by);
                let target = if *kind % 7 == 6 { self.miners[(mi_ + 1) % n].id } else { id };
                let h1 = consensus_fault_header(target, epoch - (*age as i64 % 1200), if *kind % 7 == 5 { 0 } else { 1 + (*kind % 3) });
                let r = self.send(from, id, mi::Method::ReportConsensusFault as u64, &zero, &mi::ReportConsensusFaultParams { header1: h1, header2: vec![1], header_extra: vec![] })?;
                self.stats.say(|| format!("op {i}: ReportConsensusFault miner {id} by {from} kind {kind} age {age} -> {} {}", r.code.value(), r.message));
                if r.ok() {
                    self.stats.label("consensus_fault_reported");
                }
            }
        }
        Ok(())
    }
}

pub fn adv_strategy() -> impl Strategy<Value = Adv> {
    prop_oneof![
        3 => (0u16..200).prop_map(Adv::Epochs),
        5 => (0u8..4, -1i8..2).prop_map(|(m, rel)| Adv::DeadlineEnd { m, rel }),
        3 => (0u8..50).prop_map(|k| Adv::Deadlines { k }),
        4 => (0u8..4, -1i8..3).prop_map(|(m, rel)| Adv::ProveWindow { m, rel }),
        1 => (0u8..4).prop_map(Adv::Days),
        8 => (0u8..4, prop_oneof![3 => 0u8..5, 1 => 0u8..60]).prop_map(|(m, into)| Adv::NextSectorDeadline { m, into }),
        2 => (0u8..4, -2i8..3).prop_map(|(m, rel)| Adv::BeneficiaryExpiry { m, rel }),
    ]
}

pub fn who_strategy() -> impl Strategy<Value = Who> {
    prop_oneof![10 => Just(Who::Worker), 3 => Just(Who::Owner), 1 => Just(Who::Stranger), 1 => Just(Who::OtherOwner)]
}

pub fn op_strategy_w(bulk: u32, long: u32, dispute: u32, verified: u32, benef: u32) -> impl Strategy<Value = Op> {
    let snap = if benef == 4 { 40 } else { 10 };
    // moving a sector into the last 30 days of its life costs >= 150 days of ticks
    let eol = if long >= 6 { 6 } else { 1 };
    prop_oneof![
        2000 => op_strategy(),
        25 => (0u8..4, 0u8..3, prop_oneof![3 => Just(None), 1 => (0u8..3).prop_map(Some)], 0u16..300, 0u8..40, prop_oneof![12 => Just(false), 1 => Just(true)]).prop_map(|(m, n, kind, life_days, deadline, bad_proof)| Op::CommitNI { m, n, kind, life_days, deadline, bad_proof }),
        15 => (0u8..4, proptest::collection::vec(any::<u16>(), 1..5), prop_oneof![3 => Just(true), 1 => Just(false)], prop_oneof![12 => Just(false), 1 => Just(true)]).prop_map(|(m, picks, verified, bad_proof)| Op::ReplicaUpdate { m, picks, verified, bad_proof }),
        snap => (0u8..4, 0u8..4, 0u8..4, proptest::collection::vec(any::<u16>(), 2..5), prop_oneof![3 => Just(true), 1 => Just(false)], any::<bool>()).prop_map(|(m, n, posts, picks, verified, withdraw)| Op::SnapCycle { m, n, posts, picks, verified, withdraw }),
        bulk * 5 => (0u8..4, any::<u16>(), 0u8..3, 0u16..300, any::<bool>()).prop_map(|(m, pick, per_partition, add_days, common)| Op::ExtendMany { m, pick, per_partition, add_days, common }),
        bulk * 10 => (0u8..4, 0u8..40, prop_oneof![1 => Just(0u16), 2 => 0u16..400]).prop_map(|(m, n, life_days)| Op::Bulk { m, n, life_days }),
        benef => (0u8..4, prop_oneof![1 => 1u32..20_000, 2 => 1_000_000u32..4_000_000], 3u16..600, -2i8..3, prop_oneof![Just(Who::Owner), Just(Who::Beneficiary)], 1u16..1000).prop_map(|(m, quota_milli, exp_rel, rel, by, pm)| Op::BeneficiaryCycle { m, quota_milli, exp_rel, rel, by, pm }),
        dispute => (0u8..4, 0u8..5, proptest::collection::vec(any::<u16>(), 1..4), prop_oneof![3 => Just(true), 1 => Just(false)], prop_oneof![5 => Just(false), 1 => Just(true)], 0i16..200).prop_map(|(m, into, picks, verified, extend_instead, rel)| Op::BadPostChangeDispute { m, into, picks, verified, extend_instead, rel }),
        dispute * 2 => (0u8..4, 0u8..5, -1i16..40).prop_map(|(m, into, rel)| Op::BadPostDispute { m, into, rel }),
        dispute => (any::<u16>(), prop_oneof![4 => -1i16..3, 2 => 0i16..1800, 1 => 1795i16..1805], prop_oneof![4 => Just(0u8), 1 => Just(1u8)]).prop_map(|(pick, rel, index)| Op::DisputeRecent { pick, rel, index }),
        30 => (any::<u16>(), any::<bool>(), faultable_op()).prop_map(|(ordinal, syscall, op)| Op::WithFault { ordinal, syscall, op: Box::new(op) }),
        verified * 4 => (0u8..4, proptest::collection::vec(0u8..4, 1..4), 0u16..300, prop_oneof![1 => 31u16..200, 2 => 0u16..1500], prop_oneof![4 => 0u8..5, 3 => Just(5u8), 1 => 6u8..8]).prop_map(|(m, sizes, life_days, term_extra_days, exp_mode)| Op::OnboardV { m, sizes, life_days, term_extra_days, exp_mode }),
        verified => (0u8..4, proptest::collection::vec(0u8..4, 1..4), 0u16..400, 0u16..1500, 0u8..70).prop_map(|(m, sizes, term_min_extra_days, term_extra_days, exp_days)| Op::Allocate { m, sizes, term_min_extra_days, term_extra_days, exp_days }),
        verified => (0u8..4, proptest::collection::vec(any::<u16>(), 1..4), 0u16..300, any::<bool>(), 0u8..8).prop_map(|(m, picks, life_days, filler, exp_mode)| Op::PreCommitV { m, picks, life_days, filler, exp_mode }),
        verified * 4 => (0u8..4, any::<u16>(), 0u16..300, prop_oneof![3 => Just(0u8), 2 => 1u8..8], prop_oneof![8 => Just(0u8), 6 => Just(1u8), eol => Just(2u8)], -2i8..3).prop_map(|(m, pick, add_days, mode, target, rel)| Op::ExtendV { m, pick, add_days, mode, target, rel }),
        verified => (any::<u16>(), 0u16..800, prop_oneof![5 => Just(true), 1 => Just(false)]).prop_map(|(pick, add_days, by_client)| Op::ExtendClaim { pick, add_days, by_client }),
        verified => (0u8..4, any::<bool>()).prop_map(|(m, claims)| Op::RemoveExpired { m, claims }),
        (verified / 10).max(1) => (0u8..4, proptest::collection::vec(1u8..4, 2..4), 0u16..60, prop_oneof![4 => Just(2u8), 1 => Just(1u8), 1 => Just(0u8)], -2i8..3, 0u16..300).prop_map(|(m, sizes, term_extra_days, mode, rel, add_days)| Op::EolDropCycle { m, sizes, term_extra_days, mode, rel, add_days }),
        (if long >= 6 { long / 2 } else { 1 }) => (0u8..4, prop_oneof![4 => Just(true), 1 => Just(false)], -1i8..3).prop_map(move |(m, post, rel)| if long >= 6 { Op::ToExpiry { m, post, rel } } else { Op::Advance(Adv::Epochs(rel.unsigned_abs() as u16)) }),
        long.max(1) => (0u8..4, if long >= 6 { prop_oneof![4 => 1u16..6, 2 => 41u16..45, 1 => 178u16..186].boxed() } else if long >= 1 { prop_oneof![6 => 1u16..6, 1 => 41u16..45].boxed() } else { (1u16..3).boxed() }, any::<bool>()).prop_map(|(m, days, post)| Op::Long { m, days, post }),
    ]
}

/// operations with tolerated nested failures worth aiming at
pub fn faultable_op() -> impl Strategy<Value = Op> {
    let refs = || proptest::collection::vec(any::<u16>(), 1..4);
    prop_oneof![
        3 => (0u8..4, 0u8..5, 1u16..1200, prop_oneof![Just(Who::Reporter), Just(Who::Stranger)]).prop_map(|(m, kind, age, by)| Op::ConsensusFault { m, kind, age, by }),
        2 => (any::<u16>(), 0i16..100, Just(0u8)).prop_map(|(pick, rel, index)| Op::DisputeRecent { pick, rel, index }),
        2 => (0u8..4, refs(), Just(Who::Worker)).prop_map(|(m, sectors, by)| Op::Terminate { m, sectors, by }),
        2 => (0u8..4, 0u32..50_000, prop_oneof![1 => Just(0u32), 1 => 0u32..100_000], 1u8..3).prop_map(|(m, milli, penalty_milli, wins)| Op::Reward { m, milli, penalty_milli, wins }),
        1 => (0u8..4, Just(Who::Owner), 0u16..1000).prop_map(|(m, by, pm)| Op::Withdraw { m, by, pm }),
        1 => (0u8..4, 0u8..4, Just(false), Just(Who::Worker)).prop_map(|(m, max, bad_proof, by)| Op::ProveCommit { m, max, bad_proof, by }),
    ]
}

pub fn op_strategy() -> impl Strategy<Value = Op> {
    let refs = || proptest::collection::vec(any::<u16>(), 1..4);
    prop_oneof![
        8 => (0u8..4, 0u8..4, 0u16..400, prop_oneof![12 => Just(0u8), 1 => 1u8..4]).prop_map(|(m, n, life_days, bad)| Op::PreCommit { m, n, life_days, bad }),
        8 => (0u8..4, 0u8..4, prop_oneof![15 => Just(false), 1 => Just(true)], who_strategy()).prop_map(|(m, max, bad_proof, by)| Op::ProveCommit { m, max, bad_proof, by }),
        14 => (0u8..4, prop_oneof![4 => Just(vec![]), 1 => proptest::collection::vec(any::<u16>(), 1..3)], prop_oneof![12 => Just(false), 1 => Just(true)], prop_oneof![5 => Just(false), 1 => Just(true)], who_strategy()).prop_map(|(m, skip, bad_proof, partial, by)| Op::Post { m, skip, bad_proof, partial, by }),
        3 => (0u8..4, refs(), who_strategy()).prop_map(|(m, sectors, by)| Op::DeclareFaults { m, sectors, by }),
        3 => (0u8..4, refs(), who_strategy()).prop_map(|(m, sectors, by)| Op::DeclareRecovered { m, sectors, by }),
        2 => (0u8..4, refs(), who_strategy()).prop_map(|(m, sectors, by)| Op::Terminate { m, sectors, by }),
        2 => (0u8..4, refs(), 1u16..300).prop_map(|(m, sectors, add_days)| Op::Extend { m, sectors, add_days }),
        1 => (0u8..4, 0u8..48).prop_map(|(m, deadline)| Op::Compact { m, deadline }),
        4 => (0u8..4, 0u32..50_000, prop_oneof![3 => Just(0u32), 1 => 0u32..100_000], prop_oneof![1 => Just(0u8), 6 => 1u8..3]).prop_map(|(m, milli, penalty_milli, wins)| Op::Reward { m, milli, penalty_milli, wins }),
        3 => (0u8..4, prop_oneof![4 => Just(Who::Owner), 1 => Just(Who::Worker), 1 => Just(Who::Stranger), 3 => Just(Who::Beneficiary)], prop_oneof![3 => 0u16..1000, 1 => Just(1000u16), 1 => 1001u16..2000]).prop_map(|(m, by, pm)| Op::Withdraw { m, by, pm }),
        1 => (0u8..4, -2i8..3, prop_oneof![Just(Who::Owner), Just(Who::Beneficiary)], 1u16..1000).prop_map(|(m, rel, by, pm)| Op::WithdrawAtExpiry { m, rel, by, pm }),
        1 => (0u8..4, prop_oneof![1 => Just(0u32), 3 => 1u32..20_000, 2 => 1_000_000u32..4_000_000], prop_oneof![1 => 0u16..3, 4 => 3u16..3000], prop_oneof![5 => Just(false), 1 => Just(true)]).prop_map(|(m, quota_milli, exp_rel, back)| Op::SetBeneficiary { m, quota_milli, exp_rel, back }),
        1 => (0u8..3).prop_map(|m| Op::RepayDebt { m }),
        1 => (0u8..4, 0u8..48, 0u8..2).prop_map(|(m, deadline, index)| Op::Dispute { m, deadline, index }),
        1 => (0u8..4, 0u8..7, 0u16..1200, prop_oneof![Just(Who::Reporter), Just(Who::Stranger)]).prop_map(|(m, kind, age, by)| Op::ConsensusFault { m, kind, age, by }),
        1 => (0u8..4, 0u16..2000).prop_map(|(m, whole)| Op::TopUp { m, whole }),
        14 => adv_strategy().prop_map(Op::Advance),
        6 => (0u8..4, 0u8..4, prop_oneof![1 => Just(0u16), 2 => 0u16..400]).prop_map(|(m, n, life_days)| Op::Onboard { m, n, life_days }),
        16 => (0u8..4, prop_oneof![3 => 0u8..5, 1 => 0u8..60], prop_oneof![4 => Just(vec![]), 1 => proptest::collection::vec(any::<u16>(), 1..3)], prop_oneof![14 => Just(false), 1 => Just(true)], prop_oneof![6 => Just(false), 1 => Just(true)]).prop_map(|(m, into, skip, bad_proof, partial)| Op::PostNext { m, into, skip, bad_proof, partial }),
        1 => (any::<u16>(), any::<bool>()).prop_map(|(ordinal, syscall)| Op::InjectFault { ordinal, syscall }),
        1 => (any::<u16>(), any::<bool>()).prop_map(|(ordinal, syscall)| Op::TickFault { ordinal, syscall }),
    ]
}

pub fn case_strategy_w(max_ops: usize, bulk: u32, long: u32, dispute: u32, verified: u32, benef: u32) -> impl Strategy<Value = SysCase> {
    (1u8..5, proptest::collection::vec(prop_oneof![(if verified >= 20 { 1 } else { 3 }) => Just(0u8), (if verified >= 20 { 4 } else { 1 }) => Just(1u8), 1 => Just(2u8)], 4), prop_oneof![2 => Just(0u8), 2 => Just(1u8), 1 => Just(2u8)], prop_oneof![9 => Just(false), 1 => Just(true)], any::<bool>(), proptest::collection::vec(prop_oneof![6 => Just(0u8), 1 => Just(1u8), 1 => Just(2u8)], 4), proptest::collection::vec(op_strategy_w(bulk, long, dispute, verified, benef), 0..max_ops)).prop_map(|(n_miners, proofs, min_power, poor_reward, whale, funding, ops)| SysCase { n_miners, proofs, min_power, poor_reward, whale, funding, ops })
}

pub fn case_strategy(max_ops: usize) -> impl Strategy<Value = SysCase> {
    (1u8..5, proptest::collection::vec(prop_oneof![3 => Just(0u8), 1 => Just(1u8), 1 => Just(2u8)], 4), prop_oneof![2 => Just(0u8), 2 => Just(1u8), 1 => Just(2u8)], proptest::collection::vec(op_strategy(), 0..max_ops)).prop_map(|(n_miners, proofs, min_power, ops)| SysCase { n_miners, proofs, min_power, poor_reward: false, whale: false, funding: vec![], ops })
}
