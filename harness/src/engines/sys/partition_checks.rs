//! C02 (power == proven, healthy, unexpired sectors) and C04 (sector bookkeeping) layers:
//! everything is recomputed from the individual sector records with the harness's own formulas.

use super::checks::Checks;
use super::ops::{DEADLINE_EPOCHS, MinerH, PERIOD};
use super::view::*;
use crate::common::*;
use crate::world::World;
use crate::{vassert, vfail};
use fvm_shared::bigint::{BigInt, Integer};
use num_traits::Zero;
use std::collections::{BTreeMap, BTreeSet};

/// size of a sector as implied by its own seal proof (falls back to the miner's configured size)
pub fn own_size(miner_size: u64, s: &SectorView) -> u64 {
    use fvm_shared::sector::RegisteredSealProof;
    RegisteredSealProof::from(s.seal_proof).sector_size().map(|x| x as u64).unwrap_or(miner_size)
}

/// protocol definition of sector power (fixed point 2^20, base multiplier 10, verified multiplier 100);
/// the size is the sector's own (by its seal proof), which must coincide with the miner's
pub fn sector_power(size: u64, s: &SectorView) -> Pow {
    let size = own_size(size, s);
    let duration = s.expiration - s.power_base_epoch;
    let spacetime = BigInt::from(size) * BigInt::from(duration);
    let qa = if spacetime.is_zero() {
        BigInt::zero()
    } else {
        let weighted: BigInt = (&spacetime - &s.verified_weight) * BigInt::from(10) + &s.verified_weight * BigInt::from(100);
        let shifted: BigInt = weighted << 20u32;
        let quality = shifted.div_floor(&spacetime).div_floor(&BigInt::from(10));
        (BigInt::from(size) * quality) >> 20u32
    };
    Pow { raw: BigInt::from(size), qa }
}

fn sum_power(mv: &MinerView, set: impl Iterator<Item = u64>) -> Result<Pow, u64> {
    let mut p = Pow::default();
    for s in set {
        match mv.sectors.get(&s) {
            Some(x) => p.add(&sector_power(mv.sector_size, x)),
            None => return Err(s),
        }
    }
    Ok(p)
}

/// smallest epoch >= x congruent to `off` modulo the proving period
fn quantize_up(x: i64, off: i64) -> i64 {
    let r = (x - off).rem_euclid(PERIOD);
    if r == 0 { x } else { x + (PERIOD - r) }
}

pub fn check_all(c: &mut Checks, w: &World, miners: &[MinerH], stats: &mut CaseStats) -> VResult {
    let c02 = c.on("C02");
    let c04 = c.on("C04");
    if !c02 && !c04 {
        return Ok(());
    }
    let pv = read_power(&w.v);
    let mut sum_claims = Pow::default();
    for m in miners {
        if !c.changed("partition", m.id) {
            if c02 {
                let (claim, _) = pv.claims.get(&m.id).cloned().unwrap_or_default();
                let mut ap = c.cached_active.get(&m.id).cloned().unwrap_or_default();
                if let Some(ph) = c.phantom.get(&m.id) {
                    ap.add(ph);
                }
                vassert!(claim == ap, "claim-ne-active-sectors", "miner {} is credited {:?} but its proven, healthy, unexpired sectors sum to {:?}", m.id, claim, ap);
                sum_claims.add(&claim);
            }
            continue;
        }
        let mv = &c.views[&m.id];
        let mut active_power = Pow::default();
        let mut seen: BTreeMap<u64, (usize, usize)> = BTreeMap::new();
        for (di, d) in mv.deadlines.iter().enumerate() {
            let off = mv.period_start + (di as i64 + 1) * DEADLINE_EPOCHS - 1;
            let mut live_cnt = 0u64;
            let mut total_cnt = 0u64;
            let mut d_live = Pow::default();
            let mut d_faulty = Pow::default();
            let mut d_fee = BigInt::zero();
            let mut parts_with_early: BTreeSet<u64> = BTreeSet::new();
            let mut epochs_needed: BTreeMap<i64, BTreeSet<u64>> = BTreeMap::new();
            for (pi, p) in d.partitions.iter().enumerate() {
                let live: Set = p.sectors.difference(&p.terminated).copied().collect();
                let active: Set = live.iter().copied().filter(|s| !p.faults.contains(s) && !p.unproven.contains(s)).collect();
                let ap = match sum_power(mv, active.iter().copied()) {
                    Ok(p) => p,
                    Err(s) => vfail!("sector-info-missing", "miner {} sector {} is active in deadline {} partition {} but has no sector record", m.id, s, di, pi),
                };
                active_power.add(&ap);
                if !c04 {
                    continue;
                }
                // (2) each sector in exactly one partition
                for s in &p.sectors {
                    if let Some(prev) = seen.insert(*s, (di, pi)) {
                        vfail!("sector-in-two-partitions", "miner {} sector {} is in {:?} and in ({}, {})", m.id, s, prev, di, pi);
                    }
                }
                for s in &live {
                    vassert!(mv.sectors.contains_key(s), "sector-info-missing", "miner {} live sector {} has no sector record", m.id, s);
                }
                // (3) set nesting
                vassert!(p.terminated.is_subset(&p.sectors) && p.faults.is_subset(&live) && p.unproven.is_subset(&live) && p.recoveries.is_subset(&p.faults), "partition-sets-not-nested", "miner {} deadline {} partition {}: sectors {:?} terminated {:?} faults {:?} recoveries {:?} unproven {:?}", m.id, di, pi, p.sectors, p.terminated, p.faults, p.recoveries, p.unproven);
                vassert!(p.unproven.is_disjoint(&p.faults), "unproven-and-faulty", "miner {} deadline {} partition {}: a sector is both unproven and faulty", m.id, di, pi);
                let lp = sum_power(mv, live.iter().copied()).unwrap();
                let up = sum_power(mv, p.unproven.iter().copied()).unwrap();
                let fp = sum_power(mv, p.faults.iter().copied()).unwrap();
                let rp = sum_power(mv, p.recoveries.iter().copied()).unwrap();
                vassert!(lp == p.live_power && up == p.unproven_power && fp == p.faulty_power && rp == p.recovering_power, "partition-power-memo", "miner {} deadline {} partition {} power memos (live {:?} unproven {:?} faulty {:?} recovering {:?}) != recomputed ({:?} {:?} {:?} {:?})", m.id, di, pi, p.live_power, p.unproven_power, p.faulty_power, p.recovering_power, lp, up, fp, rp);
                live_cnt += live.len() as u64;
                total_cnt += p.sectors.len() as u64;
                d_live.add(&lp);
                d_faulty.add(&fp);
                for s in &live {
                    d_fee += &mv.sectors[s].daily_fee;
                }
                // (5) expiration queue
                let mut in_queue: BTreeMap<u64, i64> = BTreeMap::new();
                for (e, set) in &p.expirations {
                    vassert!((e - off).rem_euclid(PERIOD) == 0, "expiration-epoch-not-quantised", "miner {} deadline {} partition {}: queue entry at {} is not a last-epoch of the deadline", m.id, di, pi, e);
                    epochs_needed.entry(*e).or_default().insert(pi as u64);
                    let mut pledge = BigInt::zero();
                    let mut act = Pow::default();
                    let mut flt = Pow::default();
                    let mut fee = BigInt::zero();
                    for (s, early) in set.on_time.iter().map(|s| (s, false)).chain(set.early.iter().map(|s| (s, true))) {
                        if let Some(prev) = in_queue.insert(*s, *e) {
                            vfail!("sector-expires-twice", "miner {} sector {} is scheduled at {} and at {}", m.id, s, prev, e);
                        }
                        vassert!(live.contains(s), "dead-sector-in-queue", "miner {} sector {} is in the expiration queue of ({}, {}) but is not a live member", m.id, s, di, pi);
                        let info = &mv.sectors[s];
                        let pw = sector_power(mv.sector_size, info);
                        let on_time_epoch = quantize_up(info.expiration, off);
                        if early {
                            vassert!(p.faults.contains(s), "healthy-sector-expires-early", "miner {} sector {} has an early expiration but is not faulty", m.id, s);
                            vassert!(*e < on_time_epoch, "early-entry-not-early", "miner {} sector {} early entry at {} is not before its on-time epoch {}", m.id, s, e, on_time_epoch);
                            flt.add(&pw);
                        } else {
                            vassert!(*e == on_time_epoch, "on-time-entry-misplaced", "miner {} sector {} (expiration {}) is scheduled on time at {} instead of {}", m.id, s, info.expiration, e, on_time_epoch);
                            pledge += &info.pledge;
                            if p.faults.contains(s) {
                                flt.add(&pw);
                            } else {
                                act.add(&pw);
                            }
                        }
                        fee += &info.daily_fee;
                    }
                    vassert!(pledge == set.on_time_pledge && act == set.active_power && flt == set.faulty_power && fee == set.fee_deduction, "expiration-set-memo", "miner {} deadline {} partition {} entry {}: memo (pledge {} active {:?} faulty {:?} fee {}) != recomputed ({} {:?} {:?} {})", m.id, di, pi, e, set.on_time_pledge, set.active_power, set.faulty_power, set.fee_deduction, pledge, act, flt, fee);
                }
                for s in &live {
                    vassert!(in_queue.contains_key(s), "live-sector-not-scheduled", "miner {} live sector {} of ({}, {}) has no expiration entry", m.id, s, di, pi);
                }
                // (6) early termination queue holds terminated sectors only
                for set in p.early_terminated.values() {
                    vassert!(set.is_subset(&p.terminated), "early-termination-of-live-sector", "miner {} deadline {} partition {}: early-termination queue names a non-terminated sector", m.id, di, pi);
                }
                if !p.early_terminated.is_empty() {
                    parts_with_early.insert(pi as u64);
                }
            }
            if !c04 {
                continue;
            }
            // (4) deadline summaries
            vassert!(d.live_sectors == live_cnt && d.total_sectors == total_cnt, "deadline-sector-counts", "miner {} deadline {}: live {} total {} recomputed {} {}", m.id, di, d.live_sectors, d.total_sectors, live_cnt, total_cnt);
            vassert!(d.live_power == d_live && d.faulty_power == d_faulty, "deadline-power-memo", "miner {} deadline {}: live {:?} faulty {:?} recomputed {:?} {:?}", m.id, di, d.live_power, d.faulty_power, d_live, d_faulty);
            vassert!(d.daily_fee == d_fee, "deadline-daily-fee", "miner {} deadline {}: daily fee {} != Σ live sectors' fees {}", m.id, di, d.daily_fee, d_fee);
            for (e, parts) in &epochs_needed {
                let have = d.expirations.get(e).cloned().unwrap_or_default();
                vassert!(parts.is_subset(&have), "deadline-queue-misses-partition", "miner {} deadline {}: partitions {:?} expire at {} but the deadline queue lists {:?}", m.id, di, parts, e, have);
            }
            vassert!(parts_with_early.is_subset(&d.early_terminations), "deadline-early-termination-flag", "miner {} deadline {}: partitions {:?} hold early terminations, flagged {:?}", m.id, di, parts_with_early, d.early_terminations);
            if !parts_with_early.is_empty() {
                vassert!(mv.early_terminations.contains(&(di as u64)), "miner-early-termination-flag", "miner {} deadline {} holds early terminations but is not flagged", m.id, di);
            }
        }
        if c04 {
            // (1) allocated numbers cover everything ever seen; every sector record is in a partition
            for s in mv.sectors.keys() {
                vassert!(mv.allocated.contains(s), "sector-number-not-allocated", "miner {} sector {} exists but its number is not marked allocated", m.id, s);
                vassert!(seen.contains_key(s), "sector-in-no-partition", "miner {} sector {} has a record but belongs to no partition", m.id, s);
            }
            for s in mv.precommits.keys() {
                vassert!(mv.allocated.contains(s), "sector-number-not-allocated", "miner {} pre-committed sector {} is not marked allocated", m.id, s);
            }
            let ever = c.ever_allocated.entry(m.id).or_default();
            for s in ever.iter() {
                vassert!(mv.allocated.contains(s), "allocation-forgotten", "miner {} sector number {} was allocated earlier and is free again", m.id, s);
            }
            ever.extend(mv.allocated.iter().copied());
        }
        if c02 {
            let (claim, _) = pv.claims.get(&m.id).cloned().unwrap_or_default();
            c.cached_active.insert(m.id, active_power.clone());
            let mut active_power = active_power.clone();
            if let Some(ph) = c.phantom.get(&m.id) {
                // genesis fixture: the idle 'whale' claim that gives the network a realistic size
                active_power.add(ph);
            }
            vassert!(claim == active_power, "claim-ne-active-sectors", "miner {} is credited {:?} but its proven, healthy, unexpired sectors sum to {:?}", m.id, claim, active_power);
            sum_claims.add(&claim);
            if !active_power.is_zero() {
                stats.label("miner_has_power");
            }
        }
    }
    if c02 {
        // network totals under the consensus-minimum rule
        let min = BigInt::from(w.v.policy.minimum_consensus_power.clone());
        let above: Vec<&(Pow, i64)> = pv.claims.values().filter(|(p, _)| p.raw >= min).collect();
        vassert!(pv.above_min == above.len() as i64, "above-min-count", "power actor counts {} miners above the consensus minimum, recount {}", pv.above_min, above.len());
        vassert!(pv.miner_count == pv.claims.len() as i64, "miner-count", "miner_count {} but {} claims", pv.miner_count, pv.claims.len());
        let mut all = Pow::default();
        for (p, _) in pv.claims.values() {
            all.add(p);
        }
        vassert!(pv.total_raw_committed == all.raw && pv.total_qa_committed == all.qa, "committed-totals", "committed totals ({}, {}) != Σ claims ({}, {})", pv.total_raw_committed, pv.total_qa_committed, all.raw, all.qa);
        let mut ab = Pow::default();
        for (p, _) in &above {
            ab.add(p);
        }
        vassert!(pv.total_raw == ab.raw && pv.total_qa == ab.qa, "above-min-totals", "totals ({}, {}) != Σ claims at/above the minimum ({}, {})", pv.total_raw, pv.total_qa, ab.raw, ab.qa);
    }
    Ok(())
}

/// After the tick at `epoch`: if a deadline of some miner closed at this epoch, every partition that was not
/// posted in that window must have no active sector left, and the harness's record of posts is reset.
pub fn after_deadline_close(c: &mut Checks, w: &World, miners: &[MinerH], epoch: i64, stats: &mut CaseStats) -> VResult {
    if !c.on("C02") {
        return Ok(());
    }
    let _ = w;
    for m in miners {
        let mv = &c.views[&m.id];
        // no sector stays live (and powered) past the deadline end at which it expires or times out
        if mv.cron_active {
            for (di, d) in mv.deadlines.iter().enumerate() {
                for (pi, p) in d.partitions.iter().enumerate() {
                    if let Some((e, set)) = p.expirations.iter().next() {
                        vassert!(*e > epoch, "expiration-not-processed", "miner {} deadline {} partition {}: sectors {:?}/{:?} were due at {} and are still live after the tick at {}", m.id, di, pi, set.on_time, set.early, e, epoch);
                    }
                }
            }
        }
        if !mv.cron_active && !c.ever_active.contains(&m.id) {
            continue;
        }
        let rel = (epoch - mv.period_start).rem_euclid(PERIOD);
        if rel % DEADLINE_EPOCHS != DEADLINE_EPOCHS - 1 {
            continue;
        }
        let di = (rel / DEADLINE_EPOCHS) as usize;
        let posted = c.posted.remove(&(m.id, di as u64)).unwrap_or_default();
        if !c.had_callback.contains(&m.id) {
            continue;
        }
        for (pi, p) in mv.deadlines[di].partitions.iter().enumerate() {
            if posted.contains(&(pi as u64)) {
                continue;
            }
            let active: Vec<u64> = p.sectors.iter().copied().filter(|s| !p.terminated.contains(s) && !p.faults.contains(s) && !p.unproven.contains(s)).collect();
            vassert!(active.is_empty(), "unposted-partition-keeps-power", "miner {} deadline {} closed at {} without a proof for partition {}, yet sectors {:?} still count as active", m.id, di, epoch, pi, active);
            if !p.sectors.is_empty() {
                stats.label("deadline_closed_without_post");
            }
        }
    }
    Ok(())
}
