//! C15 layer: every fault / termination / dispute / consensus-fault charge is accounted for.
//!
//! Per message and per tick, for every miner:
//!     observed charge  = Δ fee debt + value burnt by the miner + value paid by the miner to a reporter
//!     expected charge  = recomputed from the *previous* state view, the operation and the reward / power
//!                        estimates the miner was given (cron callback parameters, or the answers of the
//!                        reward and power actors inside the message)
//! and observed must equal expected (two-sided bounds for disputes).  The only trusted primitive is the
//! repo's pure "expected reward for power" projection; it is itself banded by a floating-point integral.

use super::checks::Checks;
use super::ops::MinerH;
use super::partition_checks::sector_power;
use super::view::*;
use crate::common::*;
use crate::simvm::{MsgResult, Trace};
use crate::world::World;
use crate::{vassert, vfail};
use fil_actor_miner as mi;
use fil_actors_runtime::reward::FilterEstimate;
use fil_actors_runtime::{BURNT_FUNDS_ACTOR_ID, REWARD_ACTOR_ID, STORAGE_POWER_ACTOR_ID};
use fvm_shared::ActorID;
use fvm_shared::bigint::{BigInt, Integer};
use fvm_shared::econ::TokenAmount;
use num_traits::{Signed, ToPrimitive, Zero};
use std::collections::BTreeSet;

const DAY: i64 = 2880;
const FAULT_PROJECTION: i64 = DAY * 351 / 100;
const INVALID_POST_PROJECTION: i64 = FAULT_PROJECTION + 2 * DAY;

fn atto(whole: i64) -> BigInt {
    BigInt::from(whole) * BigInt::from(10u64.pow(18))
}

#[derive(Clone)]
pub struct Estimates {
    pub reward: FilterEstimate,
    pub power: FilterEstimate,
}

fn q128_to_f64(x: &BigInt) -> f64 {
    // keep 64 bits of precision
    let bits = x.bits();
    if bits <= 1000 {
        let shift = if bits > 100 { bits - 100 } else { 0 };
        let top = (x >> (shift as u32)).to_f64().unwrap_or(0.0);
        top * 2f64.powi(shift as i32 - 128)
    } else {
        f64::INFINITY
    }
}

/// qa × Σ_{t} reward(t) / power(t) over `duration` epochs by numerical integration of the linear estimates
fn projection_f64(e: &Estimates, qa: &BigInt, duration: i64) -> f64 {
    let (r0, vr) = (q128_to_f64(&e.reward.position), q128_to_f64(&e.reward.velocity));
    let (p0, vp) = (q128_to_f64(&e.power.position), q128_to_f64(&e.power.velocity));
    let n = 4000;
    let h = duration as f64 / n as f64;
    let f = |t: f64| (r0 + vr * t) / (p0 + vp * t);
    let mut s = f(0.0) + f(duration as f64);
    for i in 1..n {
        let t = i as f64 * h;
        s += if i % 2 == 1 { 4.0 } else { 2.0 } * f(t);
    }
    qa.to_f64().unwrap_or(0.0) * s * h / 3.0
}

/// the trusted primitive, with its band check
fn projection(e: &Estimates, qa: &BigInt, duration: i64, stats: &mut CaseStats) -> VResult<BigInt> {
    let exact = mi::expected_reward_for_power(&e.reward, &e.power, qa, duration).atto().clone();
    let est = projection_f64(e, qa, duration);
    let p0 = q128_to_f64(&e.power.position);
    let p_end = p0 + q128_to_f64(&e.power.velocity) * duration as f64;
    // (band only where the estimates are well-conditioned: network power estimate ≥ 1 MiB and not collapsing within the projection)
    // (the fixed-point formula loses all precision when the power estimate changes by less than ~1e-6 of itself over the
    //  projection — differences of nearly equal logarithms — so such samples are not banded)
    let vp = q128_to_f64(&e.power.velocity);
    let well_conditioned = vp == 0.0 || (vp.abs() * duration as f64) / p0 > 1e-6;
    if est.is_finite() && est > 1e9 && e.power.estimate() >= BigInt::from(1u64 << 20) && p_end > 0.1 * p0 && well_conditioned {
        let ex = exact.to_f64().unwrap_or(0.0);
        let rel = (ex - est).abs() / est;
        vassert!(rel < 2e-3, "reward-projection-off", "expected reward for power {} over {} epochs is {} but the integral of the estimates gives {:.0} (relative error {:.5})", qa, duration, exact, est, rel);
        stats.count("projection_band_checked", 1);
    }
    Ok(exact)
}

fn fault_fee(e: &Estimates, qa: &BigInt, stats: &mut CaseStats) -> VResult<BigInt> {
    if qa.is_zero() {
        return Ok(BigInt::zero());
    }
    projection(e, qa, FAULT_PROJECTION, stats)
}

/// FIP-0098 termination fee, written from the specification
pub fn termination_fee(pledge: &BigInt, age: i64, fault_fee: &BigInt) -> BigInt {
    let simple = (pledge * BigInt::from(85)).div_floor(&BigInt::from(1000));
    let by_age = (BigInt::from(age) * &simple).div_floor(&BigInt::from(140 * DAY));
    let base = std::cmp::min(simple, by_age);
    let min_abs = (pledge * BigInt::from(2)).div_floor(&BigInt::from(100));
    let min_ff = (fault_fee * BigInt::from(105)).div_floor(&BigInt::from(100));
    std::cmp::max(base, std::cmp::max(min_abs, min_ff))
}

fn sent_by(t: &Trace, miner: ActorID, to: ActorID) -> BigInt {
    let mut total = BigInt::zero();
    t.walk_effective(&mut |x| {
        if x.from == miner && x.to_id == Some(to) && x.method == 0 {
            total += x.value.atto();
        }
    });
    total
}

/// estimates the miner fetched inside an invocation (answers of reward.ThisEpochReward / power.CurrentTotalPower)
fn fetched_estimates(inv: &Trace) -> Option<Estimates> {
    let mut reward = None;
    let mut power = None;
    for s in &inv.subs {
        if !s.ok() {
            continue;
        }
        if s.to_id == Some(REWARD_ACTOR_ID) && s.method == fil_actor_reward::Method::ThisEpochReward as u64 {
            let r: Option<fil_actors_runtime::reward::ThisEpochRewardReturn> = s.ret.as_ref().and_then(|b| b.deserialize().ok());
            reward = r.map(|r| r.this_epoch_reward_smoothed);
        }
        if s.to_id == Some(STORAGE_POWER_ACTOR_ID) && s.method == fil_actor_power::Method::CurrentTotalPower as u64 {
            let r: Option<fil_actor_power::CurrentTotalPowerReturn> = s.ret.as_ref().and_then(|b| b.deserialize().ok());
            power = r.map(|r| r.quality_adj_power_smoothed);
        }
    }
    Some(Estimates { reward: reward?, power: power? })
}

fn queue_entries(mv: &MinerView) -> BTreeSet<(i64, u64)> {
    let mut out = BTreeSet::new();
    for d in &mv.deadlines {
        for p in &d.partitions {
            for (e, set) in &p.early_terminated {
                for s in set {
                    out.insert((*e, *s));
                }
            }
        }
    }
    out
}

fn terminated_set(mv: &MinerView) -> BTreeSet<u64> {
    mv.deadlines.iter().flat_map(|d| d.partitions.iter().flat_map(|p| p.terminated.iter().copied())).collect()
}

pub fn check(c: &mut Checks, w: &World, miners: &[MinerH], r: &MsgResult, is_tick: bool, stats: &mut CaseStats) -> VResult {
    if !c.on("C15") {
        return Ok(());
    }
    let now = w.v.epoch();
    let top = &r.trace;
    let top_method = top.method;
    for m in miners {
        let (pre, post) = match (c.prev_views.get(&m.id), c.views.get(&m.id)) {
            (Some(a), Some(b)) => (a.clone(), b.clone()),
            _ => continue,
        };
        // --- observed ---
        let burnt = sent_by(top, m.id, BURNT_FUNDS_ACTOR_ID);
        let is_report = !is_tick && top.to_id == Some(m.id) && (top_method == mi::Method::ReportConsensusFault as u64 || top_method == mi::Method::DisputeWindowedPoSt as u64) && r.ok();
        let to_reporter = if is_report { sent_by(top, m.id, top.from) } else { BigInt::zero() };
        let d_debt = &post.fee_debt - &pre.fee_debt;
        let observed = &d_debt + &burnt + &to_reporter;
        // --- expected ---
        let mut expected = BigInt::zero();
        let mut upper_extra = BigInt::zero(); // slack allowed above `expected` (disputes only)
        let mut parts: Vec<String> = vec![];
        // invocations of this miner that took effect
        let mut invs: Vec<&Trace> = vec![];
        top.walk_effective(&mut |x| {
            if x.to_id == Some(m.id) && x.method != 0 {
                invs.push(x);
            }
        });
        if invs.is_empty() {
            vassert!(burnt.is_zero() && to_reporter.is_zero() && pre.state_cid == post.state_cid, "change-without-invocation", "miner {} changed state or burnt {} without being invoked", m.id, burnt);
            continue;
        }
        let mut term_estimates: Option<Estimates> = None;
        let mut deadline_event = false;
        for inv in &invs {
            if inv.from == STORAGE_POWER_ACTOR_ID && inv.method == mi::Method::OnDeferredCronEvent as u64 {
                let p: mi::DeferredCronEventParams = match inv.params.as_ref().and_then(|b| b.deserialize().ok()) {
                    Some(p) => p,
                    None => vfail!("cron-params-undecodable", "miner {}", m.id),
                };
                let est = Estimates { reward: p.reward_smoothed.clone(), power: p.quality_adj_power_smoothed.clone() };
                let payload: mi::CronEventPayload = fvm_ipld_encoding::from_slice(&p.event_payload).map_err(|_| Violation::new("cron-payload-undecodable", format!("miner {}", m.id)))?;
                term_estimates = Some(est.clone());
                if payload.event_type == mi::CRON_EVENT_PROVING_DEADLINE {
                    if deadline_event {
                        // two deadline callbacks for one miner in one tick is a C05 matter; the accounting below would be ambiguous
                        return Ok(());
                    }
                    deadline_event = true;
                    // (1) deposits of pre-commitments that expired unproven
                    let gone: BigInt = pre.precommits.iter().filter(|(k, _)| !post.precommits.contains_key(k)).map(|(_, p)| p.deposit.clone()).sum();
                    if gone.is_positive() {
                        stats.label("precommit_expired_deposit_burnt");
                        parts.push(format!("expired deposits {gone}"));
                    }
                    expected += gone;
                    if now >= pre.period_start {
                        // the deadline that closes is the one containing this epoch by the miner's proving-period offset (the
                        // recorded `current_deadline` can be stale at the first callback after the cron was (re)activated)
                        let dl = ((now - pre.period_start).rem_euclid(2880) / 60) as usize;
                        // (2) continued-fault fee for the power that was already faulty when the deadline closed
                        let mut faulty_qa = BigInt::zero();
                        for p in &pre.deadlines[dl].partitions {
                            for s in &p.faults {
                                if let Some(info) = pre.sectors.get(s) {
                                    faulty_qa += sector_power(pre.sector_size, info).qa;
                                }
                            }
                        }
                        let ff = fault_fee(&est, &faulty_qa, stats)?;
                        if ff.is_positive() {
                            stats.label("continued_fault_fee_charged");
                            parts.push(format!("fault fee {ff} for qa {faulty_qa}"));
                        }
                        expected += ff;
                        // (3) daily fee of the sectors left live in that deadline, capped at a share of their expected daily reward
                        let had_live = pre.deadlines[dl].partitions.iter().any(|p| p.sectors.len() > p.terminated.len());
                        if had_live {
                            let mut fee = BigInt::zero();
                            let mut live_qa = BigInt::zero();
                            for p in &post.deadlines[dl].partitions {
                                for s in p.sectors.difference(&p.terminated) {
                                    if let Some(info) = post.sectors.get(s) {
                                        fee += &info.daily_fee;
                                        live_qa += sector_power(post.sector_size, info).qa;
                                    }
                                }
                            }
                            if fee.is_positive() {
                                let day = projection(&est, &live_qa, DAY, stats)?;
                                let cap = day.div_floor(&BigInt::from(w.v.policy.daily_fee_block_reward_cap_denom));
                                let payable = std::cmp::min(cap, fee);
                                if payable.is_positive() {
                                    stats.label("daily_fee_charged");
                                    parts.push(format!("daily fee {payable}"));
                                }
                                expected += payable;
                            }
                        }
                    }
                }
            } else if inv.from == REWARD_ACTOR_ID && inv.method == mi::Method::ApplyRewards as u64 {
                let p: mi::ApplyRewardParams = match inv.params.as_ref().and_then(|b| b.deserialize().ok()) {
                    Some(p) => p,
                    None => vfail!("apply-rewards-params-undecodable", "miner {}", m.id),
                };
                vassert!(!p.penalty.is_negative() && !p.reward.is_negative(), "negative-penalty-accepted", "miner {} accepted ApplyRewards with reward {} penalty {}", m.id, p.reward, p.penalty);
                if p.penalty.is_positive() {
                    stats.label("block_penalty_charged");
                    parts.push(format!("block penalty {}", p.penalty));
                }
                expected += p.penalty.atto();
            } else if inv.method == mi::Method::TerminateSectors as u64 {
                term_estimates = fetched_estimates(inv).or(term_estimates);
            } else if inv.method == mi::Method::ReportConsensusFault as u64 {
                let est = match fetched_estimates_reward_only(inv) {
                    Some(e) => e,
                    None => vfail!("consensus-fault-without-reward-query", "miner {}", m.id),
                };
                let epoch_reward: BigInt = &est.position >> 128u32;
                let penalty = epoch_reward.clone(); // 5 × epoch reward / 5 expected leaders
                let slasher = epoch_reward.div_floor(&BigInt::from(20));
                expected += &penalty;
                parts.push(format!("consensus fault penalty {penalty}"));
                stats.label("consensus_fault_penalised");
                // what was actually taken from the miner now
                let taken = &burnt + &to_reporter;
                vassert!(to_reporter <= slasher && to_reporter <= taken, "reporter-overpaid", "reporter received {} (policy share {}, taken from the miner now {})", to_reporter, slasher, taken);
                let reporter_send_failed = inv.subs.iter().any(|s| s.to_id == Some(top.from) && s.method == 0 && !s.ok());
                if !reporter_send_failed {
                    vassert!(to_reporter == std::cmp::min(slasher.clone(), taken.clone()), "reporter-underpaid", "reporter received {} of min(share {}, taken {})", to_reporter, slasher, taken);
                }
            } else if inv.method == mi::Method::DisputeWindowedPoSt as u64 {
                let est = match fetched_estimates(inv) {
                    Some(e) => e,
                    None => vfail!("dispute-without-estimates", "miner {}", m.id),
                };
                // sectors that became faulty through the dispute
                let mut new_faulty = BigInt::zero();
                let mut all_qa = BigInt::zero();
                for (di, d) in post.deadlines.iter().enumerate() {
                    for (pi, p) in d.partitions.iter().enumerate() {
                        let before = pre.deadlines.get(di).and_then(|d| d.partitions.get(pi));
                        for s in &p.faults {
                            if before.map(|b| !b.faults.contains(s)).unwrap_or(true) {
                                if post.sectors.contains_key(s) {
                                    // the penalty is assessed on the power the disputed proof vouched for (the snapshot at window
                                    // close), which may predate a replica update: at least the raw size, at most 10x
                                    new_faulty += BigInt::from(post.sector_size);
                                }
                            }
                        }
                    }
                }
                // upper bound: every sector (also terminated ones) of the disputed deadline
                let dp: Option<mi::DisputeWindowedPoStParams> = inv.params.as_ref().and_then(|b| b.deserialize().ok());
                if let Some(dp) = dp {
                    if let Some(d) = pre.deadlines.get(dp.deadline as usize) {
                        for p in &d.partitions {
                            for s in &p.sectors {
                                if pre.sectors.contains_key(s) || post.sectors.contains_key(s) {
                                    all_qa += BigInt::from(pre.sector_size) * BigInt::from(10);
                                }
                            }
                        }
                    }
                }
                let lo = projection(&est, &new_faulty, INVALID_POST_PROJECTION, stats)? + atto(20) + atto(4);
                let hi = projection(&est, &std::cmp::max(all_qa, new_faulty.clone()), INVALID_POST_PROJECTION, stats)? + atto(20) + atto(4);
                expected += &lo;
                upper_extra += &hi - &lo;
                parts.push(format!("dispute penalty {lo}..{hi}"));
                stats.label("dispute_penalised");
                let taken = &burnt + &to_reporter;
                vassert!(to_reporter <= atto(4) && to_reporter <= taken, "reporter-overpaid", "disputer received {} (policy reward 4 FIL, taken from the miner now {})", to_reporter, taken);
            }
        }
        // outside the domain: a network whose smoothed QA power estimate has decayed to zero (all power faulty or gone
        // for weeks). The projection then degenerates to "one epoch's reward" for any power, including none.
        let degenerate = |e: &Estimates| e.power.estimate() <= BigInt::zero();
        if term_estimates.as_ref().map(degenerate).unwrap_or(false) || invs.iter().any(|i| fetched_estimates(i).as_ref().map(degenerate).unwrap_or(false)) {
            stats.label("network_power_estimate_zero");
            stats.count("steps_skipped_zero_network_power", 1);
            continue;
        }
        // (4) termination fees: every early-termination entry that left the queues (or never entered them) in this step
        let pre_q = queue_entries(&pre);
        let post_q = queue_entries(&post);
        let pre_term = terminated_set(&pre);
        let mut processed: Vec<(i64, u64)> = pre_q.difference(&post_q).copied().collect();
        for s in terminated_set(&post).difference(&pre_term) {
            // terminated in this step: either queued now (early) or expired on time (no fee)
            let queued_now = post_q.iter().any(|(_, x)| x == s);
            let was_on_time = !queued_now && is_tick && !invs.iter().any(|i| i.method == mi::Method::TerminateSectors as u64) && on_time_expiry(&pre, *s, now);
            let faulty_timeout = !queued_now && is_tick && !was_on_time;
            if !queued_now && !was_on_time {
                let _ = faulty_timeout;
                processed.push((now, *s));
            }
        }
        if !processed.is_empty() {
            let est = match &term_estimates {
                Some(e) => e.clone(),
                None => vfail!("termination-without-estimates", "miner {} processed early terminations {:?} without reward/power estimates", m.id, processed),
            };
            let mut total = BigInt::zero();
            for (e, s) in &processed {
                let info = match pre.sectors.get(s).or_else(|| post.sectors.get(s)) {
                    Some(i) => i,
                    None => vfail!("terminated-sector-without-record", "miner {} sector {}", m.id, s),
                };
                let qa = sector_power(pre.sector_size, info).qa;
                let ff = fault_fee(&est, &qa, stats)?;
                let fee = termination_fee(&info.pledge, e - info.activation, &ff);
                let floor = (&info.pledge * BigInt::from(2)).div_floor(&BigInt::from(100));
                vassert!(fee >= floor, "termination-fee-below-floor", "fee {} < 2% of pledge {}", fee, info.pledge);
                total += fee;
            }
            stats.label("termination_fee_charged");
            parts.push(format!("termination fees {total} for {} sectors", processed.len()));
            expected += total;
        }
        vassert!(!expected.is_negative(), "negative-charge", "miner {} expected charge {} is negative", m.id, expected);
        let ok = observed >= expected && observed <= &expected + &upper_extra;
        vassert!(ok, "charge-mismatch", "miner {} at epoch {}: charged {} (Δdebt {} + burnt {} + reporter {}) but the protocol charges {} [{}] (slack {}); pre: pcd {} precommits {:?} locked {} ip {} dl {} period_start {}; post: pcd {} precommits {:?} locked {} ip {}; events {}", m.id, now, observed, d_debt, burnt, to_reporter, expected, parts.join("; "), upper_extra, pre.pcd, pre.precommits.keys().collect::<Vec<_>>(), pre.locked, pre.ip, pre.current_deadline, pre.period_start, post.pcd, post.precommits.keys().collect::<Vec<_>>(), post.locked, post.ip, invs.len());
        if expected.is_positive() && d_debt.is_positive() {
            stats.label("charge_recorded_as_debt");
        }
        // (5) fee debt blocks withdrawals, new pre-commits and recovery declarations
        if !is_tick && r.ok() && top.to_id == Some(m.id) {
            let gated = [mi::Method::WithdrawBalance as u64, mi::Method::PreCommitSectorBatch2 as u64, mi::Method::DeclareFaultsRecovered as u64];
            if gated.contains(&top_method) {
                vassert!(post.fee_debt.is_zero(), "debt-did-not-block", "miner {} completed method {} while still owing {}", m.id, top_method, post.fee_debt);
                if pre.fee_debt.is_positive() {
                    stats.label("debt_repaid_by_gated_method");
                }
            }
        }
    }
    Ok(())
}

fn fetched_estimates_reward_only(inv: &Trace) -> Option<FilterEstimate> {
    for s in &inv.subs {
        if s.ok() && s.to_id == Some(REWARD_ACTOR_ID) && s.method == fil_actor_reward::Method::ThisEpochReward as u64 {
            let r: Option<fil_actors_runtime::reward::ThisEpochRewardReturn> = s.ret.as_ref().and_then(|b| b.deserialize().ok());
            return r.map(|r| r.this_epoch_reward_smoothed);
        }
    }
    None
}

/// was sector `s` scheduled to expire on time at (or before) `now` in the previous view?
fn on_time_expiry(pre: &MinerView, s: u64, now: i64) -> bool {
    for d in &pre.deadlines {
        for p in &d.partitions {
            for (e, set) in &p.expirations {
                if *e <= now && set.on_time.contains(&s) {
                    return true;
                }
            }
        }
    }
    false
}

#[allow(dead_code)]
fn _unused(_: TokenAmount) {}
