//! C10 layer: verified allocations claimed by real sectors (ProveCommitSectors3 pieces), extensions with
//! maintained / dropped claims, claim-term extensions, expiry clean-up — and the registry-vs-sector checks.

use super::checks::Checks;
use super::ops::MinerH;
use super::view::*;
use crate::common::*;
use crate::simvm::{MsgResult, SimVM};
use crate::world::World;
use crate::{vassert, vfail};
use cid::Cid;
use fil_actor_miner as mi;
use fil_actor_verifreg as vr;
use fil_actors_runtime::{VERIFIED_REGISTRY_ACTOR_ID, parse_uint_key};
use fvm_shared::ActorID;
use fvm_shared::bigint::{BigInt, Integer};
use num_traits::{Signed, Zero};
use std::collections::{BTreeMap, BTreeSet};

pub const DROP_PERIOD: i64 = 30 * 2880;

#[derive(Clone, Debug, PartialEq, Eq)]
pub struct AllocV {
    pub client: ActorID,
    pub provider: ActorID,
    pub data: Cid,
    pub size: u64,
    pub term_min: i64,
    pub term_max: i64,
    pub expiration: i64,
}

#[derive(Clone, Debug, PartialEq, Eq)]
pub struct ClaimV {
    pub provider: ActorID,
    pub client: ActorID,
    pub data: Cid,
    pub size: u64,
    pub term_min: i64,
    pub term_max: i64,
    pub term_start: i64,
    pub sector: u64,
}

#[derive(Clone, Debug, Default)]
pub struct RegistryView {
    pub state_cid: Option<Cid>,
    pub allocs: BTreeMap<u64, AllocV>,
    pub claims: BTreeMap<u64, ClaimV>,
    pub next_id: u64,
}

pub fn read_registry(v: &SimVM) -> RegistryView {
    let store = &*v.store;
    let st: vr::State = v.get_state(VERIFIED_REGISTRY_ACTOR_ID).expect("verifreg state");
    let mut out = RegistryView { state_cid: v.actor(VERIFIED_REGISTRY_ACTOR_ID).map(|a| a.state), next_id: st.next_allocation_id, ..Default::default() };
    let mut allocs = st.load_allocs(store).expect("allocs");
    let mut owners = vec![];
    allocs
        .for_each(|k, _| {
            owners.push(parse_uint_key(k)?);
            Ok(())
        })
        .expect("iter");
    for o in owners {
        allocs
            .for_each_in(o, |k, a: &vr::Allocation| {
                out.allocs.insert(parse_uint_key(k)?, AllocV { client: a.client, provider: a.provider, data: a.data, size: a.size.0, term_min: a.term_min, term_max: a.term_max, expiration: a.expiration });
                Ok(())
            })
            .expect("iter");
    }
    let mut claims = st.load_claims(store).expect("claims");
    let mut owners = vec![];
    claims
        .for_each(|k, _| {
            owners.push(parse_uint_key(k)?);
            Ok(())
        })
        .expect("iter");
    for o in owners {
        claims
            .for_each_in(o, |k, c: &vr::Claim| {
                out.claims.insert(parse_uint_key(k)?, ClaimV { provider: c.provider, client: c.client, data: c.data, size: c.size.0, term_min: c.term_min, term_max: c.term_max, term_start: c.term_start, sector: c.sector });
                Ok(())
            })
            .expect("iter");
    }
    out
}

/// verified space of a sector: weight / remaining duration at the power base epoch
pub fn verified_space(s: &SectorView) -> Option<(BigInt, BigInt)> {
    let d = s.expiration - s.power_base_epoch;
    if d <= 0 {
        return None;
    }
    Some(s.verified_weight.div_rem(&BigInt::from(d)))
}

/// is there a subset of `claims` whose sizes add up to `space` and that all satisfy `ok`?
fn backing_subset(claims: &[(u64, &ClaimV)], space: &BigInt, ok: &dyn Fn(&ClaimV) -> bool) -> Option<Vec<u64>> {
    let good: Vec<&(u64, &ClaimV)> = claims.iter().filter(|(_, c)| ok(c)).collect();
    let n = good.len().min(16);
    for mask in 0u32..(1u32 << n) {
        let mut sum = BigInt::zero();
        for (i, (_, c)) in good.iter().take(n).enumerate() {
            if mask & (1 << i) != 0 {
                sum += BigInt::from(c.size);
            }
        }
        if &sum == space {
            return Some(good.iter().take(n).enumerate().filter(|(i, _)| mask & (1 << i) != 0).map(|(_, (id, _))| *id).collect());
        }
    }
    None
}

pub fn check(c: &mut Checks, w: &World, miners: &[MinerH], r: Option<&MsgResult>, stats: &mut CaseStats) -> VResult {
    if !c.on("C10") {
        return Ok(());
    }
    let now = w.v.epoch();
    let cid = w.v.actor(VERIFIED_REGISTRY_ACTOR_ID).map(|a| a.state);
    let prev = c.registry.clone();
    if c.registry.state_cid != cid {
        c.registry = std::rc::Rc::new(read_registry(&w.v));
    }
    let reg = c.registry.clone();
    // --- registry monotonicity: term_max never decreases, claims / allocations vanish only as allowed ---
    if prev.state_cid.is_some() && prev.state_cid != reg.state_cid {
        for (id, old) in &prev.claims {
            match reg.claims.get(id) {
                Some(new) => {
                    vassert!(new.term_max >= old.term_max, "claim-term-decreased", "claim {} term_max {} -> {}", id, old.term_max, new.term_max);
                    vassert!(new.provider == old.provider && new.client == old.client && new.size == old.size && new.data == old.data && new.term_start == old.term_start && new.term_min == old.term_min, "claim-rewritten", "claim {} changed: {:?} -> {:?}", id, old, new);
                    if new.term_max > old.term_max {
                        stats.label("claim_term_extended");
                    }
                }
                None => {
                    vassert!(now > old.term_start + old.term_max, "claim-removed-before-expiry", "claim {} (term ends {}) was removed at {}", id, old.term_start + old.term_max, now);
                    stats.label("expired_claim_removed");
                }
            }
        }
        for (id, old) in &prev.allocs {
            if !reg.allocs.contains_key(id) {
                let claimed = reg.claims.get(id).map(|cl| cl.provider == old.provider && cl.client == old.client && cl.data == old.data && cl.size == old.size).unwrap_or(false);
                vassert!(claimed || now >= old.expiration, "allocation-removed-before-expiry", "allocation {} (expires {}) vanished at {} without a matching claim", id, old.expiration, now);
                if claimed {
                    let cl = &reg.claims[id];
                    vassert!(now <= old.expiration, "expired-allocation-claimed", "allocation {} expired at {} and was claimed at {}", id, old.expiration, now);
                    vassert!(cl.term_start == now && cl.term_min == old.term_min && cl.term_max == old.term_max, "claim-terms-differ", "allocation {:?} became claim {:?} at {}", old, cl, now);
                    stats.label("allocation_claimed_by_sector");
                } else {
                    stats.label("expired_allocation_removed");
                }
            }
        }
        vassert!(reg.next_id >= prev.next_id, "allocation-id-reused", "next id {} -> {}", prev.next_id, reg.next_id);
        for id in reg.claims.keys() {
            vassert!(prev.claims.contains_key(id) || prev.allocs.contains_key(id), "claim-without-allocation", "claim {} appeared without an allocation of that id", id);
        }
    }
    // --- every live sector's verified weight is backed by claims that allow its life span ---
    for m in miners {
        let mv = c.views[&m.id].clone();
        let regkey = (m.id, mv.state_cid, reg.state_cid);
        if c.last_c10.get(&m.id) == Some(&regkey) {
            continue;
        }
        let mut live: BTreeSet<u64> = BTreeSet::new();
        for d in &mv.deadlines {
            for p in &d.partitions {
                live.extend(p.sectors.difference(&p.terminated).copied());
            }
        }
        for s in &live {
            let info = match mv.sectors.get(s) {
                Some(i) => i,
                None => continue,
            };
            if info.verified_weight.is_zero() {
                continue;
            }
            vassert!(!info.verified_weight.is_negative(), "negative-verified-weight", "miner {} sector {}", m.id, s);
            let (space, rem) = match verified_space(info) {
                Some(x) => x,
                None => vfail!("verified-weight-without-duration", "miner {} sector {} has verified weight {} but expiration {} <= power base {}", m.id, s, info.verified_weight, info.expiration, info.power_base_epoch),
            };
            vassert!(rem.is_zero(), "verified-weight-not-space-times-duration", "miner {} sector {}: weight {} is not a multiple of the duration {}", m.id, s, info.verified_weight, info.expiration - info.power_base_epoch);
            vassert!(space <= BigInt::from(mv.sector_size), "verified-space-exceeds-sector", "miner {} sector {}: verified space {} > sector size {}", m.id, s, space, mv.sector_size);
            let mine: Vec<(u64, &ClaimV)> = reg.claims.iter().filter(|(_, cl)| cl.provider == m.id && cl.sector == *s).map(|(k, v)| (*k, v)).collect();
            // (a) sizes add up
            let any = backing_subset(&mine, &space, &|_| true);
            vassert!(any.is_some(), "verified-weight-unbacked", "miner {} sector {} claims verified space {} but the registry's claims for it are {:?}", m.id, s, space, mine.iter().map(|(k, c)| (*k, c.size)).collect::<Vec<_>>());
            // (b)+(c) … by claims that started no earlier than the activation and whose term covers the expiration
            let ok = |cl: &ClaimV| cl.term_start >= info.activation && info.expiration >= cl.term_start + cl.term_min && info.expiration <= cl.term_start + cl.term_max;
            let good = backing_subset(&mine, &space, &ok);
            vassert!(
                good.is_some(),
                "claim-terms-violated",
                "miner {} sector {} (activation {}, expiration {}) holds verified space {} but no set of its claims {:?} both adds up and allows that life span",
                m.id,
                s,
                info.activation,
                info.expiration,
                space,
                mine.iter().map(|(k, c)| (*k, c.size, c.term_start, c.term_start + c.term_min, c.term_start + c.term_max)).collect::<Vec<_>>()
            );
            stats.label("verified_sector_checked");
        }
        c.last_c10.insert(m.id, regkey);
    }
    // --- (d) claims are dropped only within the final 30 days of the sector's life ---
    if let Some(r) = r {
        if r.ok() && r.trace.method == mi::Method::ExtendSectorExpiration2 as u64 {
            if let Some(id) = r.trace.to_id {
                if let (Some(pre), Some(post)) = (c.prev_views.get(&id), c.views.get(&id)) {
                    for (s, old) in &pre.sectors {
                        if let Some(new) = post.sectors.get(s) {
                            if old.verified_weight.is_positive() && new.expiration != old.expiration {
                                let (os, _) = verified_space(old).unwrap_or_default();
                                let (ns, _) = verified_space(new).unwrap_or_default();
                                if ns < os {
                                    vassert!(old.expiration - now <= DROP_PERIOD, "claim-dropped-too-early", "miner {} sector {}: verified space {} -> {} with {} epochs of life left (> 30 days)", id, s, os, ns, old.expiration - now);
                                    stats.label("claim_dropped_at_end_of_life");
                                } else {
                                    vassert!(ns == os, "verified-space-grew", "miner {} sector {}: verified space {} -> {} by an extension", id, s, os, ns);
                                    stats.label("verified_sector_extended");
                                }
                            }
                        }
                    }
                }
            }
        }
    }
    Ok(())
}
