//! C14 layer: reference vesting table + withdrawal rule, checked after every message and tick.

use super::checks::Checks;
use super::ops::MinerH;
use super::view::*;
use crate::common::*;
use crate::simvm::{MsgResult, Trace};
use crate::world::World;
use crate::{vassert, vfail};
use fil_actor_miner as mi;
use fil_actors_runtime::{BURNT_FUNDS_ACTOR_ID, REWARD_ACTOR_ID};
use fvm_shared::ActorID;
use fvm_shared::bigint::{BigInt, Integer};
use num_traits::{Signed, Zero};
use std::collections::BTreeMap;

const DAY: i64 = 2880;
const VEST_PERIOD: i64 = 180 * DAY;
const QUANT: i64 = 1440;

#[derive(Clone, Debug, Default)]
pub struct Light {
    pub period_start: i64,
    pub locked: BigInt,
    pub pcd: BigInt,
    pub ip: BigInt,
    pub fee_debt: BigInt,
    pub balance: BigInt,
    pub early_terminations: bool,
    pub owner: ActorID,
    pub beneficiary: ActorID,
    /// beneficiary term (quota, used, expiration) when the beneficiary is not the owner
    pub term: Option<(BigInt, BigInt, i64)>,
}

#[derive(Default)]
pub struct VestState {
    /// reference table per miner
    pub table: BTreeMap<ActorID, BTreeMap<i64, BigInt>>,
    pub light: BTreeMap<ActorID, Light>,
    pub schedules: BTreeMap<ActorID, u32>,
}

/// rows produced by locking `amount` at `epoch` for a miner whose vesting grid is aligned to `offset`
pub fn schedule(amount: &BigInt, epoch: i64, offset: i64) -> Vec<(i64, BigInt)> {
    let mut rows = vec![];
    let mut so_far = BigInt::zero();
    let mut k = 0i64;
    while &so_far < amount {
        k += 1;
        let e = epoch + k * DAY;
        let r = (e - offset).rem_euclid(QUANT);
        let ve = if r == 0 { e } else { e + (QUANT - r) };
        let elapsed = ve - epoch;
        let target = if elapsed < VEST_PERIOD { (amount * BigInt::from(elapsed)).div_floor(&BigInt::from(VEST_PERIOD)) } else { amount.clone() };
        rows.push((ve, &target - &so_far));
        so_far = target;
    }
    rows
}

fn light_of(w: &World, mv: &MinerView) -> Light {
    let term = if mv.beneficiary != mv.owner { Some(mv.beneficiary_term.clone()) } else { None };
    Light {
        period_start: mv.period_start,
        locked: mv.locked.clone(),
        pcd: mv.pcd.clone(),
        ip: mv.ip.clone(),
        fee_debt: mv.fee_debt.clone(),
        balance: w.v.balance(mv.id).atto().clone(),
        early_terminations: !mv.early_terminations.is_empty(),
        owner: mv.owner,
        beneficiary: mv.beneficiary,
        term,
    }
}

/// value the miner sent to the burnt-funds account in effective invocations of this trace
fn burnt_by(t: &Trace, miner: ActorID) -> BigInt {
    let mut total = BigInt::zero();
    t.walk_effective(&mut |x| {
        if x.from == miner && x.to_id == Some(BURNT_FUNDS_ACTOR_ID) {
            total += x.value.atto();
        }
    });
    total
}

pub fn init(c: &mut Checks, w: &World, miners: &[MinerH]) {
    for m in miners {
        if c.vest.table.contains_key(&m.id) {
            continue;
        }
        let mv = read_miner(&w.v, m.id);
        c.vest_prev_rows.insert(m.id, mv.vesting.iter().cloned().collect());
        c.vest.table.insert(m.id, mv.vesting.iter().cloned().collect());
        c.vest.light.insert(m.id, light_of(w, &mv));
    }
}

pub fn check(c: &mut Checks, w: &World, miners: &[MinerH], r: Option<&MsgResult>, stats: &mut CaseStats) -> VResult {
    if !c.on("C14") {
        return Ok(());
    }
    // the creation deposit must follow the 180-day daily schedule on the miner's 12-hour grid
    for m in miners {
        if !c.vest.table.contains_key(&m.id) {
            let mv = read_miner(&w.v, m.id);
            let total: BigInt = mv.vesting.iter().map(|(_, a)| a.clone()).sum();
            if total == m.creation_deposit && m.created_at >= 0 {
                let want = schedule(&total, m.created_at, mv.period_start);
                vassert!(mv.vesting == want, "creation-deposit-schedule", "miner {} creation deposit vests as {:?}..., the 180-day schedule is {:?}...", m.id, mv.vesting.iter().take(3).collect::<Vec<_>>(), want.iter().take(3).collect::<Vec<_>>());
                stats.label("creation_deposit_schedule_checked");
            }
        }
    }
    let fresh: Vec<ActorID> = miners.iter().map(|m| m.id).filter(|id| !c.vest.table.contains_key(id)).collect();
    init(c, w, miners);
    let now = w.v.epoch();
    let views = std::mem::take(&mut c.views);
    let res = check_inner(c, w, miners, r, stats, &views, &fresh, now);
    c.views = views;
    res
}

#[allow(clippy::too_many_arguments)]
fn check_inner(c: &mut Checks, w: &World, miners: &[MinerH], r: Option<&MsgResult>, stats: &mut CaseStats, views: &BTreeMap<ActorID, std::rc::Rc<MinerView>>, fresh: &[ActorID], now: i64) -> VResult {
    for m in miners {
        let mv = &views[&m.id];
        let before = c.vest.light.get(&m.id).cloned().unwrap_or_default();
        let mut model = c.vest.table.get(&m.id).cloned().unwrap_or_default();
        let mut burnt = BigInt::zero();
        if fresh.contains(&m.id) {
            continue;
        }
        let bal_now = w.v.balance(m.id).atto().clone();
        if c.last_checked.get(&("vest", m.id)) == Some(&mv.state_cid) && c.vest.light.get(&m.id).map(|l| l.balance == bal_now).unwrap_or(false) {
            continue;
        }
        c.last_checked.insert(("vest", m.id), mv.state_cid);
        if let Some(r) = r {
            burnt = burnt_by(&r.trace, m.id);
            // the reporter's share of a consensus-fault / dispute penalty is part of the penalty
            let t = &r.trace;
            if t.to_id == Some(m.id) && (t.method == mi::Method::ReportConsensusFault as u64 || t.method == mi::Method::DisputeWindowedPoSt as u64) && t.ok() {
                for s in &t.subs {
                    if s.ok() && s.from == m.id && s.to_id == Some(t.from) && s.method == 0 {
                        burnt += s.value.atto();
                    }
                }
            }
            // locks observed in the trace: ApplyRewards from the reward actor
            let mut locks: Vec<BigInt> = vec![];
            r.trace.walk_effective(&mut |x| {
                if x.to_id == Some(m.id) && x.from == REWARD_ACTOR_ID && x.method == mi::Method::ApplyRewards as u64 {
                    if let Some(p) = x.params.as_ref().and_then(|p| p.deserialize::<mi::ApplyRewardParams>().ok()) {
                        locks.push(p.reward.atto().clone());
                    }
                }
            });
            for reward in locks {
                let lock = (&reward * BigInt::from(3)).div_floor(&BigInt::from(4));
                for (e, a) in schedule(&lock, now, before.period_start) {
                    *model.entry(e).or_default() += a;
                }
                *c.vest.schedules.entry(m.id).or_default() += 1;
                stats.label("reward_locked");
                if c.vest.schedules[&m.id] >= 3 {
                    stats.label("three_overlapping_schedules");
                }
            }
        }
        // compare: a prefix of the reference rows (earliest first) may have been consumed
        let actual: BTreeMap<i64, BigInt> = mv.vesting.iter().cloned().collect();
        for e in actual.keys() {
            vassert!(model.contains_key(e), "vesting-row-unexpected", "miner {} has a vesting row at {} that no lock produced (reference rows {:?})", m.id, e, model.keys().take(4).collect::<Vec<_>>());
        }
        let mut consumed_phase = true;
        let mut unvested_taken = BigInt::zero();
        for (e, exp) in &model {
            let a = actual.get(e).cloned().unwrap_or_default();
            vassert!(!a.is_negative() && &a <= exp, "vesting-row-grew", "miner {} row {} holds {} > reference {}", m.id, e, a, exp);
            if &a == exp && !exp.is_zero() {
                consumed_phase = false;
            } else if &a < exp {
                vassert!(consumed_phase, "vesting-not-soonest-first", "miner {} row {} was reduced ({} of {}) although an earlier row is intact", m.id, e, a, exp);
                if *e >= now {
                    unvested_taken += exp - &a;
                }
            }
        }
        if unvested_taken.is_positive() {
            // funds left the table before their vesting epoch: only to pay the miner's own penalties
            vassert!(unvested_taken <= burnt, "unvested-funds-released", "miner {} released {} of unvested funds at epoch {} but burnt only {} in that step; reference rows {:?} actual rows {:?}", m.id, unvested_taken, now, burnt, model.iter().take(3).collect::<Vec<_>>(), mv.vesting.iter().take(3).collect::<Vec<_>>());
            stats.label("penalty_consumed_unvested_funds");
        }
        c.vest.table.insert(m.id, actual.into_iter().filter(|(_, a)| !a.is_zero()).collect());

        // withdrawal rule
        if let Some(r) = r {
            let t = &r.trace;
            if t.to_id == Some(m.id) && t.method == mi::Method::WithdrawBalance as u64 && t.ok() {
                let req = t.params.as_ref().and_then(|p| p.deserialize::<mi::WithdrawBalanceParams>().ok()).map(|p| p.amount_requested.atto().clone()).unwrap_or_default();
                let ret: mi::WithdrawBalanceReturn = r.de().ok_or_else(|| Violation::new("withdraw-return", "undecodable"))?;
                let paid = ret.amount_withdrawn.atto().clone();
                vassert!(t.from == before.owner || t.from == before.beneficiary, "withdraw-by-unauthorised", "WithdrawBalance by {} (owner {}, beneficiary {})", t.from, before.owner, before.beneficiary);
                vassert!(!before.early_terminations, "withdraw-with-pending-terminations", "miner {} paid a withdrawal while early terminations were unprocessed", m.id);
                // vested part of the table before the message
                let vested: BigInt = c.vest_prev_rows.get(&m.id).map(|rows| rows.iter().filter(|(e, _)| **e < now).map(|(_, a)| a.clone()).sum()).unwrap_or_default();
                let available = &before.balance - (&before.locked - &vested) - &before.pcd - &before.ip - &before.fee_debt;
                let mut cap = std::cmp::min(req.clone(), std::cmp::max(available.clone(), BigInt::zero()));
                // the beneficiary's quota counts only while its term has not expired (expiration > current epoch)
                let quota_left: Option<BigInt> = before.term.as_ref().map(|(q, u, e)| if *e > now { std::cmp::max(q - u, BigInt::zero()) } else { BigInt::zero() });
                if let Some(q) = &quota_left {
                    cap = std::cmp::min(cap, q.clone());
                    stats.label("withdrawal_under_beneficiary_term");
                }
                vassert!(paid == cap, "withdraw-amount", "miner {} paid {} for a request of {}; balance {} vesting {} (vested {}) deposits {} pledge {} debt {} quota {:?} allow exactly {}", m.id, paid, req, before.balance, before.locked, vested, before.pcd, before.ip, before.fee_debt, quota_left, cap);
                let mut sent = BigInt::zero();
                let mut wrong: Option<ActorID> = None;
                for s in &t.subs {
                    if s.ok() && s.method == 0 && s.to_id != Some(BURNT_FUNDS_ACTOR_ID) && !s.value.is_zero() {
                        if s.to_id == Some(before.beneficiary) {
                            sent += s.value.atto();
                        } else {
                            wrong = s.to_id;
                        }
                    }
                }
                vassert!(wrong.is_none() && sent == paid, "withdraw-send", "withdrawal of {} was sent as {} to the beneficiary (other recipient {:?})", paid, sent, wrong);
                vassert!(mv.fee_debt.is_zero(), "withdraw-left-debt", "fee debt {} remains after a successful withdrawal", mv.fee_debt);
                if paid.is_positive() {
                    stats.label("withdrawal_paid");
                    if before.locked.is_positive() && (before.ip.is_positive() || before.pcd.is_positive()) {
                        stats.label("withdrawal_with_collateral_present");
                    }
                }
            }
        }
        c.vest_prev_rows.insert(m.id, mv.vesting.iter().cloned().collect());
        c.vest.light.insert(m.id, light_of(w, mv));
    }
    Ok(())
}
