//! Plain decoded views of miner / power state (decoding only; no actor logic is reused).

use cid::Cid;
use fil_actor_miner as mi;
use fil_actor_power as pw;
use fil_actors_runtime::runtime::Policy;
use fil_actors_runtime::{Array, STORAGE_POWER_ACTOR_ID};
use fvm_ipld_bitfield::BitField;
use fvm_shared::ActorID;
use fvm_shared::bigint::BigInt;
use std::collections::{BTreeMap, BTreeSet};

use crate::simvm::SimVM;

pub type Set = BTreeSet<u64>;

pub fn bf(b: &BitField) -> Set {
    b.iter().collect()
}

#[derive(Clone, Debug, Default, PartialEq, Eq)]
pub struct Pow {
    pub raw: BigInt,
    pub qa: BigInt,
}
impl Pow {
    pub fn of(p: &mi::PowerPair) -> Pow {
        Pow { raw: p.raw.clone(), qa: p.qa.clone() }
    }
    pub fn add(&mut self, o: &Pow) {
        self.raw += &o.raw;
        self.qa += &o.qa;
    }
    pub fn is_zero(&self) -> bool {
        self.raw == BigInt::from(0) && self.qa == BigInt::from(0)
    }
}

#[derive(Clone, Debug)]
pub struct SectorView {
    pub number: u64,
    pub activation: i64,
    pub expiration: i64,
    pub power_base_epoch: i64,
    pub deal_weight: BigInt,
    pub verified_weight: BigInt,
    pub pledge: BigInt,
    pub daily_fee: BigInt,
    pub seal_proof: i64,
}

#[derive(Clone, Debug, Default)]
pub struct ExpSetView {
    pub on_time: Set,
    pub early: Set,
    pub on_time_pledge: BigInt,
    pub active_power: Pow,
    pub faulty_power: Pow,
    pub fee_deduction: BigInt,
}

#[derive(Clone, Debug, Default)]
pub struct PartView {
    pub sectors: Set,
    pub unproven: Set,
    pub faults: Set,
    pub recoveries: Set,
    pub terminated: Set,
    pub live_power: Pow,
    pub unproven_power: Pow,
    pub faulty_power: Pow,
    pub recovering_power: Pow,
    pub expirations: BTreeMap<i64, ExpSetView>,
    pub early_terminated: BTreeMap<i64, Set>,
}

#[derive(Clone, Debug, Default)]
pub struct DeadlineView {
    pub partitions: Vec<PartView>,
    pub expirations: BTreeMap<i64, Set>,
    pub posted: Set,
    pub early_terminations: Set,
    pub live_sectors: u64,
    pub total_sectors: u64,
    pub faulty_power: Pow,
    pub live_power: Pow,
    pub daily_fee: BigInt,
}

#[derive(Clone, Debug)]
pub struct PrecommitView {
    pub deposit: BigInt,
    pub epoch: i64,
    pub expiration: i64,
    pub seal_proof: i64,
}

#[derive(Clone, Debug)]
pub struct MinerView {
    pub id: ActorID,
    pub state_cid: Cid,
    pub pcd: BigInt,
    pub locked: BigInt,
    pub fee_debt: BigInt,
    pub ip: BigInt,
    pub period_start: i64,
    pub current_deadline: u64,
    pub cron_active: bool,
    pub early_terminations: Set,
    pub vesting: Vec<(i64, BigInt)>,
    pub precommits: BTreeMap<u64, PrecommitView>,
    pub sectors: BTreeMap<u64, SectorView>,
    pub allocated: Set,
    pub deadlines: Vec<DeadlineView>,
    pub owner: ActorID,
    pub worker: ActorID,
    pub control: Vec<ActorID>,
    pub sector_size: u64,
    pub partition_sectors: u64,
    pub consensus_fault_elapsed: i64,
    pub pending_owner: Option<ActorID>,
    pub pending_worker: Option<(ActorID, i64)>,
    pub beneficiary: ActorID,
    /// (quota, used, expiration)
    pub beneficiary_term: (BigInt, BigInt, i64),
    /// (new beneficiary, quota, expiration, approved by beneficiary, approved by nominee)
    pub pending_beneficiary: Option<(ActorID, BigInt, i64, bool, bool)>,
}

pub fn read_miner(v: &SimVM, id: ActorID) -> MinerView {
    let store = &*v.store;
    let a = v.actor(id).expect("miner exists");
    let st: mi::State = v.get_state(id).expect("miner state");
    let info = st.get_info(store).expect("info");
    let vesting = st.vesting_funds.load(store).expect("vesting").into_iter().map(|f| (f.epoch, f.amount.atto().clone())).collect();
    let mut precommits = BTreeMap::new();
    let pcs = mi::PreCommitMap::load(store, &st.pre_committed_sectors, mi::PRECOMMIT_CONFIG, "precommits").expect("precommits");
    pcs.for_each(|k, p: &mi::SectorPreCommitOnChainInfo| {
        precommits.insert(k, PrecommitView { deposit: p.pre_commit_deposit.atto().clone(), epoch: p.pre_commit_epoch, expiration: p.info.expiration, seal_proof: i64::from(p.info.seal_proof) });
        Ok(())
    })
    .expect("iter precommits");
    let mut sectors = BTreeMap::new();
    st.for_each_sector(store, |s| {
        sectors.insert(
            s.sector_number,
            SectorView {
                number: s.sector_number,
                activation: s.activation,
                expiration: s.expiration,
                power_base_epoch: s.power_base_epoch,
                deal_weight: s.deal_weight.clone(),
                verified_weight: s.verified_deal_weight.clone(),
                pledge: s.initial_pledge.atto().clone(),
                daily_fee: s.daily_fee.atto().clone(),
                seal_proof: i64::from(s.seal_proof),
            },
        );
        Ok(())
    })
    .expect("iter sectors");
    let allocated: BitField = fvm_ipld_encoding::CborStore::get_cbor(store, &st.allocated_sectors).expect("alloc").expect("alloc present");
    let dls = st.load_deadlines(store).expect("deadlines");
    let mut deadlines = vec![];
    for cid in dls.due.iter() {
        let d: mi::Deadline = fvm_ipld_encoding::CborStore::get_cbor(store, cid).expect("deadline").expect("deadline present");
        let mut dv = DeadlineView {
            posted: bf(&d.partitions_posted),
            early_terminations: bf(&d.early_terminations),
            live_sectors: d.live_sectors,
            total_sectors: d.total_sectors,
            faulty_power: Pow::of(&d.faulty_power),
            live_power: Pow::of(&d.live_power),
            daily_fee: d.daily_fee.atto().clone(),
            ..Default::default()
        };
        let parts: Array<mi::Partition, _> = Array::load(&d.partitions, store).expect("partitions");
        parts
            .for_each(|_, p| {
                let mut pv = PartView {
                    sectors: bf(&p.sectors),
                    unproven: bf(&p.unproven),
                    faults: bf(&p.faults),
                    recoveries: bf(&p.recoveries),
                    terminated: bf(&p.terminated),
                    live_power: Pow::of(&p.live_power),
                    unproven_power: Pow::of(&p.unproven_power),
                    faulty_power: Pow::of(&p.faulty_power),
                    recovering_power: Pow::of(&p.recovering_power),
                    ..Default::default()
                };
                let q: Array<mi::ExpirationSet, _> = Array::load(&p.expirations_epochs, store).expect("exp queue");
                q.for_each(|e, s| {
                    pv.expirations.insert(
                        e as i64,
                        ExpSetView {
                            on_time: bf(&s.on_time_sectors),
                            early: bf(&s.early_sectors),
                            on_time_pledge: s.on_time_pledge.atto().clone(),
                            active_power: Pow::of(&s.active_power),
                            faulty_power: Pow::of(&s.faulty_power),
                            fee_deduction: s.fee_deduction.atto().clone(),
                        },
                    );
                    Ok(())
                })
                .expect("iter exp");
                let et: Array<BitField, _> = Array::load(&p.early_terminated, store).expect("early term");
                et.for_each(|e, b| {
                    pv.early_terminated.insert(e as i64, bf(b));
                    Ok(())
                })
                .expect("iter et");
                dv.partitions.push(pv);
                Ok(())
            })
            .expect("iter partitions");
        let dq: Array<BitField, _> = Array::load(&d.expirations_epochs, store).expect("deadline exp");
        dq.for_each(|e, b| {
            dv.expirations.insert(e as i64, bf(b));
            Ok(())
        })
        .expect("iter dq");
        deadlines.push(dv);
    }
    MinerView {
        id,
        state_cid: a.state,
        pcd: st.pre_commit_deposits.atto().clone(),
        locked: st.locked_funds.atto().clone(),
        fee_debt: st.fee_debt.atto().clone(),
        ip: st.initial_pledge.atto().clone(),
        period_start: st.proving_period_start,
        current_deadline: st.current_deadline,
        cron_active: st.deadline_cron_active,
        early_terminations: bf(&st.early_terminations),
        vesting,
        precommits,
        sectors,
        allocated: bf(&allocated),
        deadlines,
        owner: info.owner.id().unwrap(),
        worker: info.worker.id().unwrap(),
        control: info.control_addresses.iter().map(|a| a.id().unwrap()).collect(),
        sector_size: info.sector_size as u64,
        partition_sectors: info.window_post_partition_sectors,
        consensus_fault_elapsed: info.consensus_fault_elapsed,
        pending_owner: info.pending_owner_address.map(|a| a.id().unwrap()),
        pending_worker: info.pending_worker_key.as_ref().map(|k| (k.new_worker.id().unwrap(), k.effective_at)),
        beneficiary: info.beneficiary.id().unwrap(),
        beneficiary_term: (info.beneficiary_term.quota.atto().clone(), info.beneficiary_term.used_quota.atto().clone(), info.beneficiary_term.expiration),
        pending_beneficiary: info.pending_beneficiary_term.as_ref().map(|p| (p.new_beneficiary.id().unwrap(), p.new_quota.atto().clone(), p.new_expiration, p.approved_by_beneficiary, p.approved_by_nominee)),
    }
}

#[derive(Clone, Debug, Default)]
pub struct PowerView {
    pub claims: BTreeMap<ActorID, (Pow, i64)>,
    pub total_raw: BigInt,
    pub total_qa: BigInt,
    pub total_raw_committed: BigInt,
    pub total_qa_committed: BigInt,
    pub total_pledge: BigInt,
    pub miner_count: i64,
    pub above_min: i64,
    /// epoch -> list of (miner, event type)
    pub cron_events: BTreeMap<i64, Vec<(ActorID, i64)>>,
    pub first_cron_epoch: i64,
}

pub fn read_power(v: &SimVM) -> PowerView {
    let store = &*v.store;
    let st: pw::State = v.get_state(STORAGE_POWER_ACTOR_ID).expect("power state");
    let mut pv = PowerView {
        total_raw: st.total_raw_byte_power.clone(),
        total_qa: st.total_quality_adj_power.clone(),
        total_raw_committed: st.total_bytes_committed.clone(),
        total_qa_committed: st.total_qa_bytes_committed.clone(),
        total_pledge: st.total_pledge_collateral.atto().clone(),
        miner_count: st.miner_count,
        above_min: st.miner_above_min_power_count,
        first_cron_epoch: st.first_cron_epoch,
        ..Default::default()
    };
    let claims = st.load_claims(store).expect("claims");
    claims
        .for_each(|k, c: &pw::Claim| {
            pv.claims.insert(k.id().unwrap(), (Pow { raw: c.raw_byte_power.clone(), qa: c.quality_adj_power.clone() }, i64::from(c.window_post_proof_type)));
            Ok(())
        })
        .expect("iter claims");
    let mm = fil_actors_runtime::Multimap::from_root(store, &st.cron_event_queue, pw::CRON_QUEUE_HAMT_BITWIDTH, pw::CRON_QUEUE_AMT_BITWIDTH).expect("cron queue");
    mm.for_all::<_, pw::CronEvent>(|k, arr| {
        let (e, _) = <i64 as integer_encoding::VarInt>::decode_var(&k.0[..]).unwrap_or((0i64, 0));
        let mut evs = vec![];
        arr.for_each(|_, ev| {
            let p: Result<mi::CronEventPayload, _> = fvm_ipld_encoding::from_slice(&ev.callback_payload);
            evs.push((ev.miner_addr.id().unwrap(), p.map(|x| x.event_type).unwrap_or(-1)));
            Ok(())
        })?;
        pv.cron_events.insert(e, evs);
        Ok(())
    })
    .expect("iter cron queue");
    pv
}

pub fn default_policy_partition_sectors(_p: &Policy) {}
