//! EVM fixture: deployment through the real EAM path, invocation, storage read-back, tiny assembler.

use crate::evmref::{self, U};
use crate::simvm::MsgResult;
use crate::world::*;
use fil_actor_eam as eam;
use fil_actor_evm as evm;
use fil_actors_evm_shared::uints::U256;
use fil_actors_runtime::runtime::Policy;
use fil_actors_runtime::{EAM_ACTOR_ID, SYSTEM_ACTOR_ID};
use fvm_ipld_encoding::{BytesDe, BytesSer};
use fvm_shared::ActorID;
use fvm_shared::address::Address;
use fvm_shared::econ::TokenAmount;
use num_traits::Zero;

pub const FUEL: u64 = 200_000;
pub const MEM_CAP: usize = 1 << 20;

pub struct EvmWorld {
    pub w: World,
    pub user: ActorID,
}

#[derive(Clone, Debug)]
pub struct Deployed {
    pub id: ActorID,
    pub eth: [u8; 20],
}

#[derive(Clone, Debug, PartialEq, Eq)]
pub enum CallOutcome {
    Return(Vec<u8>),
    Revert(Vec<u8>),
    Failure(u32),
}

/// init code that returns `runtime` as the contract code
pub fn copier(runtime: &[u8]) -> Vec<u8> {
    // PUSH2 len; DUP1; PUSH2 off; PUSH0; CODECOPY; PUSH0; RETURN
    let len = runtime.len() as u16;
    let mut c = vec![0x61, (len >> 8) as u8, len as u8, 0x80, 0x61, 0, 12, 0x5f, 0x39, 0x5f, 0xf3, 0x00];
    assert_eq!(c.len(), 12);
    c.extend_from_slice(runtime);
    c
}

pub fn id_word(id: ActorID) -> U {
    let mut b = [0u8; 20];
    b[0] = 0xff;
    b[12..].copy_from_slice(&id.to_be_bytes());
    evmref::from_be(&b)
}

impl EvmWorld {
    pub fn new() -> EvmWorld {
        let w = World::new(Policy::default());
        w.v.set_epoch(1000);
        let user = w.account(77, &TokenAmount::from_whole(10_000));
        EvmWorld { w, user }
    }

    pub fn arm(&self) {
        evm::verif_hooks::arm(FUEL, MEM_CAP);
    }
    pub fn exhausted(&self) -> bool {
        evm::verif_hooks::exhausted()
    }

    pub fn deploy_initcode(&self, from: ActorID, initcode: &[u8], value: &TokenAmount) -> Result<Deployed, MsgResult> {
        self.arm();
        let r = self.w.call(from, EAM_ACTOR_ID, eam::Method::CreateExternal as u64, value, &eam::CreateExternalParams(initcode.to_vec()));
        if !r.ok() {
            return Err(r);
        }
        let ret: eam::CreateExternalReturn = r.de().unwrap();
        Ok(Deployed { id: ret.actor_id, eth: ret.eth_address.0 })
    }

    pub fn deploy(&self, runtime: &[u8]) -> Result<Deployed, MsgResult> {
        self.deploy_initcode(self.user, &copier(runtime), &TokenAmount::zero())
    }

    pub fn invoke_raw(&self, from: ActorID, to: ActorID, calldata: &[u8], value: &TokenAmount) -> MsgResult {
        self.arm();
        self.w.call(from, to, evm::Method::InvokeContract as u64, value, &BytesSer(calldata))
    }

    pub fn invoke(&self, from: ActorID, to: ActorID, calldata: &[u8], value: &TokenAmount) -> (CallOutcome, MsgResult) {
        let r = self.invoke_raw(from, to, calldata, value);
        (outcome_of(&r), r)
    }

    pub fn storage_at(&self, id: ActorID, key: &U) -> U {
        let k = U256::from_big_endian(&evmref::be32(key));
        let r = self.w.call(SYSTEM_ACTOR_ID, id, evm::Method::GetStorageAt as u64, &TokenAmount::zero(), &evm::GetStorageAtParams { storage_key: k });
        assert!(r.ok(), "GetStorageAt failed: {}", r.message);
        let ret: evm::GetStorageAtReturn = r.de().unwrap();
        evmref::from_be(&ret.storage.to_big_endian())
    }

    pub fn env_for(&self, c: &Deployed, caller: ActorID, value: &TokenAmount, balance_before: &TokenAmount) -> evmref::Env {
        let v = U::from_bytes_be(&value.atto().to_bytes_be().1);
        let bal = U::from_bytes_be(&balance_before.atto().to_bytes_be().1) + &v;
        evmref::Env {
            address: evmref::from_be(&c.eth),
            caller: id_word(caller),
            origin: id_word(caller),
            callvalue: v,
            number: U::from(self.w.v.epoch() as u64),
            chainid: U::from(self.w.v.chain_id),
            timestamp: U::from(self.w.v.epoch() as u64 * 30),
            selfbalance: bal,
            is_static: false,
        }
    }

    pub fn eth_of(&self, id: ActorID) -> Address {
        self.w.v.actor(id).and_then(|a| a.delegated).unwrap_or(Address::new_id(id))
    }
}

pub fn outcome_of(r: &MsgResult) -> CallOutcome {
    if r.ok() {
        let data: Vec<u8> = r.ret.as_ref().and_then(|b| b.deserialize::<BytesDe>().ok()).map(|b| b.0).unwrap_or_default();
        CallOutcome::Return(data)
    } else if r.code.value() == 33 {
        let data: Vec<u8> = r.ret.as_ref().and_then(|b| b.deserialize::<BytesDe>().ok()).map(|b| b.0).unwrap_or_default();
        CallOutcome::Revert(data)
    } else {
        CallOutcome::Failure(r.code.value())
    }
}

// ------------------------------------------------------------------ assembler

#[derive(Default, Clone)]
pub struct Asm {
    pub code: Vec<u8>,
    /// generator-side estimate of the stack depth (straight-line approximation)
    pub depth: i32,
    fixups: Vec<(usize, usize)>, // (position of the 2-byte immediate, label)
    labels: Vec<Option<usize>>,
}

impl Asm {
    pub fn new() -> Self {
        Self::default()
    }
    pub fn op(&mut self, b: u8) -> &mut Self {
        self.code.push(b);
        self
    }
    pub fn raw(&mut self, b: &[u8]) -> &mut Self {
        self.code.extend_from_slice(b);
        self
    }
    /// minimal-width PUSH of a big-endian value
    pub fn push(&mut self, v: &U) -> &mut Self {
        if v.is_zero() {
            self.code.push(0x5f);
        } else {
            let b = v.to_bytes_be();
            self.code.push(0x5f + b.len() as u8);
            self.code.extend_from_slice(&b);
        }
        self
    }
    pub fn push_u(&mut self, v: u64) -> &mut Self {
        self.push(&U::from(v))
    }
    /// full-width PUSH32
    pub fn push32(&mut self, v: &U) -> &mut Self {
        self.code.push(0x7f);
        self.code.extend_from_slice(&evmref::be32(v));
        self
    }
    pub fn new_label(&mut self) -> usize {
        self.labels.push(None);
        self.labels.len() - 1
    }
    pub fn push_label(&mut self, l: usize) -> &mut Self {
        self.code.push(0x61);
        self.fixups.push((self.code.len(), l));
        self.code.extend_from_slice(&[0, 0]);
        self
    }
    /// place a JUMPDEST and bind the label to it
    pub fn bind(&mut self, l: usize) -> &mut Self {
        self.labels[l] = Some(self.code.len());
        self.code.push(0x5b);
        self
    }
    /// bind a label to the current position without emitting a JUMPDEST (an invalid target)
    pub fn bind_nojumpdest(&mut self, l: usize) -> &mut Self {
        self.labels[l] = Some(self.code.len());
        self
    }
    pub fn finish(mut self) -> Vec<u8> {
        for (pos, l) in &self.fixups {
            let t = self.labels[*l].unwrap_or(0xffff) as u16;
            self.code[*pos] = (t >> 8) as u8;
            self.code[*pos + 1] = t as u8;
        }
        self.code
    }
}
