//! Independent reference interpreter for the EVM subset of property C17 (Yellow Paper + EIP-145,
//! 211, 1153, 3855, 5656, 7939), on `num-bigint` integers.  FEVM's documented limits are modelled
//! explicitly: stack 1024, memory offsets/sizes beyond 32 bits fail, no gas.
//! Shares no code with `fil_actor_evm`.

use num_bigint::BigUint;
use num_traits::{One, ToPrimitive, Zero};
use sha3::{Digest, Keccak256};
use std::collections::{BTreeMap, BTreeSet};

pub type U = BigUint;

pub fn two256() -> U {
    U::one() << 256
}
pub fn max256() -> U {
    two256() - U::one()
}
fn wrap(x: U) -> U {
    x % two256()
}
fn is_neg(x: &U) -> bool {
    x.bit(255)
}
fn neg(x: &U) -> U {
    if x.is_zero() { U::zero() } else { two256() - x }
}
fn abs(x: &U) -> U {
    if is_neg(x) { neg(x) } else { x.clone() }
}
pub fn be32(x: &U) -> [u8; 32] {
    let b = x.to_bytes_be();
    let mut out = [0u8; 32];
    out[32 - b.len()..].copy_from_slice(&b);
    out
}
pub fn from_be(b: &[u8]) -> U {
    U::from_bytes_be(b)
}

#[derive(Clone, Debug)]
pub struct Env {
    pub address: U,
    pub caller: U,
    pub origin: U,
    pub callvalue: U,
    pub number: U,
    pub chainid: U,
    pub timestamp: U,
    pub selfbalance: U,
    pub is_static: bool,
}

#[derive(Clone, Debug, PartialEq, Eq)]
pub enum Fail {
    StackUnderflow,
    StackOverflow,
    BadJump,
    MemoryLimit,
    Invalid,
    Undefined,
    ReturnDataOutOfBounds,
    StaticViolation,
}

#[derive(Clone, Debug, PartialEq, Eq)]
pub enum Outcome {
    Return(Vec<u8>),
    Revert(Vec<u8>),
    Failure(Fail),
    /// reached an opcode outside the reference subset
    OutOfSubset { pc: usize, op: u8 },
    /// step or memory budget of the harness exceeded (case is discarded)
    Budget,
}

#[derive(Clone, Debug)]
pub struct RefResult {
    pub outcome: Outcome,
    pub storage: BTreeMap<U, U>,
    pub transient: BTreeMap<U, U>,
    pub steps: u64,
    pub max_stack: usize,
    pub ops: BTreeSet<u8>,
    pub mem_words: usize,
    pub logs: usize,
}

pub fn jumpdests(code: &[u8]) -> Vec<bool> {
    let mut v = vec![false; code.len()];
    let mut i = 0;
    while i < code.len() {
        let op = code[i];
        if op == 0x5b {
            v[i] = true;
        }
        if (0x60..=0x7f).contains(&op) {
            i += (op - 0x5f) as usize;
        }
        i += 1;
    }
    v
}

pub fn keccak(data: &[u8]) -> [u8; 32] {
    let mut h = Keccak256::new();
    h.update(data);
    h.finalize().into()
}

struct Mem {
    m: Vec<u8>,
    cap: usize,
}

enum MemErr {
    Limit,
    Budget,
}

impl Mem {
    /// Returns None for an empty region (no expansion), Some(offset) otherwise.
    fn region(&mut self, off: &U, size: &U) -> Result<Option<(usize, usize)>, MemErr> {
        let size = match size.to_u32() {
            Some(s) => s,
            None => return Err(MemErr::Limit),
        };
        if size == 0 {
            return Ok(None);
        }
        let off = match off.to_u32() {
            Some(o) => o,
            None => return Err(MemErr::Limit),
        };
        let end = match off.checked_add(size) {
            Some(e) => e as usize,
            None => return Err(MemErr::Limit),
        };
        if end > self.cap {
            return Err(MemErr::Budget);
        }
        if end > self.m.len() {
            let words = end.div_ceil(32);
            self.m.resize(words * 32, 0);
        }
        Ok(Some((off as usize, size as usize)))
    }
}

fn copy_padded(dst: &mut [u8], src: &[u8], src_off: &U) {
    let start = src_off.to_usize().filter(|s| *s < src.len());
    for b in dst.iter_mut() {
        *b = 0;
    }
    if let Some(s) = start {
        let n = std::cmp::min(dst.len(), src.len() - s);
        dst[..n].copy_from_slice(&src[s..s + n]);
    }
}

pub fn in_subset(op: u8) -> bool {
    matches!(op,
        0x00..=0x0b | 0x10..=0x1e | 0x20 | 0x30 | 0x32..=0x39 | 0x3d | 0x3e | 0x43 | 0x46 | 0x47 | 0x42
        | 0x50..=0x59 | 0x5b..=0x9f | 0xf3 | 0xfd | 0xfe)
}

#[allow(clippy::too_many_arguments)]
pub fn run(
    code: &[u8],
    calldata: &[u8],
    env: &Env,
    storage0: &BTreeMap<U, U>,
    transient0: &BTreeMap<U, U>,
    step_limit: u64,
    mem_cap: usize,
) -> RefResult {
    let jd = jumpdests(code);
    let mut stack: Vec<U> = Vec::new();
    let mut mem = Mem { m: Vec::new(), cap: mem_cap };
    let mut storage = storage0.clone();
    let mut transient = transient0.clone();
    let mut pc = 0usize;
    let mut steps = 0u64;
    let mut max_stack = 0usize;
    let mut ops = BTreeSet::new();
    let m256 = two256();

    let finish = |outcome: Outcome, storage: BTreeMap<U, U>, transient: BTreeMap<U, U>, steps, max_stack, ops, mem: &Mem| RefResult {
        outcome,
        storage,
        transient,
        steps,
        max_stack,
        ops,
        mem_words: mem.m.len() / 32,
        logs: 0,
    };

    macro_rules! fail {
        ($f:expr) => {
            return finish(Outcome::Failure($f), storage0.clone(), transient0.clone(), steps, max_stack, ops, &mem)
        };
    }
    macro_rules! pop {
        () => {
            match stack.pop() {
                Some(v) => v,
                None => fail!(Fail::StackUnderflow),
            }
        };
    }
    macro_rules! need {
        ($n:expr) => {
            if stack.len() < $n {
                fail!(Fail::StackUnderflow)
            }
        };
    }
    macro_rules! push {
        ($v:expr) => {{
            if stack.len() >= 1024 {
                fail!(Fail::StackOverflow)
            }
            stack.push($v);
            if stack.len() > max_stack {
                max_stack = stack.len();
            }
        }};
    }
    macro_rules! region {
        ($off:expr, $size:expr) => {
            match mem.region($off, $size) {
                Ok(r) => r,
                Err(MemErr::Limit) => fail!(Fail::MemoryLimit),
                Err(MemErr::Budget) => return finish(Outcome::Budget, storage0.clone(), transient0.clone(), steps, max_stack, ops, &mem),
            }
        };
    }

    loop {
        if pc >= code.len() {
            return finish(Outcome::Return(vec![]), storage, transient, steps, max_stack, ops, &mem);
        }
        if steps >= step_limit {
            return finish(Outcome::Budget, storage0.clone(), transient0.clone(), steps, max_stack, ops, &mem);
        }
        steps += 1;
        let op = code[pc];
        if !in_subset(op) {
            let known = matches!(op, 0x31 | 0x3a | 0x3b | 0x3c | 0x3f..=0x41 | 0x44 | 0x45 | 0x48 | 0x5a | 0xa0..=0xa4 | 0xf0 | 0xf1 | 0xf4 | 0xf5 | 0xfa | 0xff);
            if known {
                return finish(Outcome::OutOfSubset { pc, op }, storage, transient, steps, max_stack, ops, &mem);
            }
            fail!(Fail::Undefined);
        }
        ops.insert(op);
        let mut next = pc + 1;
        match op {
            0x00 => return finish(Outcome::Return(vec![]), storage, transient, steps, max_stack, ops, &mem),
            0x01 => {
                need!(2);
                let (a, b) = (pop!(), pop!());
                push!(wrap(a + b));
            }
            0x02 => {
                need!(2);
                let (a, b) = (pop!(), pop!());
                push!(wrap(a * b));
            }
            0x03 => {
                need!(2);
                let (a, b) = (pop!(), pop!());
                push!(wrap(a + &m256 - b));
            }
            0x04 => {
                need!(2);
                let (a, b) = (pop!(), pop!());
                push!(if b.is_zero() { U::zero() } else { a / b });
            }
            0x05 => {
                need!(2);
                let (a, b) = (pop!(), pop!());
                if b.is_zero() {
                    push!(U::zero());
                } else {
                    let q = abs(&a) / abs(&b);
                    let q = wrap(q); // MIN / -1 = 2^255 which stays 2^255 (= MIN)
                    push!(if is_neg(&a) != is_neg(&b) { neg(&q) } else { q });
                }
            }
            0x06 => {
                need!(2);
                let (a, b) = (pop!(), pop!());
                push!(if b.is_zero() { U::zero() } else { a % b });
            }
            0x07 => {
                need!(2);
                let (a, b) = (pop!(), pop!());
                if b.is_zero() {
                    push!(U::zero());
                } else {
                    let r = abs(&a) % abs(&b);
                    push!(if is_neg(&a) { neg(&r) } else { r });
                }
            }
            0x08 => {
                need!(3);
                let (a, b, n) = (pop!(), pop!(), pop!());
                push!(if n.is_zero() { U::zero() } else { (a + b) % n });
            }
            0x09 => {
                need!(3);
                let (a, b, n) = (pop!(), pop!(), pop!());
                push!(if n.is_zero() { U::zero() } else { (a * b) % n });
            }
            0x0a => {
                need!(2);
                let (a, e) = (pop!(), pop!());
                push!(a.modpow(&e, &m256));
            }
            0x0b => {
                need!(2);
                let (b, x) = (pop!(), pop!());
                if b < U::from(31u32) {
                    let t = 8 * b.to_u64().unwrap() + 7;
                    let mask = (U::one() << (t + 1)) - U::one();
                    if x.bit(t) {
                        push!((&x | (max256() ^ &mask)) % &m256);
                    } else {
                        push!(x & mask);
                    }
                } else {
                    push!(x);
                }
            }
            0x10 => {
                need!(2);
                let (a, b) = (pop!(), pop!());
                push!(if a < b { U::one() } else { U::zero() });
            }
            0x11 => {
                need!(2);
                let (a, b) = (pop!(), pop!());
                push!(if a > b { U::one() } else { U::zero() });
            }
            0x12 | 0x13 => {
                need!(2);
                let (a, b) = (pop!(), pop!());
                // signed compare: flip the sign bit and compare unsigned
                let fa = &a ^ (U::one() << 255);
                let fb = &b ^ (U::one() << 255);
                let r = if op == 0x12 { fa < fb } else { fa > fb };
                push!(if r { U::one() } else { U::zero() });
            }
            0x14 => {
                need!(2);
                let (a, b) = (pop!(), pop!());
                push!(if a == b { U::one() } else { U::zero() });
            }
            0x15 => {
                need!(1);
                let a = pop!();
                push!(if a.is_zero() { U::one() } else { U::zero() });
            }
            0x16 => {
                need!(2);
                let (a, b) = (pop!(), pop!());
                push!(a & b);
            }
            0x17 => {
                need!(2);
                let (a, b) = (pop!(), pop!());
                push!(a | b);
            }
            0x18 => {
                need!(2);
                let (a, b) = (pop!(), pop!());
                push!(a ^ b);
            }
            0x19 => {
                need!(1);
                let a = pop!();
                push!(max256() ^ a);
            }
            0x1a => {
                need!(2);
                let (i, x) = (pop!(), pop!());
                if i < U::from(32u32) {
                    let bytes = be32(&x);
                    push!(U::from(bytes[i.to_usize().unwrap()]));
                } else {
                    push!(U::zero());
                }
            }
            0x1b => {
                need!(2);
                let (s, x) = (pop!(), pop!());
                push!(if s >= U::from(256u32) { U::zero() } else { wrap(x << s.to_u64().unwrap()) });
            }
            0x1c => {
                need!(2);
                let (s, x) = (pop!(), pop!());
                push!(if s >= U::from(256u32) { U::zero() } else { x >> s.to_u64().unwrap() });
            }
            0x1d => {
                need!(2);
                let (s, x) = (pop!(), pop!());
                let negative = is_neg(&x);
                if s >= U::from(256u32) {
                    push!(if negative { max256() } else { U::zero() });
                } else {
                    let sh = s.to_u64().unwrap();
                    let mut r = &x >> sh;
                    if negative && sh > 0 {
                        // fill the vacated high bits with ones
                        let fill = max256() ^ ((U::one() << (256 - sh)) - U::one());
                        r |= fill;
                    }
                    push!(r);
                }
            }
            0x1e => {
                need!(1);
                let x = pop!();
                push!(U::from(256u64 - x.bits()));
            }
            0x20 => {
                need!(2);
                let (off, size) = (pop!(), pop!());
                let r = region!(&off, &size);
                let data: &[u8] = match r {
                    Some((o, s)) => &mem.m[o..o + s],
                    None => &[],
                };
                push!(from_be(&keccak(data)));
            }
            0x30 => push!(env.address.clone()),
            0x32 => push!(env.origin.clone()),
            0x33 => push!(env.caller.clone()),
            0x34 => push!(env.callvalue.clone()),
            0x35 => {
                need!(1);
                let i = pop!();
                let mut w = [0u8; 32];
                copy_padded(&mut w, calldata, &i);
                push!(from_be(&w));
            }
            0x36 => push!(U::from(calldata.len())),
            0x37 | 0x39 => {
                need!(3);
                let (dst, off, size) = (pop!(), pop!(), pop!());
                let r = region!(&dst, &size);
                if let Some((o, s)) = r {
                    let src: &[u8] = if op == 0x37 { calldata } else { code };
                    let mut buf = vec![0u8; s];
                    copy_padded(&mut buf, src, &off);
                    mem.m[o..o + s].copy_from_slice(&buf);
                }
            }
            0x38 => push!(U::from(code.len())),
            0x3d => push!(U::zero()),
            0x3e => {
                need!(3);
                let (dst, off, size) = (pop!(), pop!(), pop!());
                let _ = region!(&dst, &size);
                // return data is empty in the subset (no calls)
                if !off.is_zero() || !size.is_zero() {
                    fail!(Fail::ReturnDataOutOfBounds);
                }
            }
            0x42 => push!(env.timestamp.clone()),
            0x43 => push!(env.number.clone()),
            0x46 => push!(env.chainid.clone()),
            0x47 => push!(env.selfbalance.clone()),
            0x50 => {
                need!(1);
                let _ = pop!();
            }
            0x51 => {
                need!(1);
                let off = pop!();
                let r = region!(&off, &U::from(32u32));
                let (o, _) = r.unwrap();
                push!(from_be(&mem.m[o..o + 32]));
            }
            0x52 => {
                need!(2);
                let (off, v) = (pop!(), pop!());
                let r = region!(&off, &U::from(32u32));
                let (o, _) = r.unwrap();
                mem.m[o..o + 32].copy_from_slice(&be32(&v));
            }
            0x53 => {
                need!(2);
                let (off, v) = (pop!(), pop!());
                let r = region!(&off, &U::one());
                let (o, _) = r.unwrap();
                mem.m[o] = be32(&v)[31];
            }
            0x54 => {
                need!(1);
                let k = pop!();
                push!(storage.get(&k).cloned().unwrap_or_default());
            }
            0x55 => {
                need!(2);
                let (k, v) = (pop!(), pop!());
                if env.is_static {
                    fail!(Fail::StaticViolation);
                }
                if v.is_zero() {
                    storage.remove(&k);
                } else {
                    storage.insert(k, v);
                }
            }
            0x56 => {
                need!(1);
                let d = pop!();
                match d.to_usize().filter(|x| *x < code.len() && jd[*x]) {
                    Some(x) => next = x,
                    None => fail!(Fail::BadJump),
                }
            }
            0x57 => {
                need!(2);
                let (d, c) = (pop!(), pop!());
                if !c.is_zero() {
                    match d.to_usize().filter(|x| *x < code.len() && jd[*x]) {
                        Some(x) => next = x,
                        None => fail!(Fail::BadJump),
                    }
                }
            }
            0x58 => push!(U::from(pc)),
            0x59 => push!(U::from(mem.m.len())),
            0x5b => {}
            0x5c => {
                need!(1);
                let k = pop!();
                push!(transient.get(&k).cloned().unwrap_or_default());
            }
            0x5d => {
                need!(2);
                let (k, v) = (pop!(), pop!());
                if env.is_static {
                    fail!(Fail::StaticViolation);
                }
                if v.is_zero() {
                    transient.remove(&k);
                } else {
                    transient.insert(k, v);
                }
            }
            0x5e => {
                need!(3);
                let (dst, src, size) = (pop!(), pop!(), pop!());
                if !size.is_zero() {
                    let s = region!(&src, &size);
                    let d = region!(&dst, &size);
                    let (so, n) = s.unwrap();
                    let (dof, _) = d.unwrap();
                    let tmp = mem.m[so..so + n].to_vec();
                    mem.m[dof..dof + n].copy_from_slice(&tmp);
                }
            }
            0x5f => push!(U::zero()),
            0x60..=0x7f => {
                let n = (op - 0x5f) as usize;
                let mut w = vec![0u8; n];
                let avail = code.len().saturating_sub(pc + 1);
                let take = std::cmp::min(n, avail);
                w[..take].copy_from_slice(&code[pc + 1..pc + 1 + take]);
                push!(from_be(&w));
                next = pc + 1 + n;
            }
            0x80..=0x8f => {
                let n = (op - 0x7f) as usize;
                need!(n);
                let v = stack[stack.len() - n].clone();
                push!(v);
            }
            0x90..=0x9f => {
                let n = (op - 0x8f) as usize;
                need!(n + 1);
                let top = stack.len() - 1;
                stack.swap(top, top - n);
            }
            0xf3 | 0xfd => {
                need!(2);
                let (off, size) = (pop!(), pop!());
                let r = region!(&off, &size);
                let data = match r {
                    Some((o, s)) => mem.m[o..o + s].to_vec(),
                    None => vec![],
                };
                if op == 0xf3 {
                    return finish(Outcome::Return(data), storage, transient, steps, max_stack, ops, &mem);
                } else {
                    return finish(Outcome::Revert(data), storage0.clone(), transient0.clone(), steps, max_stack, ops, &mem);
                }
            }
            0xfe => fail!(Fail::Invalid),
            _ => unreachable!(),
        }
        pc = next;
    }
}
