//! Byte decoders + oracles for the coverage-guided targets in /verif/fuzz (libFuzzer).  A violation is written as
//! an ordinary replay file (so that `./check <ID> --replay <file>` reproduces it without the fuzzer), the
//! VIOLATION line is printed and the process aborts, which makes libFuzzer keep the input as a crash artifact.

use crate::common::*;
use crate::engines::c17_evm_diff as c17;
use crate::engines::c18_evm_total as c18;
use serde::Serialize;
use serde_json::json;

fn report<C: Serialize>(id: &str, case: &C, v: &Violation) -> ! {
    let dir = verif_root().join("replays").join(id);
    let _ = std::fs::create_dir_all(&dir);
    let js = serde_json::to_value(case).unwrap_or(serde_json::Value::Null);
    let h = hash64(&js.to_string());
    let path = dir.join(format!("fuzz-{:016x}.json", h));
    let doc = json!({"property": id, "seed": 0, "shard": 0, "tier": "fuzz", "reason": format!("{}|{}|{}", v.signature, v.clause, v.detail), "case": js});
    let _ = std::fs::write(&path, serde_json::to_string_pretty(&doc).unwrap());
    println!("violation detail: {}|{}", v.clause, v.detail);
    println!("VIOLATION property={id} replay={}", path.display());
    std::process::abort();
}

/// opcodes of the compared subset, in a fixed order (a byte of fuzz input selects one)
fn subset_ops() -> Vec<u8> {
    (0u8..=255).filter(|b| crate::evmref::in_subset(*b)).collect()
}

/// decode fuzz bytes into a C17 program case: header (ending, result slot, call data) + opcode stream
pub fn decode_evm_diff(data: &[u8]) -> Option<c17::Case> {
    if data.len() < 4 {
        return None;
    }
    let ops = subset_ops();
    let end = match data[0] % 5 {
        0 => c17::EndKind::Return,
        1 => c17::EndKind::Revert,
        2 => c17::EndKind::Stop,
        3 => c17::EndKind::Invalid,
        _ => c17::EndKind::FallOff,
    };
    let store_top = data[1] % 4;
    let cd_len = (data[2] % 40) as usize;
    let rest = &data[3..];
    let cd_len = cd_len.min(rest.len());
    let calldata = rest[..cd_len].to_vec();
    let stream = &rest[cd_len..];
    let mut code = Vec::with_capacity(stream.len());
    let mut i = 0;
    while i < stream.len() && code.len() < 600 {
        let op = ops[stream[i] as usize % ops.len()];
        i += 1;
        code.push(op);
        if (0x60..=0x7f).contains(&op) {
            let n = (op - 0x5f) as usize;
            for _ in 0..n {
                code.push(if i < stream.len() { stream[i] } else { 0 });
                i += 1;
            }
        }
    }
    Some(c17::Case::Program {
        stmts: vec![c17::Stmt::Raw(code)],
        end,
        ret_off: c17::Off::Small(0),
        ret_len: c17::Off::Small(64),
        store_top,
        calldatas: vec![calldata],
        value_atto: 0,
    })
}

/// nested EVM calls recurse natively (SimVM's call-depth limit is 1024): run every case on a thread with a 1 GiB stack,
/// as the `verif` binary does
fn on_big_stack<F: FnOnce() + Send + 'static>(f: F) {
    use std::sync::{Mutex, OnceLock, mpsc};
    type Job = Box<dyn FnOnce() + Send>;
    // one long-lived worker (mapping a fresh 1 GiB stack per execution costs ~3 ms)
    static TX: OnceLock<Mutex<mpsc::Sender<(Job, mpsc::Sender<bool>)>>> = OnceLock::new();
    let tx = TX.get_or_init(|| {
        let (tx, rx) = mpsc::channel::<(Job, mpsc::Sender<bool>)>();
        std::thread::Builder::new()
            .stack_size(1 << 30)
            .spawn(move || {
                for (job, done) in rx {
                    let ok = std::panic::catch_unwind(std::panic::AssertUnwindSafe(job)).is_ok();
                    let _ = done.send(ok);
                }
            })
            .expect("spawn worker");
        Mutex::new(tx)
    });
    let (dtx, drx) = mpsc::channel();
    tx.lock().unwrap().send((Box::new(f), dtx)).expect("worker alive");
    if !drx.recv().unwrap_or(false) {
        // a panic of the harness itself (not of an actor: those are caught inside SimVM) is a crash for libFuzzer
        std::process::abort();
    }
}

pub fn evm_diff(data: &[u8]) {
    let case = match decode_evm_diff(data) {
        Some(c) => c,
        None => return,
    };
    on_big_stack(move || {
        let mut stats = CaseStats::default();
        if let Err(v) = c17::C17.run(&case, &mut stats) {
            report("C17", &case, &v);
        }
    });
}

/// decode fuzz bytes into a C18 arbitrary-bytes case: flags, call data, raw code
pub fn decode_evm_total(data: &[u8]) -> Option<c18::Case> {
    if data.len() < 3 {
        return None;
    }
    let as_init = data[0] & 1 == 1;
    let static_depth = (data[0] >> 1) & 3;
    let value = (data[0] >> 3) & 1;
    let cd_len = (data[1] % 40) as usize;
    let rest = &data[2..];
    let cd_len = cd_len.min(rest.len());
    let calldata = rest[..cd_len].to_vec();
    let code = rest[cd_len..].iter().copied().take(600).collect::<Vec<u8>>();
    Some(c18::Case::Bytes { code: vec![c18::Tok::Raw(code)], as_init, calldata, static_depth, value })
}

pub fn evm_total(data: &[u8]) {
    let case = match decode_evm_total(data) {
        Some(c) => c,
        None => return,
    };
    on_big_stack(move || {
        let mut stats = CaseStats::default();
        if let Err(v) = c18::C18.run(&case, &mut stats) {
            report("C18", &case, &v);
        }
    });
}
