//! verif-harness as a library (used by the `verif` binary and by the cargo-fuzz targets in /verif/fuzz).
pub mod common;
pub mod engines;
pub mod evmfix;
pub mod evmref;
pub mod simvm;
pub mod world;
pub mod fuzzglue;
