mod common;
mod engines;
mod simvm;
mod world;

use common::*;

fn main() {
    let h = std::thread::Builder::new().stack_size(1 << 30).spawn(real_main).unwrap();
    let code = h.join().unwrap_or(2);
    std::process::exit(code);
}

fn real_main() -> i32 {
    let args: Vec<String> = std::env::args().collect();
    if args.len() < 2 {
        eprintln!("usage: verif <ID> [--tier quick|thorough] [--seed N] [--replay PATH] [--cases N] [--shards N]");
        std::process::exit(2);
    }
    let id = args[1].clone();
    let mut tier = match std::env::var("VERIF_TIER").ok().as_deref() {
        Some("thorough") => Tier::Thorough,
        _ => Tier::Quick,
    };
    let mut seed: u64 = std::env::var("VERIF_SEED").ok().and_then(|s| s.parse().ok()).unwrap_or(0);
    let mut replay = None;
    let mut cases_override = None;
    let mut shards_override = None;
    let mut i = 2;
    while i < args.len() {
        match args[i].as_str() {
            "--tier" => {
                tier = if args[i + 1] == "thorough" { Tier::Thorough } else { Tier::Quick };
                i += 1;
            }
            "--seed" => {
                seed = args[i + 1].parse().expect("seed");
                i += 1;
            }
            "--replay" => {
                replay = Some(args[i + 1].clone());
                i += 1;
            }
            "--cases" => {
                cases_override = Some(args[i + 1].parse().expect("cases"));
                i += 1;
            }
            "--shards" => {
                shards_override = Some(args[i + 1].parse().expect("shards"));
                i += 1;
            }
            other => {
                eprintln!("unknown argument {other}");
                std::process::exit(2);
            }
        }
        i += 1;
    }
    let opts = RunOpts { tier, seed, replay, cases_override, shards_override };
    let code = match id.as_str() {
        "C12" => run_engine(&engines::c12_multisig::C12, &opts),
        "C16" => run_engine(&engines::c16_paych::C16, &opts),
        _ => {
            eprintln!("unknown property {id}");
            2
        }
    };
    code
}
