use verif_harness::common::*;
use verif_harness::{common, engines};

fn main() {
    let h = std::thread::Builder::new().stack_size(1 << 30).spawn(real_main).unwrap();
    let code = h.join().unwrap_or(2);
    std::process::exit(code);
}

fn real_main() -> i32 {
    let args: Vec<String> = std::env::args().collect();
    if args.len() < 2 {
        eprintln!("usage: verif <ID> [--tier quick|thorough] [--seed N] [--replay PATH] [--cases N] [--shards N]");
        std::process::exit(2);
    }
    let id = args[1].clone();
    let mut tier = match std::env::var("VERIF_TIER").ok().as_deref() {
        Some("thorough") => Tier::Thorough,
        _ => Tier::Quick,
    };
    let mut seed: u64 = std::env::var("VERIF_SEED").ok().and_then(|s| s.parse().ok()).unwrap_or(0);
    let mut replay = None;
    let mut cases_override = None;
    let mut shards_override = None;
    let mut i = 2;
    while i < args.len() {
        match args[i].as_str() {
            "--tier" => {
                tier = if args[i + 1] == "thorough" { Tier::Thorough } else { Tier::Quick };
                i += 1;
            }
            "--seed" => {
                seed = args[i + 1].parse().expect("seed");
                i += 1;
            }
            "--replay" => {
                replay = Some(args[i + 1].clone());
                i += 1;
            }
            "--cases" => {
                cases_override = Some(args[i + 1].parse().expect("cases"));
                i += 1;
            }
            "--shards" => {
                shards_override = Some(args[i + 1].parse().expect("shards"));
                i += 1;
            }
            other => {
                eprintln!("unknown argument {other}");
                std::process::exit(2);
            }
        }
        i += 1;
    }
    let opts = RunOpts { tier, seed, replay, cases_override, shards_override };
    if id == "bench" { bench(); return 0; }
    let code = match id.as_str() {
        "C09" => run_engine(&engines::c09_datacap::C09, &opts),
        "C14" => run_engine(&engines::sys::SysEngine { id: "C14" }, &opts),
        "C15" => run_engine(&engines::sys::SysEngine { id: "C15" }, &opts),
        "C10" => run_engine(&engines::sys::SysEngine { id: "C10" }, &opts),
        "C11" => run_engine(&engines::c11_callers::C11, &opts),
        "C13" => run_engine(&engines::c13_control::C13, &opts),
        "C12" => run_engine(&engines::c12_multisig::C12, &opts),
        "C06" => run_engine(&engines::market::engines::C06, &opts),
        "C07" => run_engine(&engines::market::engines::C07, &opts),
        "C08" => run_engine(&engines::market::engines::C08, &opts),
        "C18" => run_engine(&engines::c18_evm_total::C18, &opts),
        "SYS" => run_engine(&engines::sys::SysEngine { id: "SYS" }, &opts),
        "C01" => run_engine(&engines::composite::Composite { id: "C01" }, &opts),
        "C02" => run_engine(&engines::sys::SysEngine { id: "C02" }, &opts),
        "C03" => run_engine(&engines::sys::SysEngine { id: "C03" }, &opts),
        "C04" => run_engine(&engines::sys::SysEngine { id: "C04" }, &opts),
        "C05" => run_engine(&engines::composite::Composite { id: "C05" }, &opts),
        "C20" => run_engine(&engines::c20_identity::C20, &opts),
        "C19" => run_engine(&engines::evmsys::C19, &opts),
        "C17" => run_engine(&engines::c17_evm_diff::C17, &opts),
        "C16" => run_engine(&engines::c16_paych::C16, &opts),
        _ => {
            eprintln!("unknown property {id}");
            2
        }
    };
    code
}

#[allow(dead_code)]
pub fn bench() {
    let t = std::time::Instant::now();
    for _ in 0..20 {
        let _f = engines::market::Fixture::new();
    }
    println!("fixture: {:?} each", t.elapsed() / 20);
    let f = engines::market::Fixture::new();
    let t = std::time::Instant::now();
    f.w.v.set_epoch(600_000);
    let r = f.w.call_raw(fil_actors_runtime::CRON_ACTOR_ID, fil_actors_runtime::STORAGE_MARKET_ACTOR_ID, fil_actor_market::Method::CronTick as u64, &fvm_shared::econ::TokenAmount::from_atto(0), None);
    println!("cron over 600k epochs: {:?} ok={}", t.elapsed(), r.ok());
    // system tick cost: one cron-active miner with a sector
    let case = engines::sys::ops::SysCase { n_miners: 1, proofs: vec![0], min_power: 1, poor_reward: false, whale: false, funding: vec![], ops: vec![engines::sys::ops::Op::Onboard { m: 0, n: 2, life_days: 0 }] };
    let mut stats = common::CaseStats::default();
    stats.known_sigs = std::sync::Arc::new(["vesting-funds-without-deadline-cron", "create-miner-deposit-missing-from-pledge-total"].iter().map(|s| s.to_string()).collect());
    let mut s = engines::sys::ops::Sys::new(&case, &mut stats, &std::env::var("BENCH_FOCUS").unwrap_or("C05".into())).unwrap();
    s.cushion(false).unwrap();
    s.step(0, &case.ops[0]).unwrap();
    let t = std::time::Instant::now();
    let e0 = s.w.v.epoch();
    s.advance_to(e0 + 20_000).unwrap();
    println!("20k checked ticks (C05 focus): {:?}", t.elapsed());
}
