//! SimVM — an in-process VM that runs the real builtin actors natively (DESIGN §2.1).
//!
//! Derived in structure from the repository's `test_vm`, but: executes `delete_actor`,
//! shares one never-rolled-back actor-address counter per top-level message, reports syscall
//! failures as `SendError`s the way the FVM does, binds signatures to signers, lets the
//! generator script consensus-fault verdicts, catches panics, can inject failures into chosen
//! nested sends, and records a full invocation trace.

use anyhow::anyhow;
use cid::Cid;
use fil_actor_account::Actor as AccountActor;
use fil_actor_cron::Actor as CronActor;
use fil_actor_datacap::Actor as DataCapActor;
use fil_actor_eam::EamActor;
use fil_actor_ethaccount::EthAccountActor;
use fil_actor_evm::EvmContractActor;
use fil_actor_init::{Actor as InitActor, State as InitState};
use fil_actor_market::Actor as MarketActor;
use fil_actor_miner::Actor as MinerActor;
use fil_actor_multisig::Actor as MultisigActor;
use fil_actor_paych::Actor as PaychActor;
use fil_actor_power::Actor as PowerActor;
use fil_actor_reward::Actor as RewardActor;
use fil_actor_system::Actor as SystemActor;
use fil_actor_verifreg::Actor as VerifregActor;
use fil_actors_runtime::runtime::builtins::Type;
use fil_actors_runtime::runtime::{
    ActorCode, DomainSeparationTag, EMPTY_ARR_CID, MessageInfo, Policy, Primitives, Runtime,
    RuntimePolicy,
};
use fil_actors_runtime::test_blockstores::MemoryBlockstore;
use fil_actors_runtime::test_utils::*;
use fil_actors_runtime::{ActorError, INIT_ACTOR_ID, SYSTEM_ACTOR_ID, SendError, actor_error};
use fvm_ipld_encoding::CborStore;
use fvm_ipld_encoding::ipld_block::IpldBlock;
use fvm_shared::address::{Address, Payload};
use fvm_shared::bigint::Zero;
use fvm_shared::chainid::ChainID;
use fvm_shared::clock::ChainEpoch;
use fvm_shared::consensus::{ConsensusFault, ConsensusFaultType};
use fvm_shared::crypto::hash::SupportedHashes;
use fvm_shared::crypto::signature::{
    SECP_PUB_LEN, SECP_SIG_LEN, SECP_SIG_MESSAGE_HASH_SIZE, Signature,
};
use fvm_shared::econ::TokenAmount;
use fvm_shared::error::{ErrorNumber, ExitCode};
use fvm_shared::event::ActorEvent;
use fvm_shared::piece::PieceInfo;
use fvm_shared::randomness::RANDOMNESS_LENGTH;
use fvm_shared::sector::{
    AggregateSealVerifyProofAndInfos, RegisteredSealProof, ReplicaUpdateInfo, SealVerifyInfo,
    WindowPoStVerifyInfo,
};
use fvm_shared::sys::SendFlags;
use fvm_shared::version::NetworkVersion;
use fvm_shared::{ActorID, IPLD_RAW, METHOD_CONSTRUCTOR, METHOD_SEND, MethodNum, Response};
use multihash_codetable::Code;
use serde::Serialize;
use serde::de::DeserializeOwned;
use std::cell::{Cell, RefCell};
use std::collections::BTreeMap;
use std::panic::{AssertUnwindSafe, catch_unwind};
use std::rc::Rc;

pub const RAND_ARRAY: [u8; 32] = [
    1u8, 2, 3, 4, 5, 6, 7, 8, 9, 10, 11, 12, 13, 14, 15, 16, 17, 18, 19, 20, 21, 22, 23, 24, 25,
    26, 27, 28, 29, 30, 31, 32,
];
/// Proof bytes that the fake verifiers reject.
pub const BAD_PROOF: &[u8] = b"i_am_invalid_proof";
/// Prefix of a scripted consensus-fault header.
pub const CF_MAGIC: &[u8] = b"CFLT";

#[derive(Clone, Debug, PartialEq, Eq)]
pub struct ActorEntry {
    pub code: Cid,
    pub state: Cid,
    pub sequence: u64,
    pub balance: TokenAmount,
    pub delegated: Option<Address>,
}

#[derive(Clone, Default, Debug)]
pub struct Tree {
    pub actors: BTreeMap<ActorID, ActorEntry>,
    /// memo of robust/delegated address → id (positive hits only); rolled back with the tree
    resolve_memo: BTreeMap<Address, ActorID>,
}

#[derive(Clone, Copy, Debug, PartialEq, Eq)]
pub enum Fault {
    /// callee aborted with this exit code (it is not run; indistinguishable for the caller)
    Abort(u32),
    /// the send syscall itself failed
    Syscall(ErrorNumber),
}

#[derive(Clone, Debug)]
pub struct Trace {
    pub from: ActorID,
    pub to: Address,
    pub to_id: Option<ActorID>,
    pub to_type: Option<Type>,
    pub method: MethodNum,
    pub params: Option<IpldBlock>,
    pub value: TokenAmount,
    pub read_only: bool,
    pub code: ExitCode,
    pub send_err: Option<ErrorNumber>,
    pub ret: Option<IpldBlock>,
    pub msg: String,
    pub subs: Vec<Trace>,
    pub events: Vec<ActorEvent>,
    pub injected: bool,
    pub panicked: Option<String>,
    pub unvalidated: bool,
    /// ordinal of this send inside the top-level message (0 = the top-level message itself)
    pub ordinal: u64,
}

impl Trace {
    pub fn ok(&self) -> bool {
        self.code.is_success() && self.send_err.is_none()
    }
    pub fn walk<'a>(&'a self, f: &mut dyn FnMut(&'a Trace, usize)) {
        fn go<'a>(t: &'a Trace, d: usize, f: &mut dyn FnMut(&'a Trace, usize)) {
            f(t, d);
            for s in &t.subs {
                go(s, d + 1, f);
            }
        }
        go(self, 0, f)
    }
    /// Visit only invocations whose effects persisted (every ancestor incl. itself succeeded).
    pub fn walk_effective<'a>(&'a self, f: &mut dyn FnMut(&'a Trace)) {
        if !self.ok() {
            return;
        }
        f(self);
        for s in &self.subs {
            s.walk_effective(f);
        }
    }
    pub fn count(&self) -> usize {
        1 + self.subs.iter().map(|s| s.count()).sum::<usize>()
    }
    pub fn any(&self, p: &dyn Fn(&Trace) -> bool) -> bool {
        p(self) || self.subs.iter().any(|s| s.any(p))
    }
    pub fn short(&self) -> String {
        let mut out = String::new();
        self.walk(&mut |t, d| {
            out.push_str(&format!(
                "{}{}->{} m={} v={} code={}{}{}\n",
                "  ".repeat(d),
                t.from,
                t.to_id.map(|i| i.to_string()).unwrap_or_else(|| t.to.to_string()),
                t.method,
                t.value.atto(),
                t.code.value(),
                if t.injected { " [injected]" } else { "" },
                if let Some(p) = &t.panicked { format!(" [panic: {p}]") } else { String::new() }
            ));
        });
        out
    }
}

#[derive(Clone, Debug)]
pub struct MsgResult {
    pub code: ExitCode,
    pub message: String,
    pub ret: Option<IpldBlock>,
    pub trace: Trace,
}

impl MsgResult {
    pub fn ok(&self) -> bool {
        self.code.is_success()
    }
    pub fn de<T: DeserializeOwned>(&self) -> Option<T> {
        self.ret.as_ref().and_then(|b| b.deserialize().ok())
    }
}

pub struct SimVM {
    pub store: Rc<MemoryBlockstore>,
    tree: RefCell<Rc<Tree>>,
    epoch: Cell<ChainEpoch>,
    pub circ_supply: RefCell<TokenAmount>,
    pub base_fee: RefCell<TokenAmount>,
    pub policy: Policy,
    pub chain_id: u64,
    // per top-level message
    send_counter: Cell<u64>,
    addr_counter: Cell<u64>,
    fault_plan: RefCell<BTreeMap<u64, Fault>>,
    pub primitives: FakePrimitives,
    pub panics_seen: Cell<u64>,
    pub max_depth: Cell<u32>,
    /// optional observer of every top-level message (C11 caller-substitution probes)
    pub probe: RefCell<Option<Rc<dyn ProbeHook>>>,
    pub probing: Cell<bool>,
}

/// The message a probe hook is told about.
pub struct ProbeMsg {
    pub from: ActorID,
    pub to: Address,
    pub value: TokenAmount,
    pub method: MethodNum,
    pub params: Option<IpldBlock>,
    /// a fault plan was active for this message
    pub faulted: bool,
}

/// Called after every top-level message that was not itself issued by a hook. The hook may snapshot / restore /
/// execute freely but must leave the VM in the state it found it in.
pub trait ProbeHook {
    fn on_message(&self, vm: &SimVM, pre: &Snapshot, msg: &ProbeMsg, res: &MsgResult);
}

thread_local! {
    /// hook installed into every SimVM created on this thread
    pub static PROBE: RefCell<Option<Rc<dyn ProbeHook>>> = const { RefCell::new(None) };
}

#[derive(Clone)]
pub struct Snapshot {
    tree: Rc<Tree>,
    epoch: ChainEpoch,
    circ: TokenAmount,
}

thread_local! {
    static LAST_PANIC: RefCell<Option<String>> = const { RefCell::new(None) };
}

/// Install a quiet panic hook (once per process) that records the message per thread.
pub fn install_panic_hook() {
    use std::sync::Once;
    static ONCE: Once = Once::new();
    ONCE.call_once(|| {
        let default = std::panic::take_hook();
        std::panic::set_hook(Box::new(move |info| {
            let msg = if let Some(s) = info.payload().downcast_ref::<&str>() {
                s.to_string()
            } else if let Some(s) = info.payload().downcast_ref::<String>() {
                s.clone()
            } else {
                "panic".to_string()
            };
            let loc = info.location().map(|l| format!("{}:{}", l.file(), l.line())).unwrap_or_default();
            let in_actor = IN_ACTOR.with(|c| c.get());
            if in_actor > 0 {
                LAST_PANIC.with(|p| *p.borrow_mut() = Some(format!("{msg} @ {loc}")));
            } else {
                default(info);
            }
        }));
    });
}

thread_local! {
    static IN_ACTOR: Cell<u32> = const { Cell::new(0) };
}

pub fn sign(signer_key_addr: &Address, plaintext: &[u8]) -> Vec<u8> {
    let mut st = blake2b_simd::Params::new().hash_length(32).to_state();
    st.update(&signer_key_addr.to_bytes());
    st.update(plaintext);
    st.finalize().as_bytes().to_vec()
}

pub fn consensus_fault_header(target: ActorID, epoch: ChainEpoch, kind: u8) -> Vec<u8> {
    let mut v = CF_MAGIC.to_vec();
    v.extend_from_slice(&target.to_be_bytes());
    v.extend_from_slice(&epoch.to_be_bytes());
    v.push(kind);
    v
}

impl SimVM {
    pub fn new(policy: Policy) -> Self {
        install_panic_hook();
        SimVM {
            store: Rc::new(MemoryBlockstore::new()),
            tree: RefCell::new(Rc::new(Tree::default())),
            epoch: Cell::new(0),
            circ_supply: RefCell::new(TokenAmount::zero()),
            base_fee: RefCell::new(TokenAmount::zero()),
            policy,
            chain_id: 0,
            send_counter: Cell::new(0),
            addr_counter: Cell::new(0),
            fault_plan: RefCell::new(BTreeMap::new()),
            primitives: FakePrimitives::default(),
            panics_seen: Cell::new(0),
            max_depth: Cell::new(MAX_CALL_DEPTH),
            probe: RefCell::new(PROBE.with(|p| p.borrow().clone())),
            probing: Cell::new(false),
        }
    }

    pub fn epoch(&self) -> ChainEpoch {
        self.epoch.get()
    }
    pub fn set_epoch(&self, e: ChainEpoch) {
        self.epoch.set(e)
    }
    pub fn snapshot(&self) -> Snapshot {
        Snapshot {
            tree: Rc::clone(&self.tree.borrow()),
            epoch: self.epoch.get(),
            circ: self.circ_supply.borrow().clone(),
        }
    }
    pub fn restore(&self, s: &Snapshot) {
        *self.tree.borrow_mut() = Rc::clone(&s.tree);
        self.epoch.set(s.epoch);
        *self.circ_supply.borrow_mut() = s.circ.clone();
    }
    fn tree_snapshot(&self) -> Rc<Tree> {
        Rc::clone(&self.tree.borrow())
    }
    fn tree_restore(&self, t: Rc<Tree>) {
        *self.tree.borrow_mut() = t;
    }
    pub fn tree(&self) -> Rc<Tree> {
        Rc::clone(&self.tree.borrow())
    }
    pub fn actor(&self, id: ActorID) -> Option<ActorEntry> {
        self.tree.borrow().actors.get(&id).cloned()
    }
    pub fn balance(&self, id: ActorID) -> TokenAmount {
        self.tree.borrow().actors.get(&id).map(|a| a.balance.clone()).unwrap_or_default()
    }
    pub fn actor_type(&self, id: ActorID) -> Option<Type> {
        self.tree.borrow().actors.get(&id).and_then(|a| ACTOR_TYPES.get(&a.code).copied())
    }
    /// Only for genesis construction.
    pub fn set_actor(&self, id: ActorID, a: ActorEntry) {
        let mut t = self.tree.borrow_mut();
        Rc::make_mut(&mut t).actors.insert(id, a);
    }
    fn with_actor_mut<R>(&self, id: ActorID, f: impl FnOnce(&mut ActorEntry) -> R) -> Option<R> {
        let mut t = self.tree.borrow_mut();
        Rc::make_mut(&mut t).actors.get_mut(&id).map(f)
    }
    pub fn put<S: Serialize>(&self, obj: &S) -> Cid {
        self.store.put_cbor(obj, Code::Blake2b256).unwrap()
    }
    pub fn get_state<T: DeserializeOwned>(&self, id: ActorID) -> Option<T> {
        let a = self.actor(id)?;
        self.store.get_cbor::<T>(&a.state).ok().flatten()
    }
    pub fn total_balance(&self) -> TokenAmount {
        self.tree.borrow().actors.values().map(|a| &a.balance).sum()
    }

    pub fn resolve(&self, addr: &Address) -> Option<ActorID> {
        if let Payload::ID(id) = addr.payload() {
            return Some(*id);
        }
        if let Some(id) = self.tree.borrow().resolve_memo.get(addr) {
            return Some(*id);
        }
        let st: InitState = self.get_state(INIT_ACTOR_ID)?;
        let found = st.resolve_address(&self.store, addr).ok().flatten()?;
        let id = found.id().ok()?;
        let mut t = self.tree.borrow_mut();
        Rc::make_mut(&mut t).resolve_memo.insert(*addr, id);
        Some(id)
    }

    pub fn set_fault_plan(&self, plan: BTreeMap<u64, Fault>) {
        *self.fault_plan.borrow_mut() = plan;
    }

    /// Execute a top-level message from any existing actor.
    pub fn execute(
        &self,
        from: ActorID,
        to: &Address,
        value: &TokenAmount,
        method: MethodNum,
        params: Option<IpldBlock>,
    ) -> MsgResult {
        let hook = if self.probing.get() { None } else { self.probe.borrow().clone() };
        match hook {
            None => self.execute_inner(from, to, value, method, params),
            Some(h) => {
                let pre = self.snapshot();
                let faulted = !self.fault_plan.borrow().is_empty();
                let msg = ProbeMsg { from, to: *to, value: value.clone(), method, params: params.clone(), faulted };
                let res = self.execute_inner(from, to, value, method, params);
                self.probing.set(true);
                h.on_message(self, &pre, &msg, &res);
                self.probing.set(false);
                res
            }
        }
    }

    fn execute_inner(
        &self,
        from: ActorID,
        to: &Address,
        value: &TokenAmount,
        method: MethodNum,
        params: Option<IpldBlock>,
    ) -> MsgResult {
        let mut sender = self.actor(from).expect("sender must exist");
        let call_seq = sender.sequence;
        sender.sequence += 1;
        if sender.code == *PLACEHOLDER_ACTOR_CODE_ID {
            sender.code = *ETHACCOUNT_ACTOR_CODE_ID;
        }
        let origin_stable = self.stable_address(from, &sender);
        self.set_actor(from, sender);
        self.send_counter.set(0);
        self.addr_counter.set(0);

        let prior = self.tree_snapshot();
        let top = TopCtx {
            origin: from,
            origin_stable,
            origin_seq: call_seq,
            circ_supply: self.circ_supply.borrow().clone(),
        };
        let mut ctx = InvocationCtx::new(
            self,
            Rc::new(top),
            InternalMessage { from, to: *to, value: value.clone(), method, params },
            false,
            0,
            0,
        );
        let res = ctx.invoke();
        let trace = ctx.gather_trace(&res, false);
        self.fault_plan.borrow_mut().clear();
        match res {
            Err(InvokeErr::Actor(mut ae)) => {
                self.tree_restore(prior);
                MsgResult {
                    code: ae.exit_code(),
                    message: ae.msg().to_string(),
                    ret: ae.take_data(),
                    trace,
                }
            }
            Err(InvokeErr::Syscall(n)) => {
                self.tree_restore(prior);
                MsgResult {
                    code: match n {
                        ErrorNumber::InsufficientFunds => ExitCode::SYS_INSUFFICIENT_FUNDS,
                        ErrorNumber::NotFound => ExitCode::SYS_INVALID_RECEIVER,
                        _ => ExitCode::SYS_ASSERTION_FAILED,
                    },
                    message: format!("syscall error {n}"),
                    ret: None,
                    trace,
                }
            }
            Ok(ret) => MsgResult { code: ExitCode::OK, message: "OK".into(), ret, trace },
        }
    }

    fn stable_address(&self, id: ActorID, a: &ActorEntry) -> Address {
        if let Some(d) = a.delegated {
            return d;
        }
        if a.code == *ACCOUNT_ACTOR_CODE_ID {
            if let Ok(Some(st)) = self.store.get_cbor::<fil_actor_account::State>(&a.state) {
                return st.address;
            }
        }
        Address::new_id(id)
    }

    /// Number of sends (incl. the top-level one) a message makes, measured on a snapshot.
    pub fn dry_run_sends(
        &self,
        from: ActorID,
        to: &Address,
        value: &TokenAmount,
        method: MethodNum,
        params: Option<IpldBlock>,
    ) -> (u64, MsgResult) {
        let snap = self.snapshot();
        let was = self.probing.replace(true);
        let r = self.execute(from, to, value, method, params);
        self.probing.set(was);
        let n = self.send_counter.get();
        self.restore(&snap);
        (n, r)
    }

    /// All blocks reachable are kept; drop everything not reachable from the given roots.
    pub fn blocks(&self) -> usize {
        self.store.stats.borrow().w
    }
}

pub struct TopCtx {
    pub origin: ActorID,
    pub origin_stable: Address,
    pub origin_seq: u64,
    pub circ_supply: TokenAmount,
}

#[derive(Clone, Debug)]
pub struct InternalMessage {
    pub from: ActorID,
    pub to: Address,
    pub value: TokenAmount,
    pub method: MethodNum,
    pub params: Option<IpldBlock>,
}

#[derive(Debug, Clone)]
pub enum InvokeErr {
    Actor(ActorError),
    Syscall(ErrorNumber),
}

pub struct InvocationCtx<'a> {
    pub v: &'a SimVM,
    top: Rc<TopCtx>,
    msg: InternalMessage,
    to_id: Cell<Option<ActorID>>,
    in_transaction: Cell<bool>,
    caller_validated: Cell<bool>,
    read_only: bool,
    subs: RefCell<Vec<Trace>>,
    events: RefCell<Vec<ActorEvent>>,
    panicked: RefCell<Option<String>>,
    unvalidated: Cell<bool>,
    ordinal: u64,
    depth: u32,
}

/// The FVM's maximum call depth.
pub const MAX_CALL_DEPTH: u32 = 1024;

impl MessageInfo for InvocationCtx<'_> {
    fn nonce(&self) -> u64 {
        self.top.origin_seq
    }
    fn caller(&self) -> Address {
        Address::new_id(self.msg.from)
    }
    fn origin(&self) -> Address {
        Address::new_id(self.top.origin)
    }
    fn receiver(&self) -> Address {
        Address::new_id(self.to_id.get().expect("receiver resolved"))
    }
    fn value_received(&self) -> TokenAmount {
        self.msg.value.clone()
    }
    fn gas_premium(&self) -> TokenAmount {
        TokenAmount::zero()
    }
}

impl<'a> InvocationCtx<'a> {
    fn new(
        v: &'a SimVM,
        top: Rc<TopCtx>,
        msg: InternalMessage,
        read_only: bool,
        ordinal: u64,
        depth: u32,
    ) -> Self {
        InvocationCtx {
            v,
            top,
            msg,
            to_id: Cell::new(None),
            in_transaction: Cell::new(false),
            caller_validated: Cell::new(false),
            read_only,
            subs: RefCell::new(vec![]),
            events: RefCell::new(vec![]),
            panicked: RefCell::new(None),
            unvalidated: Cell::new(false),
            ordinal,
            depth,
        }
    }

    fn me(&self) -> ActorID {
        self.to_id.get().expect("receiver resolved")
    }

    /// Resolve the target, creating an account / placeholder for unknown key / f4 addresses.
    fn resolve_target(&self, target: &Address) -> Result<ActorID, ErrorNumber> {
        if let Some(id) = self.v.resolve(target) {
            if self.v.tree.borrow().actors.contains_key(&id) {
                return Ok(id);
            }
            return Err(ErrorNumber::NotFound);
        }
        let is_account = match target.payload() {
            Payload::Secp256k1(_) | Payload::BLS(_) => true,
            Payload::Delegated(da)
                if self.v.tree.borrow().actors.contains_key(&da.namespace()) =>
            {
                false
            }
            _ => return Err(ErrorNumber::NotFound),
        };
        if self.read_only {
            return Err(ErrorNumber::ReadOnly);
        }
        let mut st: InitState = self.v.get_state(INIT_ACTOR_ID).unwrap();
        let (target_id, existing) =
            st.map_addresses_to_id(&self.v.store, target, None).map_err(|_| ErrorNumber::Forbidden)?;
        assert!(!existing);
        let new_root = self.v.put(&st);
        self.v.with_actor_mut(INIT_ACTOR_ID, |a| a.state = new_root);
        if is_account {
            self.v.set_actor(
                target_id,
                ActorEntry {
                    code: *ACCOUNT_ACTOR_CODE_ID,
                    state: EMPTY_ARR_CID,
                    sequence: 0,
                    balance: TokenAmount::zero(),
                    delegated: None,
                },
            );
            let mut ctor = InvocationCtx::new(
                self.v,
                Rc::clone(&self.top),
                InternalMessage {
                    from: SYSTEM_ACTOR_ID,
                    to: Address::new_id(target_id),
                    value: TokenAmount::zero(),
                    method: METHOD_CONSTRUCTOR,
                    params: IpldBlock::serialize_cbor(target).unwrap(),
                },
                false,
                u64::MAX,
                self.depth + 1,
            );
            let res = ctor.invoke();
            let tr = ctor.gather_trace(&res, false);
            self.subs.borrow_mut().push(tr);
            if res.is_err() {
                return Err(ErrorNumber::IllegalArgument);
            }
        } else {
            self.v.set_actor(
                target_id,
                ActorEntry {
                    code: *PLACEHOLDER_ACTOR_CODE_ID,
                    state: EMPTY_ARR_CID,
                    sequence: 0,
                    balance: TokenAmount::zero(),
                    delegated: Some(*target),
                },
            );
        }
        Ok(target_id)
    }

    fn gather_trace(&mut self, res: &Result<Option<IpldBlock>, InvokeErr>, injected: bool) -> Trace {
        let (ret, code, send_err, msg) = match res {
            Ok(r) => (r.clone(), ExitCode::OK, None, String::new()),
            Err(InvokeErr::Actor(ae)) => {
                let mut ae = ae.clone();
                (ae.take_data(), ae.exit_code(), None, ae.msg().to_string())
            }
            Err(InvokeErr::Syscall(n)) => {
                (None, ExitCode::SYS_ASSERTION_FAILED, Some(*n), format!("syscall {n}"))
            }
        };
        let to_id = self.to_id.get().or_else(|| self.v.resolve(&self.msg.to));
        Trace {
            from: self.msg.from,
            to: self.msg.to,
            to_id,
            to_type: to_id.and_then(|i| self.v.actor_type(i)),
            method: self.msg.method,
            params: self.msg.params.clone(),
            value: self.msg.value.clone(),
            read_only: self.read_only,
            code,
            send_err,
            ret,
            msg,
            subs: self.subs.take(),
            events: self.events.take(),
            injected,
            panicked: self.panicked.take(),
            unvalidated: self.unvalidated.get(),
            ordinal: self.ordinal,
        }
    }

    fn invoke(&mut self) -> Result<Option<IpldBlock>, InvokeErr> {
        let prior = self.v.tree_snapshot();
        let r = self.invoke_inner();
        if r.is_err() {
            self.v.tree_restore(prior);
        }
        r
    }

    fn invoke_inner(&mut self) -> Result<Option<IpldBlock>, InvokeErr> {
        if self.msg.value.is_negative() {
            return Err(InvokeErr::Syscall(ErrorNumber::IllegalArgument));
        }
        if !self.msg.value.is_zero() && self.read_only {
            return Err(InvokeErr::Syscall(ErrorNumber::ReadOnly));
        }
        let to_id = self.resolve_target(&self.msg.to).map_err(InvokeErr::Syscall)?;
        self.to_id.set(Some(to_id));
        if !self.msg.value.is_zero() {
            let from_bal = self.v.balance(self.msg.from);
            if from_bal < self.msg.value {
                return Err(InvokeErr::Syscall(ErrorNumber::InsufficientFunds));
            }
            if to_id != self.msg.from {
                let v = self.msg.value.clone();
                self.v.with_actor_mut(self.msg.from, |a| a.balance -= &v);
                self.v.with_actor_mut(to_id, |a| a.balance += &v);
            }
        }
        if self.msg.method == METHOD_SEND {
            return Ok(None);
        }
        let code = self.v.actor(to_id).unwrap().code;
        let params = self.msg.params.clone();
        let method = self.msg.method;
        let typ = match ACTOR_TYPES.get(&code) {
            Some(t) => *t,
            None => {
                return Err(InvokeErr::Actor(ActorError::unchecked(
                    ExitCode::SYS_INVALID_RECEIVER,
                    "target has no builtin code".into(),
                )));
            }
        };
        IN_ACTOR.with(|c| c.set(c.get() + 1));
        let this: &Self = self;
        let caught = catch_unwind(AssertUnwindSafe(|| match typ {
            Type::Account => AccountActor::invoke_method(this, method, params),
            Type::Cron => CronActor::invoke_method(this, method, params),
            Type::Init => InitActor::invoke_method(this, method, params),
            Type::Market => MarketActor::invoke_method(this, method, params),
            Type::Miner => MinerActor::invoke_method(this, method, params),
            Type::Multisig => MultisigActor::invoke_method(this, method, params),
            Type::System => SystemActor::invoke_method(this, method, params),
            Type::Reward => RewardActor::invoke_method(this, method, params),
            Type::Power => PowerActor::invoke_method(this, method, params),
            Type::PaymentChannel => PaychActor::invoke_method(this, method, params),
            Type::VerifiedRegistry => VerifregActor::invoke_method(this, method, params),
            Type::DataCap => DataCapActor::invoke_method(this, method, params),
            Type::Placeholder => {
                Err(ActorError::unhandled_message("placeholder actors only handle method 0".into()))
            }
            Type::EVM => EvmContractActor::invoke_method(this, method, params),
            Type::EAM => EamActor::invoke_method(this, method, params),
            Type::EthAccount => EthAccountActor::invoke_method(this, method, params),
        }));
        IN_ACTOR.with(|c| c.set(c.get() - 1));
        let mut res = match caught {
            Ok(r) => r,
            Err(_) => {
                let m = LAST_PANIC.with(|p| p.borrow_mut().take()).unwrap_or_else(|| "panic".into());
                self.v.panics_seen.set(self.v.panics_seen.get() + 1);
                *self.panicked.borrow_mut() = Some(m.clone());
                Err(ActorError::unchecked(ExitCode::SYS_ILLEGAL_INSTRUCTION, format!("panic: {m}")))
            }
        };
        if res.is_ok() && !self.caller_validated.get() {
            self.unvalidated.set(true);
            res = Err(actor_error!(assertion_failed, "failed to validate caller"));
        }
        res.map_err(InvokeErr::Actor)
    }

    fn check_validated(&self) -> Result<(), ActorError> {
        if self.caller_validated.get() {
            return Err(ActorError::unchecked(
                ExitCode::SYS_ASSERTION_FAILED,
                "caller double validated".to_string(),
            ));
        }
        self.caller_validated.set(true);
        Ok(())
    }
}

impl Runtime for InvocationCtx<'_> {
    type Blockstore = Rc<MemoryBlockstore>;

    fn create_actor(
        &self,
        code_id: Cid,
        actor_id: ActorID,
        predictable_address: Option<Address>,
    ) -> Result<(), ActorError> {
        if self.in_transaction.get() {
            return Err(actor_error!(assertion_failed; "create_actor is not allowed during transaction"));
        }
        if self.me() != INIT_ACTOR_ID {
            return Err(actor_error!(forbidden; "create_actor only callable by init"));
        }
        if NON_SINGLETON_CODES.get(&code_id).is_none() {
            return Err(ActorError::illegal_argument(
                "create_actor called with singleton or unknown code cid".to_string(),
            ));
        }
        if self.read_only {
            return Err(ActorError::unchecked(
                ExitCode::USR_READ_ONLY,
                "cannot create actor in read-only mode".into(),
            ));
        }
        let actor = match self.v.actor(actor_id) {
            Some(mut act) if act.code == *PLACEHOLDER_ACTOR_CODE_ID => {
                act.code = code_id;
                act
            }
            None => ActorEntry {
                code: code_id,
                state: EMPTY_ARR_CID,
                sequence: 0,
                balance: TokenAmount::zero(),
                delegated: predictable_address,
            },
            _ => {
                return Err(actor_error!(forbidden;
                    "attempt to create new actor at existing address {}", actor_id));
            }
        };
        self.v.addr_counter.set(self.v.addr_counter.get() + 1);
        self.v.set_actor(actor_id, actor);
        Ok(())
    }

    fn store(&self) -> &Rc<MemoryBlockstore> {
        &self.v.store
    }
    fn network_version(&self) -> NetworkVersion {
        NetworkVersion::V21
    }
    fn message(&self) -> &dyn MessageInfo {
        self
    }
    fn curr_epoch(&self) -> ChainEpoch {
        self.v.epoch()
    }
    fn chain_id(&self) -> ChainID {
        ChainID::from(self.v.chain_id)
    }

    fn validate_immediate_caller_accept_any(&self) -> Result<(), ActorError> {
        self.check_validated()
    }

    fn validate_immediate_caller_namespace<I>(&self, namespaces: I) -> Result<(), ActorError>
    where
        I: IntoIterator<Item = u64>,
    {
        self.check_validated()?;
        let managers: Vec<_> = namespaces.into_iter().collect();
        if let Some(delegated) = self.lookup_delegated_address(self.msg.from) {
            if let Payload::Delegated(d) = delegated.payload() {
                if managers.contains(&d.namespace()) {
                    return Ok(());
                }
            }
        }
        Err(ActorError::unchecked(
            ExitCode::USR_FORBIDDEN,
            "immediate caller actor namespace forbidden".to_string(),
        ))
    }

    fn validate_immediate_caller_is<'b, I>(&self, addresses: I) -> Result<(), ActorError>
    where
        I: IntoIterator<Item = &'b Address>,
    {
        self.check_validated()?;
        let me = Address::new_id(self.msg.from);
        for addr in addresses {
            if *addr == me {
                return Ok(());
            }
        }
        Err(ActorError::unchecked(
            ExitCode::USR_FORBIDDEN,
            "immediate caller address forbidden".to_string(),
        ))
    }

    fn validate_immediate_caller_type<'b, I>(&self, types: I) -> Result<(), ActorError>
    where
        I: IntoIterator<Item = &'b Type>,
    {
        self.check_validated()?;
        let t = self.v.actor_type(self.msg.from);
        if let Some(t) = t {
            if types.into_iter().any(|x| *x == t) {
                return Ok(());
            }
        }
        Err(ActorError::unchecked(
            ExitCode::USR_FORBIDDEN,
            "immediate caller actor type forbidden".to_string(),
        ))
    }

    fn current_balance(&self) -> TokenAmount {
        self.v.balance(self.me())
    }
    fn actor_balance(&self, id: ActorID) -> Option<TokenAmount> {
        self.v.actor(id).map(|a| a.balance)
    }
    fn resolve_address(&self, addr: &Address) -> Option<ActorID> {
        self.v.resolve(addr)
    }
    fn get_actor_code_cid(&self, id: &ActorID) -> Option<Cid> {
        self.v.actor(*id).map(|a| a.code)
    }
    fn lookup_delegated_address(&self, id: ActorID) -> Option<Address> {
        self.v.actor(id).and_then(|a| a.delegated)
    }

    fn send(
        &self,
        to: &Address,
        method: MethodNum,
        params: Option<IpldBlock>,
        value: TokenAmount,
        _gas_limit: Option<u64>,
        mut flags: SendFlags,
    ) -> Result<Response, SendError> {
        if self.in_transaction.get() {
            return Err(SendError(ErrorNumber::IllegalOperation));
        }
        if self.read_only {
            flags.set(SendFlags::READ_ONLY, true);
        }
        let ordinal = self.v.send_counter.get() + 1;
        self.v.send_counter.set(ordinal);
        let msg = InternalMessage { from: self.me(), to: *to, value, method, params };
        let mut ctx = InvocationCtx::new(
            self.v,
            Rc::clone(&self.top),
            msg,
            flags.read_only(),
            ordinal,
            self.depth + 1,
        );
        if self.depth + 1 >= self.v.max_depth.get() {
            let res: Result<Option<IpldBlock>, InvokeErr> =
                Err(InvokeErr::Syscall(ErrorNumber::LimitExceeded));
            let tr = ctx.gather_trace(&res, false);
            self.subs.borrow_mut().push(tr);
            return Err(SendError(ErrorNumber::LimitExceeded));
        }

        let injected = self.v.fault_plan.borrow().get(&ordinal).copied();
        if let Some(f) = injected {
            let res: Result<Option<IpldBlock>, InvokeErr> = match f {
                Fault::Abort(c) => Err(InvokeErr::Actor(ActorError::unchecked(
                    ExitCode::new(c),
                    "injected abort".into(),
                ))),
                Fault::Syscall(n) => Err(InvokeErr::Syscall(n)),
            };
            let tr = ctx.gather_trace(&res, true);
            self.subs.borrow_mut().push(tr);
            return match f {
                Fault::Abort(c) => Ok(Response { exit_code: ExitCode::new(c), return_data: None }),
                Fault::Syscall(n) => Err(SendError(n)),
            };
        }

        let res = ctx.invoke();
        let tr = ctx.gather_trace(&res, false);
        self.subs.borrow_mut().push(tr);
        match res {
            Ok(ret) => Ok(Response { exit_code: ExitCode::OK, return_data: ret }),
            Err(InvokeErr::Actor(mut ae)) => {
                Ok(Response { exit_code: ae.exit_code(), return_data: ae.take_data() })
            }
            Err(InvokeErr::Syscall(n)) => Err(SendError(n)),
        }
    }

    fn get_randomness_from_tickets(
        &self,
        _p: DomainSeparationTag,
        _e: ChainEpoch,
        _entropy: &[u8],
    ) -> Result<[u8; RANDOMNESS_LENGTH], ActorError> {
        Ok(RAND_ARRAY)
    }
    fn get_randomness_from_beacon(
        &self,
        _p: DomainSeparationTag,
        _e: ChainEpoch,
        _entropy: &[u8],
    ) -> Result<[u8; RANDOMNESS_LENGTH], ActorError> {
        Ok(RAND_ARRAY)
    }
    fn get_beacon_randomness(&self, _e: ChainEpoch) -> Result<[u8; RANDOMNESS_LENGTH], ActorError> {
        Ok(RAND_ARRAY)
    }

    fn get_state_root(&self) -> Result<Cid, ActorError> {
        Ok(self.v.actor(self.me()).unwrap().state)
    }

    fn set_state_root(&self, root: &Cid) -> Result<(), ActorError> {
        if self.read_only {
            return Err(ActorError::unchecked(
                ExitCode::USR_READ_ONLY,
                "actor is read-only".to_string(),
            ));
        }
        match self.v.with_actor_mut(self.me(), |a| a.state = *root) {
            Some(()) => Ok(()),
            None => Err(ActorError::unchecked(
                ExitCode::SYS_ASSERTION_FAILED,
                "actor does not exist".to_string(),
            )),
        }
    }

    fn transaction<S, RT, F>(&self, f: F) -> Result<RT, ActorError>
    where
        S: Serialize + DeserializeOwned,
        F: FnOnce(&mut S, &Self) -> Result<RT, ActorError>,
    {
        if self.in_transaction.get() {
            return Err(actor_error!(assertion_failed; "nested transaction"));
        }
        let mut st = self.state::<S>()?;
        self.in_transaction.set(true);
        let result = f(&mut st, self);
        self.in_transaction.set(false);
        let ret = result?;
        if self.read_only {
            // FVM: setting the root in read-only mode fails.
            return Err(ActorError::unchecked(
                ExitCode::USR_READ_ONLY,
                "actor is read-only".to_string(),
            ));
        }
        let root = self.v.put(&st);
        self.v.with_actor_mut(self.me(), |a| a.state = root);
        Ok(ret)
    }

    fn new_actor_address(&self) -> Result<Address, ActorError> {
        let mut b = self.top.origin_stable.to_bytes();
        b.extend_from_slice(&self.top.origin_seq.to_be_bytes());
        b.extend_from_slice(&self.v.addr_counter.get().to_be_bytes());
        Ok(Address::new_actor(&b))
    }

    fn delete_actor(&self) -> Result<(), ActorError> {
        if self.in_transaction.get() {
            return Err(actor_error!(assertion_failed; "delete_actor is not allowed during transaction"));
        }
        if self.read_only {
            return Err(ActorError::unchecked(ExitCode::USR_READ_ONLY, "read-only".into()));
        }
        let me = self.me();
        if !self.v.balance(me).is_zero() {
            return Err(ActorError::unchecked(
                ExitCode::USR_ILLEGAL_STATE,
                "self-destruct with unspent balance".into(),
            ));
        }
        let mut t = self.v.tree.borrow_mut();
        Rc::make_mut(&mut t).actors.remove(&me);
        Ok(())
    }

    fn resolve_builtin_actor_type(&self, code_id: &Cid) -> Option<Type> {
        ACTOR_TYPES.get(code_id).cloned()
    }
    fn get_code_cid_for_type(&self, typ: Type) -> Cid {
        ACTOR_CODES.get(&typ).cloned().unwrap()
    }
    fn total_fil_circ_supply(&self) -> TokenAmount {
        self.top.circ_supply.clone()
    }
    fn charge_gas(&self, _name: &'static str, _compute: i64) {}
    fn base_fee(&self) -> TokenAmount {
        self.v.base_fee.borrow().clone()
    }
    fn gas_available(&self) -> u64 {
        u32::MAX.into()
    }
    fn tipset_timestamp(&self) -> u64 {
        (self.v.epoch() as u64) * 30
    }
    fn tipset_cid(&self, epoch: i64) -> Result<Cid, ActorError> {
        let h = self.hash_blake2b(&epoch.to_be_bytes());
        Ok(Cid::new_v1(IPLD_RAW, multihash_codetable::Multihash::wrap(0xb220, &h).unwrap()))
    }
    fn emit_event(&self, event: &ActorEvent) -> Result<(), ActorError> {
        if self.read_only {
            return Err(ActorError::unchecked(ExitCode::USR_READ_ONLY, "read-only event".into()));
        }
        self.events.borrow_mut().push(event.clone());
        Ok(())
    }
    fn read_only(&self) -> bool {
        self.read_only
    }
}

impl Primitives for InvocationCtx<'_> {
    fn verify_signature(
        &self,
        signature: &Signature,
        signer: &Address,
        plaintext: &[u8],
    ) -> Result<(), anyhow::Error> {
        // Signatures are bound to the signer's key address (DESIGN §2.1).
        let signer_key = match signer.payload() {
            Payload::ID(id) => {
                let a = self.v.actor(*id).ok_or_else(|| anyhow!("no signer"))?;
                self.v.stable_address(*id, &a)
            }
            _ => *signer,
        };
        if signature.bytes == sign(&signer_key, plaintext) {
            Ok(())
        } else {
            Err(anyhow!("invalid signature"))
        }
    }
    fn hash_blake2b(&self, data: &[u8]) -> [u8; 32] {
        self.v.primitives.hash_blake2b(data)
    }
    fn compute_unsealed_sector_cid(
        &self,
        proof_type: RegisteredSealProof,
        pieces: &[PieceInfo],
    ) -> Result<Cid, anyhow::Error> {
        self.v.primitives.compute_unsealed_sector_cid(proof_type, pieces)
    }
    fn hash(&self, hasher: SupportedHashes, data: &[u8]) -> Vec<u8> {
        self.v.primitives.hash(hasher, data)
    }
    fn hash_64(&self, hasher: SupportedHashes, data: &[u8]) -> ([u8; 64], usize) {
        // (the repository's FakePrimitives::hash_64 returns the multihash *code* as the length;
        // the FVM returns the digest length)
        let d = self.v.primitives.hash(hasher, data);
        let mut buf = [0u8; 64];
        buf[..d.len()].copy_from_slice(&d);
        (buf, d.len())
    }
    fn recover_secp_public_key(
        &self,
        hash: &[u8; SECP_SIG_MESSAGE_HASH_SIZE],
        signature: &[u8; SECP_SIG_LEN],
    ) -> Result<[u8; SECP_PUB_LEN], anyhow::Error> {
        self.v.primitives.recover_secp_public_key(hash, signature)
    }
    fn verify_post(&self, verify_info: &WindowPoStVerifyInfo) -> Result<(), anyhow::Error> {
        for proof in &verify_info.proofs {
            if proof.proof_bytes == BAD_PROOF {
                return Err(anyhow!("invalid proof"));
            }
        }
        Ok(())
    }
    fn verify_consensus_fault(
        &self,
        h1: &[u8],
        _h2: &[u8],
        _extra: &[u8],
    ) -> Result<Option<ConsensusFault>, anyhow::Error> {
        if h1.len() == CF_MAGIC.len() + 17 && h1.starts_with(CF_MAGIC) {
            let b = &h1[CF_MAGIC.len()..];
            let target = u64::from_be_bytes(b[0..8].try_into().unwrap());
            let epoch = i64::from_be_bytes(b[8..16].try_into().unwrap());
            let fault_type = match b[16] {
                1 => ConsensusFaultType::DoubleForkMining,
                2 => ConsensusFaultType::ParentGrinding,
                3 => ConsensusFaultType::TimeOffsetMining,
                0xff => return Err(anyhow!("scripted verification error")),
                _ => return Ok(None),
            };
            return Ok(Some(ConsensusFault { target: Address::new_id(target), epoch, fault_type }));
        }
        Ok(None)
    }
    fn batch_verify_seals(&self, batch: &[SealVerifyInfo]) -> anyhow::Result<Vec<bool>> {
        Ok(batch.iter().map(|i| i.proof != BAD_PROOF).collect())
    }
    fn verify_aggregate_seals(
        &self,
        aggregate: &AggregateSealVerifyProofAndInfos,
    ) -> Result<(), anyhow::Error> {
        if aggregate.proof == BAD_PROOF { Err(anyhow!("bad aggregate")) } else { Ok(()) }
    }
    fn verify_replica_update(&self, replica: &ReplicaUpdateInfo) -> Result<(), anyhow::Error> {
        if replica.proof == BAD_PROOF { Err(anyhow!("bad replica proof")) } else { Ok(()) }
    }
}

impl RuntimePolicy for InvocationCtx<'_> {
    fn policy(&self) -> &Policy {
        &self.v.policy
    }
}
