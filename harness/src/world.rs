//! Genesis fixture and principals (DESIGN §2.4).  Total FIL is fixed at genesis; nothing here
//! edits balances or states afterwards.

use crate::simvm::{ActorEntry, MsgResult, SimVM};
use fil_actor_account::State as AccountState;
use fil_actor_cron::{Entry as CronEntry, State as CronState};
use fil_actor_datacap::State as DataCapState;
use fil_actor_init::{ExecParams, ExecReturn, State as InitState};
use fil_actor_market::{Method as MarketMethod, State as MarketState};
use fil_actor_power::{CreateMinerParams, CreateMinerReturn, Method as PowerMethod, State as PowerState};
use fil_actor_reward::State as RewardState;
use fil_actor_system::State as SystemState;
use fil_actor_verifreg::State as VerifRegState;
use fil_actors_runtime::runtime::{EMPTY_ARR_CID, Policy};
use fil_actors_runtime::test_utils::*;
use fil_actors_runtime::*;
use fvm_ipld_encoding::RawBytes;
use fvm_ipld_encoding::ipld_block::IpldBlock;
use fvm_shared::address::Address;
use fvm_shared::bigint::Zero;
use fvm_shared::econ::TokenAmount;
use fvm_shared::sector::{RegisteredPoStProof, RegisteredSealProof, StoragePower};
use fvm_shared::{ActorID, METHOD_SEND, MethodNum};
use serde::Serialize;

pub const ROOT_KEY: [u8; 48] = [200; 48];
pub const FAUCET_KEY: [u8; 48] = [153; 48];

pub struct World {
    pub v: SimVM,
    pub faucet: ActorID,
    pub root_signer: ActorID,
    pub root_msig: ActorID,
    pub genesis_total: TokenAmount,
}

pub fn policy_with_small_sectors() -> Policy {
    let mut p = Policy::default();
    // documented devnet proof types are compiled in through the sector-2k / sector-8m features
    p.valid_pre_commit_proof_type.insert(RegisteredSealProof::StackedDRG2KiBV1P1);
    p.valid_pre_commit_proof_type.insert(RegisteredSealProof::StackedDRG8MiBV1P1);
    p.valid_post_proof_type.insert(RegisteredPoStProof::StackedDRGWindow2KiBV1P1);
    p.valid_post_proof_type.insert(RegisteredPoStProof::StackedDRGWindow8MiBV1P1);
    p
}

pub fn params<T: Serialize>(t: &T) -> Option<IpldBlock> {
    IpldBlock::serialize_cbor(t).unwrap()
}

pub fn key_addr(seed: u16) -> Address {
    let mut k = [0u8; 48];
    k[0] = 0x42;
    k[1] = (seed >> 8) as u8;
    k[2] = seed as u8;
    for (i, b) in k.iter_mut().enumerate().skip(3) {
        *b = (seed as u8).wrapping_mul(31).wrapping_add(i as u8);
    }
    Address::new_bls(&k).unwrap()
}

impl World {
    pub fn new(policy: Policy) -> World {
        Self::new_with(policy, TokenAmount::from_whole(1_100_000_000i64))
    }

    /// `reward_total`: what the reward actor holds at genesis (small values reach the 'pays only what it holds' branch)
    pub fn new_with(policy: Policy, reward_total: TokenAmount) -> World {
        let faucet_total = TokenAmount::from_whole(900_000_000i64);
        let v = SimVM::new(policy);
        *v.circ_supply.borrow_mut() = &reward_total + &faucet_total;
        let ent = |code, state, balance: TokenAmount| ActorEntry {
            code,
            state,
            sequence: 0,
            balance,
            delegated: None,
        };
        let sys_head = v.put(&SystemState::new(&v.store).unwrap());
        // the system actor keeps 50M FIL of its own: the source of gas rewards in AwardBlockReward messages
        let system_total = &faucet_total + TokenAmount::from_whole(50_000_000i64);
        v.set_actor(SYSTEM_ACTOR_ID, ent(*SYSTEM_ACTOR_CODE_ID, sys_head, system_total));
        let init_head = v.put(&InitState::new(&v.store, "verif".to_string()).unwrap());
        v.set_actor(INIT_ACTOR_ID, ent(*INIT_ACTOR_CODE_ID, init_head, TokenAmount::zero()));
        let reward_head = v.put(&RewardState::new(StoragePower::zero()));
        v.set_actor(REWARD_ACTOR_ID, ent(*REWARD_ACTOR_CODE_ID, reward_head, reward_total.clone()));
        let cron_head = v.put(&CronState {
            entries: vec![
                CronEntry {
                    receiver: STORAGE_POWER_ACTOR_ADDR,
                    method_num: PowerMethod::OnEpochTickEnd as u64,
                },
                CronEntry {
                    receiver: STORAGE_MARKET_ACTOR_ADDR,
                    method_num: MarketMethod::CronTick as u64,
                },
            ],
        });
        v.set_actor(CRON_ACTOR_ID, ent(*CRON_ACTOR_CODE_ID, cron_head, TokenAmount::zero()));
        let power_head = v.put(&PowerState::new(&v.store).unwrap());
        v.set_actor(STORAGE_POWER_ACTOR_ID, ent(*POWER_ACTOR_CODE_ID, power_head, TokenAmount::zero()));
        let market_head = v.put(&MarketState::new(&v.store).unwrap());
        v.set_actor(STORAGE_MARKET_ACTOR_ID, ent(*MARKET_ACTOR_CODE_ID, market_head, TokenAmount::zero()));
        v.set_actor(EAM_ACTOR_ID, ent(*EAM_ACTOR_CODE_ID, EMPTY_ARR_CID, TokenAmount::zero()));
        let burnt_head = v.put(&AccountState { address: BURNT_FUNDS_ACTOR_ADDR });
        v.set_actor(BURNT_FUNDS_ACTOR_ID, ent(*ACCOUNT_ACTOR_CODE_ID, burnt_head, TokenAmount::zero()));

        // root signer, root multisig
        let root_key = Address::new_bls(&ROOT_KEY).unwrap();
        let r = v.execute(SYSTEM_ACTOR_ID, &root_key, &TokenAmount::zero(), METHOD_SEND, None);
        assert!(r.ok(), "{}", r.message);
        let root_signer = v.resolve(&root_key).unwrap();
        let msig_ctor = RawBytes::serialize(&fil_actor_multisig::ConstructorParams {
            signers: vec![Address::new_id(root_signer)],
            num_approvals_threshold: 1,
            unlock_duration: 0,
            start_epoch: 0,
        })
        .unwrap();
        let r = v.execute(
            SYSTEM_ACTOR_ID,
            &INIT_ACTOR_ADDR,
            &TokenAmount::zero(),
            fil_actor_init::Method::Exec as u64,
            params(&ExecParams { code_cid: *MULTISIG_ACTOR_CODE_ID, constructor_params: msig_ctor }),
        );
        assert!(r.ok(), "{}", r.message);
        let ret: ExecReturn = r.de().unwrap();
        let root_msig = ret.id_address.id().unwrap();
        let verifreg_head =
            v.put(&VerifRegState::new(&v.store, Address::new_id(root_msig)).unwrap());
        v.set_actor(
            VERIFIED_REGISTRY_ACTOR_ID,
            ent(*VERIFREG_ACTOR_CODE_ID, verifreg_head, TokenAmount::zero()),
        );
        let datacap_head =
            v.put(&DataCapState::new(&v.store, VERIFIED_REGISTRY_ACTOR_ADDR).unwrap());
        v.set_actor(
            DATACAP_TOKEN_ACTOR_ID,
            ent(*DATACAP_TOKEN_ACTOR_CODE_ID, datacap_head, TokenAmount::zero()),
        );
        // faucet
        let faucet_key = Address::new_bls(&FAUCET_KEY).unwrap();
        let r = v.execute(SYSTEM_ACTOR_ID, &faucet_key, &faucet_total, METHOD_SEND, None);
        assert!(r.ok(), "{}", r.message);
        let faucet = v.resolve(&faucet_key).unwrap();
        let genesis_total = v.total_balance();
        World { v, faucet, root_signer, root_msig, genesis_total }
    }

    /// Create (or top up) an account by a bare send from the faucet.
    pub fn account(&self, seed: u16, funds: &TokenAmount) -> ActorID {
        let addr = key_addr(seed);
        let r = self.v.execute(self.faucet, &addr, funds, METHOD_SEND, None);
        assert!(r.ok(), "account creation failed: {}", r.message);
        self.v.resolve(&addr).unwrap()
    }

    pub fn call<T: Serialize>(
        &self,
        from: ActorID,
        to: ActorID,
        method: MethodNum,
        value: &TokenAmount,
        p: &T,
    ) -> MsgResult {
        self.v.execute(from, &Address::new_id(to), value, method, params(p))
    }

    pub fn call_raw(
        &self,
        from: ActorID,
        to: ActorID,
        method: MethodNum,
        value: &TokenAmount,
        p: Option<IpldBlock>,
    ) -> MsgResult {
        self.v.execute(from, &Address::new_id(to), value, method, p)
    }

    /// Real miner creation path (power.CreateMiner with the deposit attached).
    pub fn create_miner(
        &self,
        owner: ActorID,
        worker: ActorID,
        post_proof: RegisteredPoStProof,
        value: &TokenAmount,
    ) -> Result<(ActorID, Address), MsgResult> {
        let p = CreateMinerParams {
            owner: Address::new_id(owner),
            worker: Address::new_id(worker),
            window_post_proof_type: post_proof,
            peer: b"peer".to_vec(),
            multiaddrs: vec![],
        };
        let r = self.call(owner, STORAGE_POWER_ACTOR_ID, PowerMethod::CreateMiner as u64, value, &p);
        if !r.ok() {
            return Err(r);
        }
        let ret: CreateMinerReturn = r.de().unwrap();
        Ok((ret.id_address.id().unwrap(), ret.robust_address))
    }

    pub fn cron_tick(&self) -> MsgResult {
        self.v.execute(
            SYSTEM_ACTOR_ID,
            &CRON_ACTOR_ADDR,
            &TokenAmount::zero(),
            fil_actor_cron::Method::EpochTick as u64,
            None,
        )
    }

    /// Run the tick at the current epoch and move to the next one; returns the tick result.
    pub fn tick_and_advance(&self) -> MsgResult {
        let r = self.cron_tick();
        self.v.set_epoch(self.v.epoch() + 1);
        r
    }
}
