#!/usr/bin/env python3
"""Print the sub-agent prompt for a property id and worktree (property text only; nothing from /verif's machinery)."""
import json, sys
pid, wt = sys.argv[1], sys.argv[2]
p = next(json.loads(l) for l in open('/verif/properties.jsonl') if json.loads(l)['id'] == pid)
print(f"""You are working on a scratch git worktree of the Rust repository filecoin-project/builtin-actors at {wt} (Filecoin's on-chain built-in actors). Work ONLY inside {wt}; do not read or touch /repo or /verif. The sandbox is offline: always run cargo with --offline (CARGO_NET_OFFLINE=true). To save disk and time, build/test only the crates you need (e.g. `cargo test --offline -p <crate>`), not the whole workspace unless needed; set CARGO_TARGET_DIR={wt}/target.

Here is a semantic property the code base is supposed to satisfy:

TITLE: {p['title']}
STATEMENT: {p['statement']}
QUANTIFIED OVER: {p['quantifier']['text']}
RELEVANT FILES: {', '.join(p['anchors']['files'])}

Your task: produce ONE realistic code change (a plausible bug a maintainer could introduce: an off-by-one, a missing update, a swapped operand, a dropped check, a wrong ordering, two sites that each look fine alone) to the non-test source code in {wt} that BREAKS this property, while (1) the workspace still compiles, and (2) the EXISTING tests of the crates you touched (and `integration_tests`/`test_vm` tests if your change affects actors they exercise: run `cargo test --offline -p test_vm` too) still pass unedited. The change must need something SPECIFIC to manifest -- a particular multi-step sequence of operations, an unusual input or boundary value, a failure at a particular point, a particular interleaving, or two cooperating sites -- not something that ordinary use would expose at once. Prefer subtle over blatant. Do not change any existing test. Do not add cfg flags or features.

Also write a demonstration: a NEW test file (e.g. under the affected crate's tests/ directory or in integration_tests/test_vm tests) that FAILS with your change applied and PASSES without it (verify both directions yourself with `git stash` or by reverting). The demonstration must exercise the real actor code (MockRuntime or the TestVM are both fine).

Deliver, inside {wt}:
 - the source change left applied in the working tree (not committed), with the demonstration test file added (untracked is fine);
 - a file {wt}/SEEDED.md describing: which file/function you changed and why it breaks the property, what specific circumstances are needed for it to manifest, the exact commands you ran (existing tests passing with the change; demo failing with the change and passing without), and the name of the demonstration test.
Keep the change small (a few lines). When finished, reply with a short summary: changed file(s), the trigger conditions, the demo test name and command.""")
