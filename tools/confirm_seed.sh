#!/bin/bash
# confirm_seed.sh <name> <worktree> <crate> <demo-test-target> <property> "<needs>" : confirm demo fails with change / passes without, crate tests pass with change; write meta.json; remove worktree.
NAME=$1; WT=$2; CRATE=$3; DEMO=$4; PROP=$5; NEEDS=$6
D=/verif/seeded/$NAME
cd $WT || exit 3
export CARGO_NET_OFFLINE=true CARGO_TARGET_DIR=$WT/target
cargo test --offline -p $CRATE --test $DEMO > $D/demo_with_change.txt 2>&1; with=$?
cargo test --offline -p $CRATE > $D/crate_tests_with_change.txt 2>&1; suite=$?
# the existing tests excluding the demo
git diff > /tmp/$NAME.diff; git apply -R /tmp/$NAME.diff
cargo test --offline -p $CRATE --test $DEMO > $D/demo_without_change.txt 2>&1; without=$?
git apply /tmp/$NAME.diff
existing_fail=$(grep -E "^test .* FAILED" $D/crate_tests_with_change.txt | grep -v -f <(grep -E "^test " $D/demo_with_change.txt | awk '{print $2}') | wc -l)
checkrc=$(grep -c VIOLATION $D/check_output.txt)
python3 - <<PY
import json
json.dump({
 "property": "$PROP",
 "breaks": open("$D/SEEDED.md").read()[:1500] if __import__('os').path.exists("$D/SEEDED.md") else "",
 "needs_to_manifest": """$NEEDS""",
 "confirmed": {
   "demo_with_change_exit": $with, "demo_without_change_exit": $without,
   "crate_suite_with_change_exit": $suite, "existing_tests_failing_with_change": $existing_fail,
   "commands": ["cargo test --offline -p $CRATE --test $DEMO (with change: must fail; without: must pass)", "cargo test --offline -p $CRATE (with change; only the demo may fail)", "/verif/check $PROP with patch applied to /repo, then git checkout"],
 },
 "detected_by_check": $checkrc > 0,
}, open("$D/meta.json","w"), indent=1)
PY
for f in $D/demo_with_change.txt $D/demo_without_change.txt; do grep -E "test result" $f | tail -1; done
echo "with=$with without=$without suite=$suite existing_fail=$existing_fail"
cd /; git -C /repo worktree remove --force $WT
