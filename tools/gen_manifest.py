#!/usr/bin/env python3
"""Regenerates /verif/MANIFEST.json from the table below (keeps it schema-valid)."""
import json, os, sys
ROOT = os.path.dirname(os.path.dirname(os.path.abspath(__file__)))

# id -> (technique, level text, level note, design ref)
CHECKS = {
 "C01": ("property-based testing (proptest, stateful op sequences with injected nested-send failures): conservation and solvency invariants recomputed from the state tree",
         "Seeded random exploration of system histories (real miners created through power.CreateMiner, pre-commit / ProveCommitSectors3 / Window PoSt / faults / recoveries / terminations / extensions / rewards with penalties / withdrawals / disputes / consensus-fault reports / top-ups, cron tick at every epoch, failures injected into nested sends of messages and ticks); after every message and tick: sum of all balances == genesis total (burning only moves FIL to f099, which never sends), each miner's balance >= pre-commit deposits + vesting funds + initial pledge, the market's balance >= its escrow total, no actor reports 'balance invariants broken', nothing panics, every completed call validated its caller. SimVM refuses transfers above the sender's balance like the FVM, so the reward actor cannot pay more than it holds without the message failing visibly (a failed reward payout inside a successful message is reported). Market escrow solvency under deal traffic and payment-channel solvency are explored by the same inequalities inside the C06 and C16 engines.",
         "Trusted: SimVM semantics (FVM-style transfers/rollback, syscall errors, call-depth limit); marker-controlled fake proofs and constant randomness; cron tick run at every epoch; histories of ≤100 ops over ≤4 miners and about a week of chain time per case in the quick tier.",
         "§3 C01"),
 "C02": ("property-based testing (proptest, stateful op sequences): per-sector power formula recomputed from sectors and compared with partition/deadline/claim/network totals",
         "Same generated system histories, biased to PoSt with skipped sets, fault/recovery declarations, missed deadlines at exact boundaries, terminations, extensions and bulk onboarding; after every message and tick each miner's claim in the power actor must equal the sum of the independently recomputed raw/QA power of its sectors that are proven (not in an unproven set), not faulty, not terminated; the network raw/QA totals must equal the sums of claims under the consensus-minimum rule (mainnet and documented devnet minimums, incl. the 'fewer than N miners above minimum' regime); sectors of a partition in a deadline that closed without a covering proof must hold no power from that deadline's end; no sector stays live past the deadline end at which its expiration or fault time-out is due (42-day and, in the thorough tier, 180-day stretches of chain time are generated).",
         "Trusted: SimVM semantics (FVM-style transfers/rollback, syscall errors, call-depth limit); marker-controlled fake proofs and constant randomness; cron tick run at every epoch; histories of ≤100 ops over ≤4 miners and about a week of chain time per case in the quick tier. Verified-deal weight is always zero in this engine (QA power == raw power x 10 / 10).",
         "§3 C02"),
 "C03": ("property-based testing (proptest, stateful op sequences): collateral ledgers recomputed from sectors, pre-commits and the vesting table",
         "Same generated system histories with rewards, penalties, withdrawals and terminations; after every message and tick: recorded initial pledge == sum of pledge of live sectors + sectors awaiting early-termination processing, pre-commit deposit total == sum of outstanding pre-commit deposits, locked funds == sum of the vesting table, all non-negative; power actor's total pledge collateral + creation deposits == sum over miners of (initial pledge + locked funds) [shifted equation because of known finding create-miner-deposit-missing-from-pledge-total], never negative; an operation valid for the miner never fails with the pledge-total error.",
         "Trusted: SimVM semantics (FVM-style transfers/rollback, syscall errors, call-depth limit); marker-controlled fake proofs and constant randomness; cron tick run at every epoch; histories of ≤100 ops over ≤4 miners and about a week of chain time per case in the quick tier. The unshifted equation does not hold on the pinned tree (known finding, see known_findings.json); a large idle 'cushion' miner keeps the recorded total non-negative so that the search continues past it.",
         "§3 C03"),
 "C04": ("property-based testing (proptest, stateful op sequences): partition/deadline/expiration-queue summaries recomputed from individual sectors",
         "Same generated system histories, biased to bulk onboarding (>=94 sectors so that deadlines hold several partitions), compaction, faults, recoveries, terminations, extensions; after every message and tick: allocated-sector bitfield only grows and covers every sector ever pre-committed/proven, a pre-commitment naming an already allocated number is never accepted, every on-chain sector sits in exactly one partition of one deadline, faults/recoveries/unproven/terminated sets nest and exclude as defined, per-partition live/unproven/faulty/recovering power, per-deadline live/total sector counts, faulty power and daily fee, and every expiration-queue entry (on-time/early sets, pledge, active/faulty power, fee deduction) equal a recomputation from the sectors; early-termination queues reference terminated sectors only.",
         "Trusted: SimVM semantics (FVM-style transfers/rollback, syscall errors, call-depth limit); marker-controlled fake proofs and constant randomness; cron tick run at every epoch; histories of ≤100 ops over ≤4 miners and about a week of chain time per case in the quick tier.",
         "§3 C04"),
 "C05": ("property-based testing (proptest, stateful op sequences with failures injected beneath cron callbacks): cron totality and scheduling invariants",
         "Same generated system histories with the tick executed at every epoch and failures injected into sends beneath cron callbacks; every tick and every callback in its trace must succeed or be tolerated without dropping a miner's claim, nothing may panic, no message may report 'balance invariants broken'; a miner with sectors, deposits or vesting funds must have exactly one pending deadline callback in the power actor's queue and its recorded deadline must contain the next epoch after each tick [idle miners holding only vesting funds are exempt: known finding vesting-funds-without-deadline-cron]; expirations and fault time-outs due at a deadline end must be gone from the queues after that tick, and while early terminations are pending a processing event must be scheduled for the next epoch.",
         "Trusted: SimVM semantics (FVM-style transfers/rollback, syscall errors, call-depth limit); marker-controlled fake proofs and constant randomness; cron tick run at every epoch; histories of ≤100 ops over ≤4 miners and about a week of chain time per case in the quick tier. 'Eventually' clauses are checked as bounded response (by the deadline end / an event scheduled for the next epoch); 180-day on-time expirations are reached only in the thorough tier.",
         "§3 C05"),
 "C15": ("property-based testing (proptest, stateful op sequences with injected nested-send failures): per-step charge accounting against a recomputed fee schedule",
         "Same generated system histories, biased to faults, skipped sectors, missed deadlines, terminations, PoSts with invalid proofs followed by disputes inside/outside the dispute window, consensus-fault reports, block penalties, 42-day stretches (fault time-outs, expired pre-commitments) and failures injected into nested sends; for every message and tick and every miner: (fee-debt delta + value burnt by the miner + value paid to the reporter) must equal the charges recomputed from the previous state view: deposits of pre-commitments that expired, continued-fault fee for the power already faulty when the deadline closed, capped daily fee of the live sectors, FIP-0098 termination fee (>= 2% of pledge, written from the specification) for every early-termination entry processed, 3x block penalty, consensus-fault penalty (one epoch reward; reporter share <= 1/20 and <= what was taken), dispute penalty (projection + 20 FIL + 4 FIL reporter reward, two-sided bound on the disputed power); nothing is charged by any other method; penalties are never negative; after a successful WithdrawBalance / PreCommitSectorBatch2 / DeclareFaultsRecovered the fee debt is zero.",
         "Trusted: SimVM semantics (FVM-style transfers/rollback, syscall errors, call-depth limit); marker-controlled fake proofs and constant randomness; cron tick run at every epoch; histories of ≤100 ops over ≤4 miners and about a week of chain time per case in the quick tier. The repo's pure 'expected reward for power' projection is used as a primitive and is itself banded (2e-3 relative) by a floating-point integral of the linear estimates where these are well-conditioned. Steps in which the network's smoothed QA power estimate has decayed to zero (all power gone for weeks; the projection degenerates to one epoch reward for any power) are outside the domain, skipped and counted.",
         "§3 C15"),
 "C10": ("property-based testing (proptest, stateful op sequences): registry claims vs. sector records recomputed after every step (subset-sum backing oracle)",
         "Same generated system histories with a verified client: datacap allocations to real miners (piece sizes from 1 MiB to the sector size, terms/expiry at and around the policy limits), pre-commitments whose unsealed CID commits to the planned pieces, ProveCommitSectors3 activating them (claims through the registry), ExtendSectorExpiration2 with maintained / dropped / missing / foreign claims aimed at add-days, the claims' term end -2..+2 and the last 30 days of the sector's life, ExtendClaimTerms by client or stranger (incl. decreases), RemoveExpiredClaims/Allocations by anyone; after every message and tick, for every live sector with verified weight: weight is an exact multiple of (expiration - power base), the implied space <= sector size, and some subset of the registry's claims for that provider+sector adds up to that space with every member started at/after the activation and allowing the expiration within [term_min, term_max]; verified space shrinks only through an extension made within the final 30 days and never grows; claim term_max never decreases, claims vanish only after their term ended, allocations vanish only by a matching claim at/before expiration or after expiration; ids are never reused. The QA power that the weight implies is judged by the C02 clause group in the same engine.",
         "Trusted: SimVM semantics (FVM-style transfers/rollback, syscall errors, call-depth limit); marker-controlled fake proofs and constant randomness; cron tick run at every epoch; histories of ≤100 ops over ≤4 miners and about a week of chain time per case in the quick tier. Market-mediated (deal) allocations are not generated; direct allocations exercise the same registry and miner paths.",
         "§3 C10"),
 "C13": ("model-based property testing (proptest, stateful op sequences): three reference state machines (owner, worker key, beneficiary) + capability probes",
         "Generated control histories on a real miner (optionally cron-active, optionally multisig-owned) with 8 principals: ChangeOwnerAddress by anyone naming anyone, ChangeWorkerAddress with control sets, ConfirmChangeWorkerAddress, ChangeBeneficiary proposals/approvals with matching or mismatching quota/expiry incl. back-to-owner, withdrawals, epoch advances to the worker-key delay and beneficiary expiry -1/0/+1; after every message owner/worker/controls/beneficiary/pending records must equal the reference machines, an accepted call the protocol forbids is a violation, and capability probes on a snapshot must succeed exactly for the model's right holders.",
         "Trusted: SimVM; principals are account actors or a multisig. An implementation rejecting what the model allows is labelled, not reported.",
         "§3 C13"),
 "C14": ("property-based testing (proptest, stateful op sequences): vesting-table reference model + withdrawal entitlement oracle",
         "Same generated system histories biased to rewards, penalties, withdrawals by owner/worker/stranger and day-scale advances; the vesting table is mirrored by a reference model (each locked amount vests in 180 daily steps starting the day after, quantised to the miner's proving-period offset); after every message and tick: locked funds may decrease only by what has vested by now or by penalties actually paid (burn + reporter share), the sum unlocked per schedule equals the locked amount exactly, each successful withdrawal pays exactly min(requested, balance - locked - deposits - pledge - fee debt [after repaying debt in full]), only to the beneficiary, only on request of owner/beneficiary, within quota/expiry, never while early terminations are pending.",
         "Trusted: SimVM semantics (FVM-style transfers/rollback, syscall errors, call-depth limit); marker-controlled fake proofs and constant randomness; cron tick run at every epoch; histories of ≤100 ops over ≤4 miners and about a week of chain time per case in the quick tier. Beneficiary quota/expiry clauses are exercised mainly by the C13 engine's withdrawal probes.",
         "§3 C14"),
 "C12": ("property-based testing (proptest, stateful op sequences) against a trace-driven reference wallet model",
         "Seeded random exploration of generated multisig histories (propose/approve/cancel, signer/threshold/lock changes through the wallet, re-entrant self-calls, a second multisig as signer, epoch advances) on the real actor in SimVM; after every message the wallet state must equal an independent reference model advanced by the invocation trace, every send must be a pending transaction with a quorum of distinct current signers, sent once, never dipping into the locked amount. Exploration is the right level: the property quantifies over unbounded histories and the oracle is exact per history.",
         "Trusted: SimVM's message semantics (transfer-before-call, rollback of failed calls, call-depth limit 1024), CBOR decoding with the actor's parameter types, ID-address signers only. No Wasm/gas.",
         "§3 C12"),
 "C16": ("property-based testing (proptest, stateful op sequences) against a reference payment-channel model",
         "Seeded random exploration of voucher/settle/collect histories (lanes, relative nonces, merges, time locks, secrets, min settle heights, extra calls, good/foreign/missing signer-bound signatures, any submitter, epoch jumps around settling_at, top-ups) on the real actor in SimVM incl. real Collect with actor deletion; after every message the channel state must equal an independent reference model, a voucher accepted although the protocol forbids it is a violation, and Collect must make exactly the two exact payouts. Exploration: unbounded histories, exact oracle per history.",
         "Trusted: SimVM semantics, fake but signer-bound signatures, account-actor parties. Merge lists naming one lane twice judged by safety clauses only.",
         "§3 C16"),
 "C06": ("property-based testing (proptest, stateful op sequences) against an independent deal-ledger model + recomputed sums",
         "Seeded random exploration of market histories (deposits, withdrawals by any caller for any party and amount, publish batches with valid/duplicate/unfunded/bad-signature/foreign-provider deals, both activation paths, partial settlements, terminations, market cron, epoch jumps to deal boundaries) over 3 clients and 2 real miners; after every message the locked table must equal the obligations recomputed from the model's deals, locked<=escrow, market totals == per-deal sums, escrow total <= balance, burns == forfeited collateral, and every successful withdrawal must be exactly min(requested, escrow-locked), by an approved caller, paid once to the party/owner.",
         "Trusted: SimVM semantics; market addressed as the real miner actors by implicit messages; fake signer-bound signatures; constant circulating supply; sparse epochs with market.CronTick invoked as cron.",
         "§3 C06"),
 "C07": ("property-based testing with a closed-form oracle and a metamorphic relation over settlement schedules",
         "For generated deal shapes (plus 0-2 bystander deals of the same provider) and 2-3 generated schedules of settlement calls and cron ticks placed relative to the deal's start/end/processing epoch, with a common optional termination epoch, every schedule runs on a fresh world; each settlement must pay exactly price x epochs since the last payment point, the totals must equal the closed form (price x (min(end,T)-start)+, refund, collateral returned or burnt) and the final ledgers must be identical across schedules.",
         "Trusted: as C06. The deal-ledger model mirrors the market's cron scheduling (processing epoch = first epoch >= start congruent to the deal id modulo 30 days).",
         "§3 C07"),
 "C08": ("property-based testing (proptest, stateful op sequences) against a registry model of proposals, ids and activations",
         "Seeded random exploration biased to publication and activation: exact re-publications, in-batch duplicates, bad/foreign signatures, unfunded parties, foreign providers, both activation paths with repeated ids, foreign miner, short-lived sectors, late activation, wrong piece, racing cron/settlement at the start epoch; a deal accepted or activated although the protocol forbids it is a violation; ids must be sequential and never reused; a deal is activated at most once; time-outs must refund the client and burn the provider collateral, never before the start epoch and certainly by the tick at the processing epoch.",
         "Trusted: as C06. Re-publication of a proposal identical to a live, already activated deal is treated as a grey zone (model mirrors the code; history abandoned on disagreement).",
         "§3 C08"),
 "C09": ("property-based testing (proptest, stateful op sequences) with token/allocation ledger equations recomputed from the state tree",
         "Seeded random exploration of Fil+ histories (verifier add/remove via the root multisig, grants at/over the allowance, datacap transfers with allocation/extension requests at and beyond policy limits and with mismatching amounts, claim batches sent as the real miner actors with repeated/foreign/mismatched/expired entries and all-or-nothing, expired-allocation/claim removal, term extensions, signed datacap removal with good/stale/garbage signatures, holder transfers and burns, epoch jumps); after every message: supply == sum of balances, per-holder balance deltas and supply delta equal what the operation entitles (mint - new allocations - extension spend + refunds - destroys - burns - claimed sizes), registry balance == sum of open allocation sizes, every allocation ends exactly once (claimed by its provider with matching data within expiration/term, or refunded at/after expiration), ids never reused, claim term_max never decreases, claims vanish only after expiry.",
         "Trusted: SimVM semantics; ClaimAllocations sent as the miner actors by implicit messages; fake signer-bound signatures. Market-mediated allocations (verified deals) are not generated in this engine yet.",
         "§3 C09"),
 "C17": ("differential property-based testing (proptest) of the EVM actor against an independent reference interpreter",
         "Generated single instructions with boundary-biased 256-bit operands and generated multi-instruction programs (loops, conditional jumps, fake jump targets, memory expansion incl. 32-bit boundary offsets, persistent/transient storage, copies, hashing, all endings) over random call data are deployed through the real EAM path and invoked through InvokeContract; outcome class, return/revert data and the final storage of every touched slot must equal what harness/src/evmref.rs (Yellow Paper + EIPs on num-bigint) computes.",
         "Trusted: the reference interpreter; SimVM; verif-hooks fuel/memory cap in place of gas (exhausted cases discarded and counted). Gas-dependent opcodes, precompiles, calls and logs are outside the compared subset.",
         "§3 C17"),
 "C18": ("property-based testing (proptest): totality on arbitrary byte programs + differential limit programs + static-context scripts",
         "Arbitrary token/byte strings (opcodes incl. CALL/CREATE/LOG families, pushes of live, reserved and unknown addresses, raw bytes) are deployed as runtime code or run as init code and invoked with random call data, directly and beneath 1-3 nested STATICCALL wrappers; no invocation anywhere in the trace may panic, exit codes must be success/revert/defined failures, and a message made only of static calls must leave every actor's state root and balance unchanged and emit no event. Limit programs (1018-1029 stack pushes then environment opcodes, jumps into PUSH data / non-JUMPDEST / out of range / beyond 32 bits, memory offsets around 2^32) are compared with the reference interpreter; static-heavy scripts with the journal model.",
         "Trusted: SimVM (catches panics, enforces read-only at the syscall layer like the FVM), reference interpreter and journal model, verif-hooks fuel/memory cap.",
         "§3 C18"),
 "C19": ("model-based property testing (proptest): generated multi-contract call trees compiled to bytecode, compared with an independent journal model",
         "Generated systems of 2-4 contracts and 1-4 top-level messages from two senders with aligned nonces; each message is a tree of activations (CALL/STATICCALL/DELEGATECALL incl. re-entrant and self calls, value, SSTORE/TSTORE/SLOAD/TLOAD, LOG, CREATE/CREATE2 with succeeding/reverting/failing/self-destructing constructors, calls into created contracts, SELFDESTRUCT, RETURN/REVERT/INVALID) compiled by the harness to bytecode and executed through the real EAM/EVM actors; nested report buffers (success flags, return data, values read before/after calls), final storage, balances, code liveness and events must equal the journal model's prediction after every message.",
         "Trusted: the journal model in harness/src/engines/evmsys.rs, the harness's RLP/Keccak address formulas, SimVM, verif-hooks.",
         "§3 C19"),
 "C20": ("model-based property testing (proptest) with a registry model of ids, addresses, codes and nonces",
         "Generated identity histories (init.Exec of every code kind directly and through a multisig, Exec4 / EAM.Create / Create2 called directly, CreateExternal from native and Ethereum accounts with all constructor endings, auto-created accounts and placeholders incl. at a future contract address, placeholder-originated messages, CreateMiner, a payment channel deleted by Collect) and creation-heavy contract scripts (CREATE/CREATE2 with colliding salts, self-destruct, resurrection); after every message ids are fresh and >= next_id, the address map only grows and never remaps (also after deletion), code changes only placeholder->EVM/EthAccount, delegated addresses are unique/unreserved/mapped, contract nonces are monotone, only permitted creator/code pairs succeed, and every returned Ethereum address equals the harness's own CREATE/CREATE2 computation.",
         "Trusted: SimVM's robust-address derivation (origin, nonce, per-message counter), harness address formulas.",
         "§3 C20"),
}
PENDING_REASON = "check not built yet in this session (engine planned in DESIGN.md §3); not claimed until it runs silently on the unchanged tree and kills its mutants"

def main():
    props = [json.loads(l) for l in open(os.path.join(ROOT, "properties.jsonl"))]
    checks = []
    na = []
    for p in props:
        pid = p["id"]
        if pid in CHECKS:
            tech, text, note, ref = CHECKS[pid]
            checks.append({
                "property_id": pid,
                "quick_cmd": f"./check {pid} --tier quick",
                "thorough_cmd": f"./check {pid} --tier thorough",
                "evidence_file": f"/verif/evidence/{pid}.json",
                "replay_cmd_template": f"./check {pid} --replay {{path}}",
                "engine": "verif-harness",
                "level_claimed": {"category": "exploration", "text": text, "design_ref": ref},
                "level_note": note,
                "technique": tech,
            })
        else:
            na.append({"property_id": pid, "reason": NA.get(pid, PENDING_REASON)})
    m = {
        "version": 1,
        "setup_cmd": "cd /verif/harness && CARGO_NET_OFFLINE=true cargo build --release --offline",
        "hooks": {
            "guard": "verif-hooks (cargo feature on crate fil_actor_evm, default off)",
            "enable": "/verif/harness/Cargo.toml depends on /repo/actors/evm with features = [\"verif-hooks\"] (execution fuel + memory cap); everything else is built without hooks",
            "baseline_off_cmd": "cd /repo && cargo test --workspace --no-fail-fast --offline",
            "source_commits": ["15461b3"],
            "add_only": True,
        },
        "engines": [
            {"name": "verif-harness", "path": "/verif/harness", "serves_properties": sorted(CHECKS),
             "kind_free_text": "Rust binary: SimVM (in-process VM running the real actors natively) + proptest-driven engines with reference-model / recomputed-invariant / metamorphic oracles"},
        ],
        "checks": checks,
        "not_applicable": na,
        "notes": "All checks honour VERIF_SEED / VERIF_TIER; exit 0 held, 1 VIOLATION, 2 inconclusive. See DESIGN.md.",
    }
    json.dump(m, open(os.path.join(ROOT, "MANIFEST.json"), "w"), indent=1)
    print("claimed:", [c["property_id"] for c in checks])

NA = {}
if __name__ == "__main__":
    main()
