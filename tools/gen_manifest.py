#!/usr/bin/env python3
"""Regenerates /verif/MANIFEST.json from the table below (keeps it schema-valid)."""
import json, os, sys
ROOT = os.path.dirname(os.path.dirname(os.path.abspath(__file__)))

# id -> (technique, level text, level note, design ref)
CHECKS = {
 "C12": ("property-based testing (proptest, stateful op sequences) against a trace-driven reference wallet model",
         "Seeded random exploration of generated multisig histories (propose/approve/cancel, signer/threshold/lock changes through the wallet, re-entrant self-calls, a second multisig as signer, epoch advances) on the real actor in SimVM; after every message the wallet state must equal an independent reference model advanced by the invocation trace, every send must be a pending transaction with a quorum of distinct current signers, sent once, never dipping into the locked amount. Exploration is the right level: the property quantifies over unbounded histories and the oracle is exact per history.",
         "Trusted: SimVM's message semantics (transfer-before-call, rollback of failed calls, call-depth limit 1024), CBOR decoding with the actor's parameter types, ID-address signers only. No Wasm/gas.",
         "§3 C12"),
 "C16": ("property-based testing (proptest, stateful op sequences) against a reference payment-channel model",
         "Seeded random exploration of voucher/settle/collect histories (lanes, relative nonces, merges, time locks, secrets, min settle heights, extra calls, good/foreign/missing signer-bound signatures, any submitter, epoch jumps around settling_at, top-ups) on the real actor in SimVM incl. real Collect with actor deletion; after every message the channel state must equal an independent reference model, a voucher accepted although the protocol forbids it is a violation, and Collect must make exactly the two exact payouts. Exploration: unbounded histories, exact oracle per history.",
         "Trusted: SimVM semantics, fake but signer-bound signatures, account-actor parties. Merge lists naming one lane twice judged by safety clauses only.",
         "§3 C16"),
 "C06": ("property-based testing (proptest, stateful op sequences) against an independent deal-ledger model + recomputed sums",
         "Seeded random exploration of market histories (deposits, withdrawals by any caller for any party and amount, publish batches with valid/duplicate/unfunded/bad-signature/foreign-provider deals, both activation paths, partial settlements, terminations, market cron, epoch jumps to deal boundaries) over 3 clients and 2 real miners; after every message the locked table must equal the obligations recomputed from the model's deals, locked<=escrow, market totals == per-deal sums, escrow total <= balance, burns == forfeited collateral, and every successful withdrawal must be exactly min(requested, escrow-locked), by an approved caller, paid once to the party/owner.",
         "Trusted: SimVM semantics; market addressed as the real miner actors by implicit messages; fake signer-bound signatures; constant circulating supply; sparse epochs with market.CronTick invoked as cron.",
         "§3 C06"),
 "C07": ("property-based testing with a closed-form oracle and a metamorphic relation over settlement schedules",
         "For generated deal shapes (plus 0-2 bystander deals of the same provider) and 2-3 generated schedules of settlement calls and cron ticks placed relative to the deal's start/end/processing epoch, with a common optional termination epoch, every schedule runs on a fresh world; each settlement must pay exactly price x epochs since the last payment point, the totals must equal the closed form (price x (min(end,T)-start)+, refund, collateral returned or burnt) and the final ledgers must be identical across schedules.",
         "Trusted: as C06. The deal-ledger model mirrors the market's cron scheduling (processing epoch = first epoch >= start congruent to the deal id modulo 30 days).",
         "§3 C07"),
 "C08": ("property-based testing (proptest, stateful op sequences) against a registry model of proposals, ids and activations",
         "Seeded random exploration biased to publication and activation: exact re-publications, in-batch duplicates, bad/foreign signatures, unfunded parties, foreign providers, both activation paths with repeated ids, foreign miner, short-lived sectors, late activation, wrong piece, racing cron/settlement at the start epoch; a deal accepted or activated although the protocol forbids it is a violation; ids must be sequential and never reused; a deal is activated at most once; time-outs must refund the client and burn the provider collateral, never before the start epoch and certainly by the tick at the processing epoch.",
         "Trusted: as C06. Re-publication of a proposal identical to a live, already activated deal is treated as a grey zone (model mirrors the code; history abandoned on disagreement).",
         "§3 C08"),
 "C09": ("property-based testing (proptest, stateful op sequences) with token/allocation ledger equations recomputed from the state tree",
         "Seeded random exploration of Fil+ histories (verifier add/remove via the root multisig, grants at/over the allowance, datacap transfers with allocation/extension requests at and beyond policy limits and with mismatching amounts, claim batches sent as the real miner actors with repeated/foreign/mismatched/expired entries and all-or-nothing, expired-allocation/claim removal, term extensions, signed datacap removal with good/stale/garbage signatures, holder transfers and burns, epoch jumps); after every message: supply == sum of balances, per-holder balance deltas and supply delta equal what the operation entitles (mint - new allocations - extension spend + refunds - destroys - burns - claimed sizes), registry balance == sum of open allocation sizes, every allocation ends exactly once (claimed by its provider with matching data within expiration/term, or refunded at/after expiration), ids never reused, claim term_max never decreases, claims vanish only after expiry.",
         "Trusted: SimVM semantics; ClaimAllocations sent as the miner actors by implicit messages; fake signer-bound signatures. Market-mediated allocations (verified deals) are not generated in this engine yet.",
         "§3 C09"),
 "C17": ("differential property-based testing (proptest) of the EVM actor against an independent reference interpreter",
         "Generated single instructions with boundary-biased 256-bit operands and generated multi-instruction programs (loops, conditional jumps, fake jump targets, memory expansion incl. 32-bit boundary offsets, persistent/transient storage, copies, hashing, all endings) over random call data are deployed through the real EAM path and invoked through InvokeContract; outcome class, return/revert data and the final storage of every touched slot must equal what harness/src/evmref.rs (Yellow Paper + EIPs on num-bigint) computes.",
         "Trusted: the reference interpreter; SimVM; verif-hooks fuel/memory cap in place of gas (exhausted cases discarded and counted). Gas-dependent opcodes, precompiles, calls and logs are outside the compared subset.",
         "§3 C17"),
 "C18": ("property-based testing (proptest): totality on arbitrary byte programs + differential limit programs + static-context scripts",
         "Arbitrary token/byte strings (opcodes incl. CALL/CREATE/LOG families, pushes of live, reserved and unknown addresses, raw bytes) are deployed as runtime code or run as init code and invoked with random call data, directly and beneath 1-3 nested STATICCALL wrappers; no invocation anywhere in the trace may panic, exit codes must be success/revert/defined failures, and a message made only of static calls must leave every actor's state root and balance unchanged and emit no event. Limit programs (1018-1029 stack pushes then environment opcodes, jumps into PUSH data / non-JUMPDEST / out of range / beyond 32 bits, memory offsets around 2^32) are compared with the reference interpreter; static-heavy scripts with the journal model.",
         "Trusted: SimVM (catches panics, enforces read-only at the syscall layer like the FVM), reference interpreter and journal model, verif-hooks fuel/memory cap.",
         "§3 C18"),
 "C19": ("model-based property testing (proptest): generated multi-contract call trees compiled to bytecode, compared with an independent journal model",
         "Generated systems of 2-4 contracts and 1-4 top-level messages from two senders with aligned nonces; each message is a tree of activations (CALL/STATICCALL/DELEGATECALL incl. re-entrant and self calls, value, SSTORE/TSTORE/SLOAD/TLOAD, LOG, CREATE/CREATE2 with succeeding/reverting/failing/self-destructing constructors, calls into created contracts, SELFDESTRUCT, RETURN/REVERT/INVALID) compiled by the harness to bytecode and executed through the real EAM/EVM actors; nested report buffers (success flags, return data, values read before/after calls), final storage, balances, code liveness and events must equal the journal model's prediction after every message.",
         "Trusted: the journal model in harness/src/engines/evmsys.rs, the harness's RLP/Keccak address formulas, SimVM, verif-hooks.",
         "§3 C19"),
 "C20": ("model-based property testing (proptest) with a registry model of ids, addresses, codes and nonces",
         "Generated identity histories (init.Exec of every code kind directly and through a multisig, Exec4 / EAM.Create / Create2 called directly, CreateExternal from native and Ethereum accounts with all constructor endings, auto-created accounts and placeholders incl. at a future contract address, placeholder-originated messages, CreateMiner, a payment channel deleted by Collect) and creation-heavy contract scripts (CREATE/CREATE2 with colliding salts, self-destruct, resurrection); after every message ids are fresh and >= next_id, the address map only grows and never remaps (also after deletion), code changes only placeholder->EVM/EthAccount, delegated addresses are unique/unreserved/mapped, contract nonces are monotone, only permitted creator/code pairs succeed, and every returned Ethereum address equals the harness's own CREATE/CREATE2 computation.",
         "Trusted: SimVM's robust-address derivation (origin, nonce, per-message counter), harness address formulas.",
         "§3 C20"),
}
PENDING_REASON = "check not built yet in this session (engine planned in DESIGN.md §3); not claimed until it runs silently on the unchanged tree and kills its mutants"

def main():
    props = [json.loads(l) for l in open(os.path.join(ROOT, "properties.jsonl"))]
    checks = []
    na = []
    for p in props:
        pid = p["id"]
        if pid in CHECKS:
            tech, text, note, ref = CHECKS[pid]
            checks.append({
                "property_id": pid,
                "quick_cmd": f"./check {pid} --tier quick",
                "thorough_cmd": f"./check {pid} --tier thorough",
                "evidence_file": f"/verif/evidence/{pid}.json",
                "replay_cmd_template": f"./check {pid} --replay {{path}}",
                "engine": "verif-harness",
                "level_claimed": {"category": "exploration", "text": text, "design_ref": ref},
                "level_note": note,
                "technique": tech,
            })
        else:
            na.append({"property_id": pid, "reason": NA.get(pid, PENDING_REASON)})
    m = {
        "version": 1,
        "setup_cmd": "cd /verif/harness && CARGO_NET_OFFLINE=true cargo build --release --offline",
        "hooks": {
            "guard": "verif-hooks (cargo feature on crate fil_actor_evm, default off)",
            "enable": "/verif/harness/Cargo.toml depends on /repo/actors/evm with features = [\"verif-hooks\"] (execution fuel + memory cap); everything else is built without hooks",
            "baseline_off_cmd": "cd /repo && cargo test --workspace --no-fail-fast --offline",
            "source_commits": ["15461b3"],
            "add_only": True,
        },
        "engines": [
            {"name": "verif-harness", "path": "/verif/harness", "serves_properties": sorted(CHECKS),
             "kind_free_text": "Rust binary: SimVM (in-process VM running the real actors natively) + proptest-driven engines with reference-model / recomputed-invariant / metamorphic oracles"},
        ],
        "checks": checks,
        "not_applicable": na,
        "notes": "All checks honour VERIF_SEED / VERIF_TIER; exit 0 held, 1 VIOLATION, 2 inconclusive. See DESIGN.md.",
    }
    json.dump(m, open(os.path.join(ROOT, "MANIFEST.json"), "w"), indent=1)
    print("claimed:", [c["property_id"] for c in checks])

NA = {}
if __name__ == "__main__":
    main()
