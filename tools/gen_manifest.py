#!/usr/bin/env python3
"""Regenerates /verif/MANIFEST.json from the table below (keeps it schema-valid)."""
import json, os, sys
ROOT = os.path.dirname(os.path.dirname(os.path.abspath(__file__)))

# id -> (technique, level text, level note, design ref)
CHECKS = {
 "C12": ("property-based testing (proptest, stateful op sequences) against a trace-driven reference wallet model",
         "Seeded random exploration of generated multisig histories (propose/approve/cancel, signer/threshold/lock changes through the wallet, re-entrant self-calls, a second multisig as signer, epoch advances) on the real actor in SimVM; after every message the wallet state must equal an independent reference model advanced by the invocation trace, every send must be a pending transaction with a quorum of distinct current signers, sent once, never dipping into the locked amount. Exploration is the right level: the property quantifies over unbounded histories and the oracle is exact per history.",
         "Trusted: SimVM's message semantics (transfer-before-call, rollback of failed calls, call-depth limit 1024), CBOR decoding with the actor's parameter types, ID-address signers only. No Wasm/gas.",
         "§3 C12"),
 "C16": ("property-based testing (proptest, stateful op sequences) against a reference payment-channel model",
         "Seeded random exploration of voucher/settle/collect histories (lanes, relative nonces, merges, time locks, secrets, min settle heights, extra calls, good/foreign/missing signer-bound signatures, any submitter, epoch jumps around settling_at, top-ups) on the real actor in SimVM incl. real Collect with actor deletion; after every message the channel state must equal an independent reference model, a voucher accepted although the protocol forbids it is a violation, and Collect must make exactly the two exact payouts. Exploration: unbounded histories, exact oracle per history.",
         "Trusted: SimVM semantics, fake but signer-bound signatures, account-actor parties. Merge lists naming one lane twice judged by safety clauses only.",
         "§3 C16"),
}
PENDING_REASON = "check not built yet in this session (engine planned in DESIGN.md §3); not claimed until it runs silently on the unchanged tree and kills its mutants"

def main():
    props = [json.loads(l) for l in open(os.path.join(ROOT, "properties.jsonl"))]
    checks = []
    na = []
    for p in props:
        pid = p["id"]
        if pid in CHECKS:
            tech, text, note, ref = CHECKS[pid]
            checks.append({
                "property_id": pid,
                "quick_cmd": f"./check {pid} --tier quick",
                "thorough_cmd": f"./check {pid} --tier thorough",
                "evidence_file": f"/verif/evidence/{pid}.json",
                "replay_cmd_template": f"./check {pid} --replay {{path}}",
                "engine": "verif-harness",
                "level_claimed": {"category": "exploration", "text": text, "design_ref": ref},
                "level_note": note,
                "technique": tech,
            })
        else:
            na.append({"property_id": pid, "reason": NA.get(pid, PENDING_REASON)})
    m = {
        "version": 1,
        "setup_cmd": "cd /verif/harness && CARGO_NET_OFFLINE=true cargo build --release --offline",
        "hooks": {
            "guard": "verif-hooks (cargo feature on fil_actor_evm; not yet used)",
            "enable": "checks build /repo crates by path dependency from /verif/harness; no hook is currently required",
            "baseline_off_cmd": "cd /repo && cargo test --workspace --no-fail-fast --offline",
            "source_commits": [],
            "add_only": True,
        },
        "engines": [
            {"name": "verif-harness", "path": "/verif/harness", "serves_properties": sorted(CHECKS),
             "kind_free_text": "Rust binary: SimVM (in-process VM running the real actors natively) + proptest-driven engines with reference-model / recomputed-invariant / metamorphic oracles"},
        ],
        "checks": checks,
        "not_applicable": na,
        "notes": "All checks honour VERIF_SEED / VERIF_TIER; exit 0 held, 1 VIOLATION, 2 inconclusive. See DESIGN.md.",
    }
    json.dump(m, open(os.path.join(ROOT, "MANIFEST.json"), "w"), indent=1)
    print("claimed:", [c["property_id"] for c in checks])

NA = {}
if __name__ == "__main__":
    main()
