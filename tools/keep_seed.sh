#!/bin/bash
# keep_seed.sh <PROP> <name> <worktree>: store the seeded change under /verif/seeded/<name>/, run ./check PROP against it, revert.
set -u
PROP=$1; NAME=$2; WT=$3
D=/verif/seeded/$NAME
mkdir -p $D/demo
git -C $WT diff > $D/patch.diff
for f in $(git -C $WT ls-files --others --exclude-standard | grep -v '^target/' | grep -v SEEDED.md); do
  mkdir -p $D/demo/$(dirname $f); cp $WT/$f $D/demo/$f
done
cp $WT/SEEDED.md $D/SEEDED.md 2>/dev/null
echo "patch:"; cat $D/patch.diff | head -40
if [ -n "$(git -C /repo status --porcelain)" ]; then echo "/repo dirty, abort"; exit 3; fi
git -C /repo apply $D/patch.diff || exit 3
shift 3
/verif/check $PROP "$@" > $D/check_output.txt 2>&1; rc=$?
git -C /repo checkout -- .
grep -E "VIOLATION|violation detail|evaluations=" $D/check_output.txt | head -5
echo "check exit: $rc"
