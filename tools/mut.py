#!/usr/bin/env python3
"""usage: mut.py <ID> <repo-relative-file> <old> <new> [extra check args]: apply a textual mutant to /repo, run ./check ID, revert."""
import subprocess, sys
pid, f, old, new = sys.argv[1:5]
extra = sys.argv[5:]
p = '/repo/' + f
s = open(p).read()
if old not in s:
    print("MUTANT: pattern not found"); sys.exit(3)
open(p, 'w').write(s.replace(old, new, 1))
try:
    r = subprocess.run(['/verif/check', pid] + extra, capture_output=True, text=True)
    out = r.stdout + r.stderr
    lines = [l for l in out.splitlines() if 'VIOLATION' in l or 'violation detail' in l or 'evaluations=' in l or 'error' in l.lower() or 'KNOWN' in l]
    print('\n'.join(lines[:6])); print('exit', r.returncode)
finally:
    subprocess.run(['git', '-C', '/repo', 'checkout', '--', f])
