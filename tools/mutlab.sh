#!/bin/bash
# Scratch lab for mutant trials that does not touch /repo: /tmp/mutlab/repo (copy of /repo HEAD) and /tmp/mutlab/verif (copy of the harness).
# usage: mutlab.sh sync   -> refresh copies (harness sources from /verif, repo from git HEAD)
set -e
LAB=/tmp/mutlab
mkdir -p $LAB
if [ ! -d $LAB/repo/.git ]; then
  git clone -q /repo $LAB/repo
fi
git -C $LAB/repo fetch -q origin && git -C $LAB/repo reset -q --hard origin/HEAD 2>/dev/null || git -C $LAB/repo reset -q --hard $(git -C /repo rev-parse HEAD)
mkdir -p $LAB/verif/harness $LAB/verif/evidence
rsync -a --delete --exclude target /verif/harness/ $LAB/verif/harness/
sed -i "s|/repo/|$LAB/repo/|g" $LAB/verif/harness/Cargo.toml
cp /verif/known_findings.json $LAB/verif/
echo synced
