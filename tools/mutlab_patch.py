#!/usr/bin/env python3
"""usage: mutlab_patch.py <ID> <patch.diff> [args...] — apply a patch file in /tmp/mutlab/repo, build the lab harness, run the engine for ID, revert.
Prints the VIOLATION / evaluations lines and the exit code; writes the full output to <patch dir>/check_output.txt when --save is given."""
import subprocess, sys, os
pid, patch = sys.argv[1:3]
extra = [a for a in sys.argv[3:] if a != '--save']
save = '--save' in sys.argv
LAB = '/tmp/mutlab'
r = subprocess.run(['git', '-C', f'{LAB}/repo', 'apply', os.path.abspath(patch)], capture_output=True, text=True)
if r.returncode != 0:
    print("PATCH DOES NOT APPLY", r.stderr[:300]); sys.exit(3)
env = dict(os.environ, VERIF_ROOT=f'{LAB}/verif', CARGO_NET_OFFLINE='true')
try:
    b = subprocess.run(['cargo', 'build', '--release', '--offline'], cwd=f'{LAB}/verif/harness', capture_output=True, text=True, env=env)
    if b.returncode != 0:
        print("BUILD FAILED"); print(b.stderr[-1500:]); sys.exit(3)
    r = subprocess.run([f'{LAB}/verif/harness/target/release/verif', pid] + extra, capture_output=True, text=True, env=env)
    out = r.stdout + r.stderr
    if save:
        open(os.path.join(os.path.dirname(os.path.abspath(patch)), 'check_output.txt'), 'w').write(out)
    lines = [l for l in out.splitlines() if 'VIOLATION' in l or 'violation detail' in l or 'evaluations=' in l]
    print('\n'.join(l[:300] for l in lines[:3])); print('exit', r.returncode)
finally:
    subprocess.run(['git', '-C', f'{LAB}/repo', 'checkout', '--', '.'])
