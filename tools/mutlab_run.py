#!/usr/bin/env python3
"""usage: mutlab_run.py <ID> <file> <old> <new> [args...]  — apply a textual mutant in /tmp/mutlab/repo, build the lab harness, run the engine, revert."""
import subprocess, sys, os
pid, f, old, new = sys.argv[1:5]
extra = sys.argv[5:]
LAB='/tmp/mutlab'
p = f'{LAB}/repo/{f}'
s = open(p).read()
if old not in s:
    print("MUTANT: pattern not found"); sys.exit(3)
open(p, 'w').write(s.replace(old, new, 1))
env = dict(os.environ, VERIF_ROOT=f'{LAB}/verif', CARGO_NET_OFFLINE='true')
try:
    b = subprocess.run(['cargo','build','--release','--offline'], cwd=f'{LAB}/verif/harness', capture_output=True, text=True, env=env)
    if b.returncode != 0:
        print("BUILD FAILED"); print(b.stderr[-1500:]); sys.exit(3)
    r = subprocess.run([f'{LAB}/verif/harness/target/release/verif', pid] + extra, capture_output=True, text=True, env=env)
    out = r.stdout + r.stderr
    lines = [l for l in out.splitlines() if 'VIOLATION' in l or 'violation detail' in l or 'evaluations=' in l or 'KNOWN' in l or 'PANIC' in l]
    print('\n'.join(l[:400] for l in lines[:5])); print('exit', r.returncode)
finally:
    subprocess.run(['git', '-C', f'{LAB}/repo', 'checkout', '--', f])
