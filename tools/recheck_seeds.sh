#!/bin/bash
# Re-run every kept seeded change against the check of its own property (in the scratch lab), refresh check_output.txt and meta.json.detected_by_check.
cd /verif
bash tools/mutlab.sh sync >/dev/null
export VERIF_SHRINK_MS=${VERIF_SHRINK_MS:-10000}
for d in seeded/*/; do
  name=$(basename $d); prop=${name%%-*}
  echo "=== $name ($prop)"
  python3 tools/mutlab_patch.py $prop $d/patch.diff --save | tail -3
  python3 - "$d" <<'PY'
import json, sys, os
d = sys.argv[1]
m = json.load(open(os.path.join(d, 'meta.json')))
out = open(os.path.join(d, 'check_output.txt')).read()
m['detected_by_check'] = 'VIOLATION property=' in out
json.dump(m, open(os.path.join(d, 'meta.json'), 'w'), indent=1)
PY
done
