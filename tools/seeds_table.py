#!/usr/bin/env python3
"""Print the markdown table of seeded changes (from /verif/seeded/*/meta.json + check_output.txt) for DESIGN.md §8.5."""
import json, os, re, glob
EXTRA = {  # cross-detections observed by hand (other checks that also catch the change)
 "C02-extend-drops-partition-from-deadline-queue": "caught by C04 quick (`deadline-queue-misses-partition`) and by C02 **thorough** (`expiration-not-processed` at the on-time expiration, 2044 cases / 19 min); the power symptom needs >= 210 days of chain time, which the quick tier does not generate",
 "C14-beneficiary-expiry-boundary": "also C13 (withdrawal probes)",
 "C17-u64-cmp-limb": "also found by the libFuzzer target `evm_diff` from the committed seed corpus after 179 561 executions (the crash is written as an ordinary replay file and reproduces with `./check C17 --replay`); 500 000 executions on the unchanged tree stay silent",
}
rows = []
for d in sorted(glob.glob('/verif/seeded/*/')):
    name = os.path.basename(d.rstrip('/'))
    m = json.load(open(d + 'meta.json'))
    out = open(d + 'check_output.txt', errors='replace').read() if os.path.exists(d + 'check_output.txt') else ''
    det = 'VIOLATION property=' in out
    clause = ''
    mm = re.search(r'violation detail: ([a-z0-9-]+)\|', out)
    if mm: clause = mm.group(1)
    files = sorted(set(re.findall(r'^\+\+\+ b/(\S+)', open(d + 'patch.diff').read(), re.M)))
    needs = (m.get('needs_to_manifest') or '').strip().replace('\n', ' ')
    rows.append((m['property'], name, ', '.join(f.replace('actors/', '') for f in files), needs, ('**yes** (`%s`)' % clause) if det else 'no', EXTRA.get(name, '')))
print('| property | seeded change | file | needs to manifest | caught by its own quick check | notes |')
print('|---|---|---|---|---|---|')
for r in rows:
    print('| ' + ' | '.join(r) + ' |')
